#!/usr/bin/env python3
"""Regenerates /verif/MANIFEST.json from the table below (run after adding a check)."""
import json, os, subprocess, sys

ROOT = os.path.dirname(os.path.dirname(os.path.abspath(__file__)))

# id -> (technique, level text, level note, design ref)
CHECKS = {
 "C01": ("runtime monitor: reference-oracle comparison of Sign/Verify over a structured candidate family (math/big G1 arithmetic, known discrete logs)",
         "Every Sign output is compared with the reference point [k]H(m) and every Verify verdict with membership in the singleton {enc([k]H(m))}, over key/message/hasher triples and ~700 structured candidates each (all 384 bit flips, negation, +torsion, +G1 deltas, x+p, flag combinations, infinity variants, lengths 0..200, foreign signatures, random strings), plus identity keys. Also: shaped private scalars (powers of two and neighbours at every limb/window boundary), the candidates passed through one reused signature buffer and message buffer as the first use of the key, a hasher that reuses its output buffer driven with alternating messages, identity keys from every producer; hash-to-curve anchored on the RFC 9380 J.9.1 vectors and structural relations; 128-byte hasher outputs with a common prefix/suffix or one bit apart signed and verified back to back on one locked OS thread; hashers that announce any algorithm identifier with a wrong or right size; equal-length tags with equal CRC-32 requested back to back; Montgomery constants as private scalars. Held = no disagreement on the executions produced.",
         "Trusts the from-spec BLS12-381 reference (self-tested against the draft's generator encodings and group-law identities) and takes H(m) from the library via sk=1 (validated on-curve and in G1).", "4/C01"),
 "C02": ("runtime monitor: reference-oracle comparison (sum of k_i*H_i) plus metamorphic permutation/duplication checks of aggregate verification",
         "Verdicts of VerifyBLSSignatureOneMessage/ManyMessages are compared with the reference predicate s == enc(sum k_i*H_i(m_i)) and no identity key, over a grid of (distinct keys, distinct hashes, n) shapes hitting both internal groupings, under permutations, duplicate pairs, equal points in distinct objects, cancelling keys, and the documented error classes (also combined with an identity key in the list); every group size 1..132 in both groupings and every (#messages, #cancelling groups) grid point up to 13 messages.",
         "Same trusted base as C01; the grouping actually taken is predicted from the documented rule, not observed.", "4/C02"),
 "C03": ("runtime monitor: differential comparison of batch verification against per-index Verify, exhaustive over invalid-position subsets for n<=7",
         "For every n<=7 and every subset of invalid positions, for each invalidity kind (random, swapped pair, +d/-d, three-way cancellation, torsion, malformed, wrong length, infinity, identity key), the batch result is compared index by index with individual Verify; larger n sampled at tree boundaries; input errors must give all-false; cancelling pairs at exact index distances 64..1024, hashers that announce 128 bytes and deliver another length, runs preceded by rejected calls; batches whose keys are equal (same object, second object, Jacobian form) or opposite at neighbouring, all or distant indices with errors cancelling between exactly those entries.",
         "The 2^-128 soundness error is not observable; a coefficient weakened to >~16 bits is out of reach (stated in DESIGN).", "4/C03"),
 "C04": ("runtime monitor: reference-oracle comparison of key/signature aggregation and removal (math/big scalar, G1, G2 arithmetic) with order/nesting metamorphic checks",
         "Aggregated private keys, public keys and signatures are compared byte for byte with reference sums over multisets with duplicates, inverses, zero-sum subsets and the identity, under permutations and random nestings; Remove(Agg(A+B),B)==Agg(A); error classes checked; every list size 1..72 (300) with Jacobian-form inputs against reference prefix sums; aggregation preceded by rejected calls of the same function; returned slices overwritten and the call repeated; an identity / copied / opposite / malformed element at every position of a 270 (530) element list of signatures and of keys; wrong lengths that compensate each other; removal in two steps and from a minuend in Jacobian coordinates; IsBLSSignatureIdentity over a grid of near-identity strings, BLSInvalidSignature, IdentityBLSPublicKey.",
         "Trusts the reference group arithmetic and the measured G2 coefficient order (judged only by C05).", "4/C04"),
 "C05": ("runtime monitor: accept/reject and re-encode differential against from-spec codecs (ZCash G1/G2, F_r range, ECDSA raw and X9.62) over structured byte strings",
         "Every decoder and signature parser is run on all lengths 0..200, all flag combinations, boundary coordinates, non-residues, non-subgroup points, infinity encodings with a non-zero byte at every position, single-bit flips and random strings; acceptance must equal the reference codec's, accepted strings must re-encode identically and produced objects must round-trip; inputs replayed through one reused buffer and by 16 goroutines in parallel must reproduce the sequential verdicts; an Equals matrix over every produced object, its re-decoded twin, its Jacobian form and identity keys from every producer; Algorithm(), Size() and String() of every produced key object against its Encode().",
         "Trusts the reference codecs (self-tested against the draft's generator encodings).", "4/C05"),
 "C06": ("runtime monitor: reference Lagrange/Shamir oracle over threshold key generation and stateless/stateful reconstruction, exhaustive subsets for n<=7",
         "Shares are checked to lie on one degree-t polynomial with matching public shares and group key; reconstruction from every qualifying subset (all subsets and small-order permutations for n<=7, limb-boundary index patterns up to n=254) through both APIs must equal enc([P(0)]H(m)); the stateful object must never return a signature after an invalid share; harness-chosen polynomials whose Lagrange-weighted terms coincide or cancel, every threshold 1..253, reconstructions preceded by rejected calls, returned signatures overwritten by the caller; grids of (n, t, index) parameters around the documented ranges for key generation, constructors and stateless reconstruction; share lengths that compensate each other; share and message buffers reused by the caller; the stateless EnoughShares over a grid; booleans returned with an error must be false; objects whose group key does not belong to the key shares never return a signature that fails under the group key; the dealt polynomial recovered from the shares has t+1 non-zero distinct coefficients; key sets with an identity public key share work; invalid shares whose errors cancel in the interpolation are still rejected by VerifyShare.",
         "Trusts the reference F_r interpolation and G1/G2 arithmetic.", "4/C06"),
 "C07": ("runtime monitor: deterministic Byzantine network simulator over real DKG instances with offline agreement oracle on End() results and callbacks",
         "Real Feldman-VSS-Qual and Joint-Feldman instances are driven through seeded round-synchronous schedules with <=t Byzantine puppets drawn from a message grammar; the oracle checks identical disqualified sets, identical outcome class, identical keys, sk_i/pk_i consistency and threshold-signature validity across honest nodes; large groups (n up to 254) and consistent dealings of harness-chosen polynomials (Horner steps with equal/opposite operands, zero coefficients) fed to real receivers must be accepted with the reference-evaluated keys; all-honest runs must end with keys, a reported disqualification of the dealer must make End fail, the Joint-Feldman group key must be the sum over exactly the dealers not reported disqualified; polynomials with a root at a complainer's point with every kind of answer, delivered to a bystander in both orders; the Joint-Feldman End outcome must match the documented condition on the disqualifications the node reported; both Qual protocols over a synchronously delivering (re-entrant) network; processors overwrite the buffers handed to PrivateSend/Broadcast; a directed family with two cooperating Byzantine participants at the complaint-count boundary.",
         "Explores only delivery models inside the property's quantifier (same-round reliable broadcast, FIFO per sender); liveness not claimed.", "4/C07-C08, App. A"),
 "C08": ("runtime monitor: same simulator; fairness oracle on Disqualify/FlagMisbehavior callbacks, converse oracle from delivered-message ground truth, plain-VSS delivery-order grid",
         "No honest node may be blamed by an honest node; a dealer whose delivered messages meet one of the four stated causes must be disqualified everywhere; plain Feldman VSS must fail End() for every invalid vector kind and share mismatch under every delivery order; vectors whose points carry small-order components in the kernel of the receiver's evaluation and of a second linear form, and polynomials with a root at the receiver's point, must never yield keys; the honest plain-VSS dealer itself must end with keys matching what it sent.",
         "Ground truth is computed by the reference decoders from what was actually delivered.", "4/C07-C08, App. A"),
 "C09": ("runtime monitor + sanitizers: child-process command stream over every exported entry point under plain (recover + typed-error monitor), -asan and -race/checkptr builds",
         "Each exported function is driven with nil/empty/short/long/huge byte slices, boundary integers, undefined enums, malformed lists and random DKG message histories; any panic, fatal error, sanitizer report, timeout or undocumented error class is a violation; sanitizer liveness is proven by canaries; a family of well-formed lists of every size 1..260 runs each list-taking function to the end of its buffers; lists of tens of thousands of distinct keys and messages; lists made of identity signatures, identity keys and per-message cancelling key pairs for every size 1..40; out-of-range DKG indices (also congruent to legal ones modulo 256 / 2^32) must produce an error.",
         "ASan sees C accesses and Go-heap red zones only; reads inside a Go allocation's capacity are invisible.", "4/C09"),
 "C10": ("runtime monitor: executable state-machine model of the DKG API plus twin-run equivalence, exhaustive over abstract call sequences up to a bound",
         "All abstract call sequences up to length 4 (quick) / 5 (thorough) and random longer ones are run on the three protocols in both roles; each call's error class and Running() must match the model, and dropping the rejected calls must not change emitted messages, callbacks or End() results (twin run); directed protocol-shaped sequences built from the companions' real messages; a grid of constructor parameters around the documented ranges; what an accepted ForceDisqualify does (Qual: dealer => End fails, anybody else => no effect; Joint-Feldman: the keys of a protocol-made disqualification).",
         "Restart after End is outside the quantifier; payload concretisation is pseudo-random per symbol.", "4/C10, App. C"),
 "C11": ("runtime monitor: reference ECDSA verification oracle (math/big, both curves) over library-made and crafted signatures and their mutations",
         "Verify, Sign and SignatureFormatCheck are compared with textbook ECDSA on P-256 and secp256k1 for all supported hashers: twins, r/s in {0,n,n+1,2^256-1}, all 512 bit flips, swaps, lengths 0..130, other message/key/curve, short and nil hashers, hashers announcing any algorithm identifier with sizes on both sides of 32 bytes, candidates passed through one reused buffer, crafted valid signatures with s of every byte shape.",
         "Reference self-tested against crypto/ecdsa on P-256 and known secp256k1 constants.", "4/C11"),
 "C12": ("runtime monitor: reference HKDF/KeyGen oracle and reference scalar multiplication for public keys",
         "GeneratePrivateKey is compared with an independent HKDF-SHA256 derivation for every seed length 0..300 on three algorithms; public keys of generated, decoded and aggregated keys are compared with reference [d]G; determinism and cache stability checked; shaped scalars, aggregated lists with duplicate/related keys and every cached-subset, a 16-goroutine replay of key generation against sequentially recorded outputs, and aggregates of aggregates (three levels, warm and cold public-key caches).",
         "Reference HKDF self-tested on RFC 5869 and against crypto/hkdf.", "4/C12"),
 "C13": ("runtime monitor: from-spec Keccak/SHA-2/KMAC oracles plus a sequential hasher model over operation histories, in default and purego builds",
         "Digests for every length 0..4*rate, every 2-split up to 2*rate+2, random k-splits, all alignments, reused and fresh objects, and random ComputeHash/Write/SumHash/Reset histories are compared with reference digests of the modelled byte stream; KMAC over all key lengths 16..400, customizers and output sizes; families of related KMAC instances alive together (same key||customizer concatenation, prefixes, more than any bounded table holds) and a 16-goroutine replay of constructors and one-shot helpers; structured message content (zero / sparse / periodic lanes, one non-zero byte at every position, small integers) through every way of hashing in both builds; KMAC key, customizer and output lengths at which the SP 800-185 length encodings grow by a byte (32, 8192, 2097152 bytes +-1); KMAC instances whose keys / customizers agree in length and CRC-32 or whose customizer lengths agree modulo 256.",
         "References self-tested against NIST vectors and the standard library.", "4/C13"),
 "C14": ("runtime monitor: reference ChaCha20 keystream oracle and store/restore continuation check at every byte offset",
         "Read output under many read-size sequences is compared with the RFC 8439 keystream; at every offset the state is stored, restored and both generators continued with an identical script of Read/UintN/Permutation/Shuffle/Samples; Store layout and bad lengths checked; single reads of 4 KiB..16 MiB with the stored counter after each, several checkpoints of one generator restored later, states wiped by the caller.",
         "The 2^38-byte counter wrap is out of scope.", "4/C14"),
 "C15": ("runtime monitor over a hooked random tape: exhaustive enumeration of source bytes for UintN and tape-tree walk with exact rational mass for permutations and samples",
         "The real helpers are fed from an enumerated tape through the verif-tag hook; for each n every first-draw tape is run and accepted values must be equally frequent and in range; permutation/sample outcomes must be valid and receive equal mass; every call of mixed call sequences is mirrored on a fresh generator at the same source position (history independence) and slices returned earlier must survive later calls.",
         "Exact uniformity only for enumerated n and sizes; larger n sampled.", "4/C15"),
 "C16": ("runtime monitor: C01 oracle with an independently rebuilt PoP hasher, plus cross-domain separation checks over crafted tags",
         "BLSGeneratePOP must equal the reference [k]H_pop(enc(pk)); BLSVerifyPOP is checked over the C01 candidate family, other keys and identity keys; for every crafted tag, signatures never verify as PoPs and PoPs never verify as signatures; candidates passed through one reused buffer as the first verification under the key, keys decoded from buffers that are overwritten afterwards.",
         "Same trusted base as C01.", "4/C16"),
 "C17": ("runtime monitor: reference-oracle comparison of SPOCKVerify with known discrete logs, with swap symmetry",
         "SPOCKVerify verdicts are compared with the predicate both proofs canonical G1, no identity key, [k2]P1 == [k1]P2 over equal/distinct/negated/identity key pairs and honest, scaled, torsion-shifted, identity, malformed proofs; every call repeated with pairs swapped; SPOCKProve/VerifyAgainstData compared with Sign/Verify; key relation x representation (same object, re-decoded, Jacobian) cross product, reused proof buffers, non-canonical identity encodings whose bytes cancel under sum/xor, pairs of wrong-length proofs whose concatenation is that of an honest pair.",
         "Same trusted base as C01.", "4/C17"),
 "C18": ("runtime monitor: porcupine linearizability checking of recorded concurrent histories against a nondeterministic sequential model, plus Go race detector",
         "Many short concurrent histories over all eight methods are recorded with a logical clock and checked against the documented sequential semantics; direct monitors check monotonic EnoughShares, <=t+1 retained shares and signature stability; a history whose unfinished workers are all parked on the object's lock inside its methods (goroutine stacks, no call started or returned between two looks) is reported as a deadlock; the same workload runs under -race.",
         "Interleavings are those the Go scheduler produced under GOMAXPROCS in {1,2,4,16} with client-side jitter.", "4/C18, App. B"),
 "C19": ("sanitizer + runtime monitor: Go race detector over storms of the listed read-only operations on shared objects, result-equality and argument-immutability monitors",
         "Goroutine storms of KMAC ComputeHash, BLS Sign/Verify/PoP/SPoCK/aggregate/batch and ECDSA Sign/Verify on shared keys and hashers run under -race; every result is compared with a sequential table and all argument buffers, key encodings and hasher state are compared before/after; first-use storms (fresh key, hasher and ECDSA key objects hit by 2-8 goroutines at once), rejected calls interleaved in the storm, many-message verification over lists longer than one internal pairing batch.",
         "The race detector does not see C-side accesses; result equality covers those.", "4/C19"),
 "C20": ("runtime monitor: byte-for-byte transcript comparison of one deterministic program built in four configurations",
         "A seeded transcript of hashing, KMAC, PRG, key generation/decoding, BLS signing/verification/aggregation/threshold/DKG and ECDSA verification is produced by the default, portable (-D__BLST_PORTABLE__), purego and no_cgo builds and compared line by line (recovered BLS calls interleaved with the non-BLS sections; structured hash inputs; caller-provided hashers with related 128-byte outputs on one locked thread; shaped ECDSA scalars); the C02/C04/C06 oracle checks are re-run inside the portable build.",
         "Only configurations runnable on this amd64 host.", "4/C20"),
}

def main():
    done_path = os.path.join(ROOT, "bin", "implemented.txt")
    done = [l.strip() for l in open(done_path) if l.strip() and not l.startswith("#")]
    checks, na = [], []
    for cid in sorted(CHECKS):
        tech, text, note, ref = CHECKS[cid]
        if cid in done:
            checks.append({
                "property_id": cid,
                "quick_cmd": f"bin/check {cid} quick",
                "thorough_cmd": f"bin/check {cid} thorough",
                "evidence_file": f"evidence/{cid}.json",
                "replay_cmd_template": f"bin/check {cid} replay {{path}}",
                "engine": "verif-harness",
                "level_claimed": {"category": "exploration", "text": text, "design_ref": "DESIGN.md " + ref},
                "level_note": note,
                "technique": tech,
            })
        else:
            na.append({"property_id": cid, "reason": "check not yet built in this revision (runtime monitoring applies; see DESIGN.md " + ref + ")"})
    hooks_commits = []
    hp = os.path.join(ROOT, "bin", "hook_commits.txt")
    if os.path.exists(hp):
        hooks_commits = [l.strip() for l in open(hp) if l.strip()]
    m = {
        "version": 1,
        "setup_cmd": "bin/setup",
        "hooks": {
            "guard": "verif (Go build tag)",
            "enable": "go build -tags verif (harness module with replace github.com/onflow/crypto => /repo)",
            "baseline_off_cmd": "cd /repo && GOFLAGS=-mod=mod go test -vet=off -count=1 -timeout 25m ./...",
            "source_commits": hooks_commits,
            "add_only": True,
        },
        "engines": [{
            "name": "verif-harness", "path": "harness",
            "serves_properties": done,
            "kind_free_text": "Go module: from-spec math/big reference oracles (ref/), monitor runtime with signatures/known-findings/evidence (mon/), deterministic DKG network simulator (sim/), per-property checks (checks/), child-process supervisor for -race/-asan builds",
        }],
        "checks": checks,
        "notes": "Runtime monitoring only. exit 0 held / 1 violation / 2 inconclusive. Known findings in known_findings.json.",
        "not_applicable": na,
    }
    json.dump(m, open(os.path.join(ROOT, "MANIFEST.json"), "w"), indent=1)
    print("MANIFEST: %d checks, %d pending" % (len(checks), len(na)))

main()
