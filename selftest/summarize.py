#!/usr/bin/env python3
"""Prints a markdown table of the latest result per mutant from selftest/RESULTS.jsonl."""
import json, os, sys
ROOT = os.path.dirname(os.path.dirname(os.path.abspath(__file__)))
sys.path.insert(0, os.path.join(ROOT, "selftest"))
from mutants import M
last = {}
for l in open(os.path.join(ROOT, "selftest", "RESULTS.jsonl")):
    r = json.loads(l)
    last[r["name"]] = r
print("| mutant | file | suite | caught by | missed by |")
print("|---|---|---|---|---|")
for mu in M:
    r = last.get(mu["name"])
    if not r:
        print(f"| {mu['name']} | {mu['file']} | not run | | |")
        continue
    if "error" in r:
        print(f"| {mu['name']} | {mu['file']} | error: {r['error'][:60]} | | |")
        continue
    caught = [c for c, x in r["checks"].items() if x["exit"] == 1]
    missed = [f"{c}(exit {x['exit']})" for c, x in r["checks"].items() if x["exit"] != 1]
    print(f"| {mu['name']} | {mu['file']} | {r['baseline']} | {', '.join(caught)} | {', '.join(missed)} |")
