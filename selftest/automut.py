#!/usr/bin/env python3
"""Automatic one-token mutants of onflow/crypto, run against the quick checks (mutation analysis).

usage: selftest/automut.py [--jobs N] [--per-file K] [--seed S] [--files a.go,b.c] [--list]
       selftest/automut.py --recheck [--jobs N]     (survivors of the mapped checks against all twenty checks)

Candidate mutants are produced by a handful of textual operators on the non-test Go and C sources
(relational operator swaps, && / || swaps, negated conditions, +1 / -1 swaps, true/false and
VALID/INVALID swaps in returns, continue -> break, deletion of a simple statement). K of them are
drawn per file (deterministically from S). Each one is applied to a scratch worktree of /repo HEAD;
if it compiles, the quick checks mapped to that file are run against it (VERIF_REPO / VERIF_OUT scratch
directories) until one reports a violation. Outcomes: killed (which check, which signature), survived,
invalid (does not compile). Results are appended to selftest/AUTOMUT.jsonl; survivors need a human
look: many are equivalent (performance-only code, messages) and the rest are gaps worth a monitor.

Nothing in MANIFEST.json depends on this; nothing is written to /repo."""
import json, os, random, re, shutil, subprocess, sys, time
import concurrent.futures as cf

ROOT = os.path.dirname(os.path.dirname(os.path.abspath(__file__)))
ENV = dict(os.environ, GOFLAGS="-mod=mod", GOPROXY="off")
ENV.pop("GOSUMDB", None)
ENV.pop("GOTOOLCHAIN", None)

FILES = {
    "bls.go": ["C01", "C05", "C12", "C16"],
    "bls_multisig.go": ["C02", "C04", "C03", "C16"],
    "bls_thresholdsign.go": ["C06", "C18"],
    "spock.go": ["C17"],
    "dkg.go": ["C10", "C07"],
    "dkg_feldmanvss.go": ["C08", "C10", "C07"],
    "dkg_feldmanvssq.go": ["C07", "C08", "C10"],
    "dkg_jointfeldman.go": ["C07", "C10", "C08"],
    "ecdsa.go": ["C11", "C05", "C12"],
    "sign.go": ["C12", "C05", "C11", "C09", "C16"],
    "hash/keccak.go": ["C13"],
    "hash/kmac.go": ["C13"],
    "hash/sha2.go": ["C13"],
    "hash/sha3.go": ["C13"],
    "hash/legacy_keccak.go": ["C13"],
    "hash/xor_unaligned.go": ["C13"],
    "random/rand.go": ["C15", "C14"],
    "random/chacha20.go": ["C14", "C15"],
    "bls12381_utils.c": ["C05", "C01", "C04", "C02", "C12", "C07", "C03", "C06", "C17"],
    "bls_core.c": ["C01", "C02", "C03", "C17"],
    "bls_thresholdsign_core.c": ["C06"],
    "dkg_core.c": ["C07", "C08", "C06"],
}


def sh(cmd, cwd=None, env=None, timeout=3600):
    # own process group, killed as a whole on timeout (a mutant may loop forever inside a check's child)
    import signal
    p = subprocess.Popen(cmd, shell=True, cwd=cwd, env=env or ENV, stdout=subprocess.PIPE, stderr=subprocess.STDOUT, start_new_session=True)
    try:
        o, _ = p.communicate(timeout=timeout)
        return p.returncode, o.decode(errors="replace")
    except subprocess.TimeoutExpired:
        try:
            os.killpg(p.pid, signal.SIGKILL)
        except ProcessLookupError:
            pass
        p.wait()
        return 124, "timeout"


def strip_strings(line):
    """Blank out string and char literals so that operators inside them are not mutated."""
    return re.sub(r'"(\\.|[^"\\])*"|\'(\\.|[^\'\\])*\'|`[^`]*`', lambda m: " " * len(m.group(0)), line)


def candidates(path, text):
    is_c = path.endswith(".c")
    out = []
    in_block_comment = False
    lines = text.split("\n")
    for i, line in enumerate(lines):
        s = line.strip()
        if in_block_comment:
            if "*/" in s:
                in_block_comment = False
            continue
        if s.startswith("/*"):
            if "*/" not in s:
                in_block_comment = True
            continue
        if not s or s.startswith("//") or s.startswith("#") or s.startswith("*") or s.startswith("import") or s.startswith("package"):
            continue
        if "Errorf(" in s or "errorf(" in s or "printf" in s or "panic(" in s:
            continue
        code = strip_strings(line.split("//")[0])

        def add(op, new_line):
            if new_line != line:
                out.append(dict(file=path, line=i + 1, op=op, old=line, new=new_line))

        is_cond = re.search(r"\b(if|for|while|return|switch|case)\b", code) is not None
        # relational operators
        if is_cond:
            for m in re.finditer(r"(?<![<>=!\-])(<=|>=|==|!=|<|>)(?![<>=])", code):
                tok = m.group(1)
                if tok in ("<", ">") and (code[m.start() - 1:m.start()] == "-" or code[m.end():m.end() + 1] == "-"):
                    continue
                if not is_c and tok in ("<", ">") and re.search(r"\[[^\]]*$", code[:m.start()]) and "]" in code[m.end():] and "[" in code[:m.start()] and re.search(r"\w\[\w+\]$", code[:m.start()]) is None and False:
                    continue
                swap = {"<=": "<", "<": "<=", ">=": ">", ">": ">=", "==": "!=", "!=": "=="}[tok]
                add(f"rel {tok} -> {swap}", line[:m.start()] + swap + line[m.end():])
            for m in re.finditer(r"&&|\|\|", code):
                swap = "||" if m.group(0) == "&&" else "&&"
                add(f"logic {m.group(0)} -> {swap}", line[:m.start()] + swap + line[m.end():])
        # negated if condition
        if is_c:
            m = re.match(r"^(\s*)if \((.*)\) \{\s*$", line)
            if m and "(" not in strip_strings(m.group(2)).replace("(", "", 0)[:0]:
                add("negate if", f"{m.group(1)}if (!({m.group(2)})) {{")
        else:
            m = re.match(r"^(\s*)if ([^;{]*) \{\s*$", line)
            if m and ":=" not in m.group(2):
                add("negate if", f"{m.group(1)}if !({m.group(2)}) {{")
        # +1 / -1
        for m in re.finditer(r"([+\-]) ?1\b(?!\s*[<>]{2})", code):
            if code[m.start() - 1:m.start()] in ("+", "-", "e", "E") or code[m.end():m.end() + 1] in ("+", "-"):
                continue
            if m.start() > 0 and code[:m.start()].rstrip().endswith(("(", ",", "=", "return", "[", "<", ">")):
                continue  # a unary sign
            swap = "-" if m.group(1) == "+" else "+"
            add(f"arith {m.group(1)}1 -> {swap}1", line[:m.start()] + swap + line[m.start() + 1:])
        # boolean / status constants in returns
        if re.search(r"\breturn\b", code):
            for a, b in (("true", "false"), ("false", "true"), ("VALID", "INVALID"), ("INVALID", "VALID")):
                m = re.search(r"\b" + a + r"\b", code)
                if m:
                    add(f"const {a} -> {b}", line[:m.start()] + b + line[m.end():])
                    break
        # continue -> break
        if re.match(r"^\s*continue;?\s*$", line):
            add("continue -> break", line.replace("continue", "break"))
        # statement deletion (simple calls / assignments without declaration)
        if is_c:
            if re.match(r"^\s+[A-Za-z_][\w\->\.\[\]]*(\s*[+\-|^&]?=\s*[^;]+|\([^;]*\));\s*$", line) and "return" not in code and not re.match(r"^\s+(const\s+)?[A-Za-z_]\w*\s+\**[A-Za-z_]\w*\s*=", line):
                add("delete statement", re.match(r"^\s*", line).group(0) + ";")
        else:
            if re.match(r"^\s+[A-Za-z_][\w\.\[\]\(\)\*&]*\s*([+\-|^&]?=)\s*[^=].*$", line) and ":=" not in code and not s.endswith("{") and not s.endswith(","):
                add("delete statement", re.match(r"^\s*", line).group(0) + "_ = 0")
            elif re.match(r"^\s+[a-zA-Z_][\w\.]*\([^{}]*\)\s*$", line) and not s.startswith(("return", "defer", "go ")):
                add("delete statement", re.match(r"^\s*", line).group(0) + "_ = 0")
    return out


def run_one(idx, mu):
    tag = f"m{idx}"
    wt, out = f"/tmp/vamut/{tag}", f"/tmp/vamut/{tag}-out"
    res = dict(idx=idx, file=mu["file"], line=mu["line"], op=mu["op"], old=mu["old"].strip(), new=mu["new"].strip(), checks={})
    sh(f"git -C /repo worktree remove --force {wt}")
    shutil.rmtree(wt, ignore_errors=True)
    shutil.rmtree(out, ignore_errors=True)
    rc, o = sh(f"git -C /repo worktree add --detach {wt} HEAD")
    if rc != 0:
        res["outcome"] = "error"
        res["error"] = o[-200:]
        return res
    try:
        path = os.path.join(wt, mu["file"])
        lines = open(path).read().split("\n")
        if lines[mu["line"] - 1] != mu["old"]:
            res["outcome"] = "error"
            res["error"] = "source changed"
            return res
        lines[mu["line"] - 1] = mu["new"]
        open(path, "w").write("\n".join(lines))
        rc, o = sh("go build ./... && go vet -vet=off ./... >/dev/null 2>&1; go build ./...", cwd=wt, timeout=900)
        if rc != 0:
            res["outcome"] = "invalid"
            res["error"] = o[-300:]
            return res
        env = dict(ENV, VERIF_REPO=wt, VERIF_OUT=out)
        res["outcome"] = "survived"
        for c in FILES[mu["file"]]:
            t0 = time.time()
            rc, o = sh(f"{ROOT}/bin/check {c} quick", env=env, timeout=900)
            sigs = [l.strip()[len("signature: "):] for l in o.splitlines() if l.strip().startswith("signature: ")]
            res["checks"][c] = dict(exit=rc, signatures=sigs[:3], secs=round(time.time() - t0, 1))
            if rc == 1:
                res["outcome"] = "killed"
                res["killed_by"] = c
                break
            if rc == 124:
                res["outcome"] = "killed"
                res["killed_by"] = c + "(hang)"
                break
            if rc not in (0, 1):
                res["checks"][c]["tail"] = o[-300:]
                if "build of" in o and "failed" in o:
                    res["outcome"] = "invalid"
                    break
                # inconclusive for another reason (e.g. evidence floor not met because the mutant removes
                # behaviour): the run did not say "held", count it as noticed
                res["outcome"] = "killed"
                res["killed_by"] = c + "(inconclusive)"
                break
    finally:
        sh(f"git -C /repo worktree remove --force {wt}")
        shutil.rmtree(wt, ignore_errors=True)
        shutil.rmtree(out, ignore_errors=True)
    return res


ALL = ["C14", "C13", "C16", "C12", "C05", "C04", "C01", "C06", "C07", "C02", "C17", "C10", "C15", "C18", "C03", "C08", "C11", "C19", "C20", "C09"]


def recheck(jobs):
    """Re-runs the survivors recorded in AUTOMUT.jsonl against ALL checks (cheapest first)."""
    outp = os.path.join(ROOT, "selftest", "AUTOMUT.jsonl")
    rows = [json.loads(l) for l in open(outp)]
    done = {(r["file"], r["line"], r["op"]) for r in rows if r.get("recheck")}
    todo = [r for r in rows if r["outcome"] == "survived" and not r.get("recheck") and (r["file"], r["line"], r["op"]) not in done]
    os.makedirs("/tmp/vamut", exist_ok=True)

    def one(k, r):
        src = open(os.path.join("/repo", r["file"])).read().split("\n")
        old = src[r["line"] - 1]
        if old.strip() != r["old"]:
            return dict(r, recheck=True, outcome="error", error="source changed")
        cands = [c for c in candidates(r["file"], "\n".join(src)) if c["line"] == r["line"] and c["op"] == r["op"] and c["new"].strip() == r["new"]]
        if not cands:
            return dict(r, recheck=True, outcome="error", error="mutant not regenerated")
        mu = cands[0]
        saved = FILES[r["file"]]
        res = dict(r, recheck=True)
        wt, out = f"/tmp/vamut/r{k}", f"/tmp/vamut/r{k}-out"
        sh(f"git -C /repo worktree remove --force {wt}")
        shutil.rmtree(wt, ignore_errors=True)
        shutil.rmtree(out, ignore_errors=True)
        rc, o = sh(f"git -C /repo worktree add --detach {wt} HEAD")
        try:
            path = os.path.join(wt, mu["file"])
            lines = open(path).read().split("\n")
            lines[mu["line"] - 1] = mu["new"]
            open(path, "w").write("\n".join(lines))
            env = dict(ENV, VERIF_REPO=wt, VERIF_OUT=out)
            res["outcome"] = "survived-all"
            for c in ALL:
                if c in saved:
                    continue
                rc, o = sh(f"{ROOT}/bin/check {c} quick", env=env, timeout=900)
                sigs = [l.strip()[len("signature: "):] for l in o.splitlines() if l.strip().startswith("signature: ")]
                res["checks"][c] = dict(exit=rc, signatures=sigs[:3])
                if rc != 0:
                    res["outcome"] = "killed"
                    res["killed_by"] = c if rc == 1 else c + "(inconclusive)"
                    break
        finally:
            sh(f"git -C /repo worktree remove --force {wt}")
            shutil.rmtree(wt, ignore_errors=True)
            shutil.rmtree(out, ignore_errors=True)
        return res

    with cf.ThreadPoolExecutor(max_workers=jobs) as ex, open(outp, "a") as fh:
        futs = [ex.submit(one, k, r) for k, r in enumerate(todo)]
        for fu in cf.as_completed(futs):
            r = fu.result()
            fh.write(json.dumps(r) + "\n")
            fh.flush()
            print(f"{r['outcome']:12s} {r['file']}:{r['line']} [{r['op']}] {r.get('killed_by', '')}  {r['old'][:70]}", flush=True)
    sh("git -C /repo worktree prune")
    return 0


def main():
    args = sys.argv[1:]
    if "--recheck" in args:
        j = 3
        if "--jobs" in args:
            j = int(args[args.index("--jobs") + 1])
        return recheck(j)
    if "--one" in args:
        # --one FILE:LINE[:op substring] [--checks C07,C08]: one mutant against the named checks (all of them by default)
        spec = args[args.index("--one") + 1].split(":", 2)
        checks = args[args.index("--checks") + 1].split(",") if "--checks" in args else ALL
        cs = [c for c in candidates(spec[0], open(os.path.join("/repo", spec[0])).read()) if c["line"] == int(spec[1]) and (len(spec) < 3 or spec[2] in c["op"])]
        os.makedirs("/tmp/vamut", exist_ok=True)
        for k, mu in enumerate(cs):
            FILES[mu["file"]] = checks
            r = run_one(900000 + os.getpid() * 10 + k, mu)
            print(json.dumps(r, indent=1))
        return 0
    jobs, per_file, seed, only, list_only = 4, 12, 1, None, False
    while args:
        a = args.pop(0)
        if a == "--jobs":
            jobs = int(args.pop(0))
        elif a == "--per-file":
            per_file = int(args.pop(0))
        elif a == "--seed":
            seed = int(args.pop(0))
        elif a == "--files":
            only = args.pop(0).split(",")
        elif a == "--list":
            list_only = True
    rnd = random.Random(seed)
    todo = []
    for f in FILES:
        if only and f not in only:
            continue
        text = open(os.path.join("/repo", f)).read()
        cs = candidates(f, text)
        rnd2 = random.Random(f"{seed}:{f}")
        rnd2.shuffle(cs)
        todo += cs[:per_file]
        print(f"{f}: {len(cs)} candidates, {min(per_file, len(cs))} drawn", flush=True)
    if list_only:
        for mu in todo:
            print(f"{mu['file']}:{mu['line']} [{mu['op']}] {mu['old'].strip()}  =>  {mu['new'].strip()}")
        return 0
    os.makedirs("/tmp/vamut", exist_ok=True)
    outp = os.path.join(ROOT, "selftest", "AUTOMUT.jsonl")
    base = int(time.time()) % 100000 * 1000
    counts = {}
    with cf.ThreadPoolExecutor(max_workers=jobs) as ex, open(outp, "a") as fh:
        futs = [ex.submit(run_one, base + i, mu) for i, mu in enumerate(todo)]
        for fu in cf.as_completed(futs):
            r = fu.result()
            r["seed"] = seed
            counts[r["outcome"]] = counts.get(r["outcome"], 0) + 1
            fh.write(json.dumps(r) + "\n")
            fh.flush()
            print(f"{r['outcome']:9s} {r['file']}:{r['line']} [{r['op']}] {r.get('killed_by', '')}  {r['old'][:70]}", flush=True)
    sh("git -C /repo worktree prune")
    try:
        os.rmdir("/tmp/vamut")
    except OSError:
        pass
    print("summary:", counts)
    return 0


sys.exit(main())
