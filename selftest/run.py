#!/usr/bin/env python3
"""Applies self-test mutants to scratch worktrees of /repo and runs the named checks on them.

usage: selftest/run.py [--baseline] [--jobs N] [--tier quick] [name-prefix ...]

For each mutant: git worktree of /repo HEAD under /tmp/vmut/<name>, one-hunk replacement,
(optionally) the repository's own test suite, then `bin/check <ID> <tier>` with VERIF_REPO and
VERIF_OUT pointing at scratch directories. Everything is removed afterwards. Results are
printed and appended to selftest/RESULTS.jsonl. Nothing in MANIFEST.json depends on this."""
import json, os, subprocess, sys, shutil, time, concurrent.futures as cf

ROOT = os.path.dirname(os.path.dirname(os.path.abspath(__file__)))
sys.path.insert(0, os.path.join(ROOT, "selftest"))
from mutants import M  # noqa

ENV = dict(os.environ, GOFLAGS="-mod=mod", GOPROXY="off")
ENV.pop("GOSUMDB", None)
ENV.pop("GOTOOLCHAIN", None)


def sh(cmd, cwd=None, env=None, timeout=3600):
    p = subprocess.run(cmd, shell=True, cwd=cwd, env=env or ENV, stdout=subprocess.PIPE, stderr=subprocess.STDOUT, timeout=timeout)
    return p.returncode, p.stdout.decode(errors="replace")


def run_mutant(mu, baseline, tier):
    name = mu["name"]
    wt = f"/tmp/vmut/{name}"
    out = f"/tmp/vmut/{name}-out"
    res = dict(name=name, checks={}, baseline=None, note=mu.get("note", ""))
    sh(f"git -C /repo worktree remove --force {wt}")
    shutil.rmtree(wt, ignore_errors=True)
    shutil.rmtree(out, ignore_errors=True)
    os.makedirs("/tmp/vmut", exist_ok=True)
    rc, o = sh(f"git -C /repo worktree add --detach {wt} HEAD")
    if rc != 0:
        res["error"] = "worktree: " + o[-300:]
        return res
    try:
        path = os.path.join(wt, mu["file"])
        src = open(path).read()
        if src.count(mu["old"]) != 1:
            res["error"] = f"pattern occurs {src.count(mu['old'])} times in {mu['file']}"
            return res
        open(path, "w").write(src.replace(mu["old"], mu["new"]))
        rc, o = sh("go build ./...", cwd=wt)
        if rc != 0:
            res["error"] = "does not compile: " + o[-400:]
            return res
        if baseline:
            rc, o = sh("go test -vet=off -count=1 -timeout 25m ./...", cwd=wt)
            res["baseline"] = "pass" if rc == 0 else "FAIL"
            if rc != 0:
                res["baseline_tail"] = o[-600:]
        env = dict(ENV, VERIF_REPO=wt, VERIF_OUT=out)
        for c in mu["checks"]:
            t0 = time.time()
            rc, o = sh(f"{ROOT}/bin/check {c} {mu.get('tier', tier)}", env=env, timeout=7200)
            viol = [l for l in o.splitlines() if l.startswith("VIOLATION")]
            sigs = [l.strip()[len("signature: "):] for l in o.splitlines() if l.strip().startswith("signature: ")]
            res["checks"][c] = dict(exit=rc, violations=len(viol), signatures=sigs[:6], secs=round(time.time() - t0, 1),
                                    tail="" if rc == 1 else o[-400:])
    finally:
        sh(f"git -C /repo worktree remove --force {wt}")
        shutil.rmtree(wt, ignore_errors=True)
        shutil.rmtree(out, ignore_errors=True)
        sh("git -C /repo worktree prune")
    return res


def main():
    args = sys.argv[1:]
    baseline = "--baseline" in args
    jobs, tier = 2, "quick"
    if "--jobs" in args:
        jobs = int(args[args.index("--jobs") + 1])
    if "--tier" in args:
        tier = args[args.index("--tier") + 1]
    pref = [a for i, a in enumerate(args) if not a.startswith("--") and (i == 0 or args[i - 1] not in ("--jobs", "--tier"))]
    todo = [mu for mu in M if not pref or any(mu["name"].startswith(p) for p in pref)]
    with cf.ThreadPoolExecutor(max_workers=jobs) as ex:
        for res in ex.map(lambda mu: run_mutant(mu, baseline, tier), todo):
            caught = [c for c, r in res["checks"].items() if r["exit"] == 1]
            status = "CAUGHT by " + ",".join(caught) if caught else "MISSED"
            if "error" in res:
                status = "ERROR " + res["error"]
            print(f"{res['name']:45s} baseline={res['baseline']} {status}", flush=True)
            for c, r in res["checks"].items():
                print(f"    {c}: exit={r['exit']} viol={r['violations']} {r['secs']}s {r['signatures'][:2]}", flush=True)
                if r["exit"] not in (0, 1):
                    print("      " + r["tail"].replace("\n", "\n      "))
            with open(os.path.join(ROOT, "selftest", "RESULTS.jsonl"), "a") as f:
                f.write(json.dumps(res) + "\n")


main()
