"""One-hunk mutants of onflow/crypto used to validate the sensitivity of the monitors.

Each mutant: name, file, old (must occur exactly once), new, checks expected to catch it,
and optionally tier ("quick" by default) and note."""

M = []


def m(name, file, old, new, checks, tier="quick", note=""):
    M.append(dict(name=name, file=file, old=old, new=new, checks=checks, tier=tier, note=note))


# ---- C01 -------------------------------------------------------------------------------------
m("C01-a-no-g1-check-in-verify", "bls_core.c",
  """  // check s is in G1
  if (!E1_in_G1(&s)) {
    return INVALID;
  }

  if (map_to_G1(&h, hash, hash_len) != VALID) {""",
  """  if (map_to_G1(&h, hash, hash_len) != VALID) {""", ["C01", "C16"])
m("C01-b-no-fp-check", "bls12381_utils.c",
  """  // compare read scalar to p
  if (!Fp_check(out)) {
    return BAD_VALUE;
  }
  return VALID;""",
  """  return VALID;""", ["C01", "C05"])
m("C01-c-no-identity-guard", "bls.go",
  """	// check for identity public key
	if pk.isIdentity {
		return false, nil
	}

	verif := C.bls_verify(""",
  """	verif := C.bls_verify(""", ["C01"])
m("C01-d-ignore-sign-bit", "bls12381_utils.c",
  """  if (Fp_get_sign(&a->y) != y_sign) {
    Fp_neg(&a->y, &a->y); // flip y sign if needed
  }""",
  """  if (Fp_get_sign(&a->y) != y_sign && (in[47] & 1)) {
    Fp_neg(&a->y, &a->y); // flip y sign if needed
  }""", ["C01", "C05", "C04"])
# ---- C02 -------------------------------------------------------------------------------------
m("C02-a-index-offset", "bls_core.c",
  """      data_offset += len_hashes[index_offset];
      index_offset++;""",
  """      if (j > 0 || hashes_per_pk[i - 1] < 3) data_offset += len_hashes[index_offset];
      index_offset++;""", ["C02"], note="data offset not advanced for the first hash of a key that signs >= 3 messages")
m("C02-b-hasher0-for-all", "bls_multisig.go",
  """		hashes = append(hashes, k.ComputeHash(messages[i]))""",
  """		hashes = append(hashes, kmac[0].ComputeHash(messages[i]))""", ["C02"])
m("C02-c-no-identity-test", "bls_multisig.go",
  """		// check identity check
		if pkBLS.isIdentity {
			return false, nil
		}

		mapPerHash""",
  """		mapPerHash""", ["C02"])
m("C02-d-no-g1-check-per-message", "bls_core.c",
  """  // check signature is in G1
  if (!E1_in_G1(&elemsG1[0])) {
    ret = INVALID;
    goto out;
  }""",
  """  """, ["C02"])
# ---- C03 -------------------------------------------------------------------------------------
m("C03-a-coefficient-one", "bls_core.c",
  """      limbs_from_be_bytes((limb_t *)&r, seed + (seed_len * i),
                          seed_len); // faster shortcut than Fr_map_bytes""",
  """      (void)seed_len;""", ["C03"])
m("C03-b-wrong-split", "bls_core.c",
  """  int right_len = len / 2;
  int left_len = len - right_len;
  bls_batch_verify_tree(root->left, left_len, &results[0], h);""",
  """  int left_len = len / 2;
  int right_len = len - left_len;
  bls_batch_verify_tree(root->left, left_len, &results[0], h);""", ["C03"])
m("C03-c-identity-substitution-dropped", "bls_multisig.go",
  """		if len(sigs[i]) != SignatureLenBLSBLS12381 || pkBLS.isIdentity {""",
  """		if len(sigs[i]) != SignatureLenBLSBLS12381 {""", ["C03"])
m("C03-d-shared-coefficient", "bls_core.c",
  """      limbs_from_be_bytes((limb_t *)&r, seed + (seed_len * i),""",
  """      limbs_from_be_bytes((limb_t *)&r, seed + (seed_len * 0),""", ["C03"])
# ---- C04 -------------------------------------------------------------------------------------
m("C04-a-fr-sum-from-1", "bls12381_utils.c",
  """  Fr_set_zero(jointx);
  for (int i = 0; i < x_len; i++) {""",
  """  Fr_set_zero(jointx);
  for (int i = (x_len > 5 ? 1 : 0); i < x_len; i++) {""", ["C04", "C12"])
m("C04-b-subtract-all-but-last", "bls12381_utils.c",
  """  E2_sum_vector(res, y, y_len);
  E2_neg(res, res);""",
  """  E2_sum_vector(res, y, y_len > 3 ? y_len - 1 : y_len);
  E2_neg(res, res);""", ["C04"])
# ---- C05 -------------------------------------------------------------------------------------
m("C05-a-infinity-last-byte", "bls12381_utils.c",
  """    for (int i = 1; i < G1_SER_BYTES; i++) {""",
  """    for (int i = 1; i < G1_SER_BYTES - 1; i++) {""", ["C05", "C02"], note="the repaired defect F2, reverted")
m("C05-b-no-g2-check-in-decode", "bls.go",
  """	if !bool(C.E2_in_G2((*C.E2)(&pk.point))) {""",
  """	if false && !bool(C.E2_in_G2((*C.E2)(&pk.point))) {""", ["C05"])
m("C05-c-ecdsa-raw-no-range", "ecdsa.go",
  """	if x.Cmp(p) >= 0 || y.Cmp(p) >= 0 {""",
  """	if x.Cmp(p) >= 0 {""", ["C05"])
# ---- C06 -------------------------------------------------------------------------------------
m("C06-a-sign-tracking", "bls_thresholdsign_core.c",
  """        sign ^= 1;
        limb_denominator *= indices[i] - indices[j];""",
  """        if (j < 8) sign ^= 1;
        limb_denominator *= indices[i] - indices[j];""", ["C06"])
m("C06-b-loops-9", "bls_thresholdsign_core.c",
  """  const int loops = 64 / MAX_IND_BITS;""",
  """  const int loops = 64 / MAX_IND_BITS + 1;""", ["C06"])
m("C06-c-no-post-verification", "bls_thresholdsign.go",
  """	if !verif {
		return nil, invalidInputsErrorf(
			"constructed threshold signature does not verify against the group public key, check shares and public key")
	}""",
  """	_ = verif""", ["C06", "C18"])
m("C06-d-no-duplicate-check", "bls_thresholdsign.go",
  """		if _, isSeen := m[index(signers[i])]; isSeen {""",
  """		if _, isSeen := m[index(signers[i])]; isSeen && i < 2 {""", ["C06"])
# ---- C07 / C08 -------------------------------------------------------------------------------
m("C07-a-complaint-threshold-ge", "dkg_feldmanvssq.go",
  """	if len(s.complaints) > s.threshold {""",
  """	if len(s.complaints) >= s.threshold+2 {""", ["C08"])
m("C07-b-corrected-share-not-adopted", "dkg_feldmanvssq.go",
  """		if !s.disqualified && complainer == s.myIndex {
			s.x = c.answer
		}""",
  """		""", ["C07"])
m("C07-c-jf-sums-disqualified", "dkg_jointfeldman.go",
  """		if !s.fvss[i].disqualified {
			qualifiedx = append(qualifiedx, s.fvss[i].x)""",
  """		if !s.fvss[i].disqualified || i == 0 {
			qualifiedx = append(qualifiedx, s.fvss[i].x)""", ["C07"])
m("C08-a-double-complaint", "dkg_feldmanvssq.go",
  """	if c, ok := s.complaints[s.myIndex]; ok && c.received {
		return
	}
	var logMsg string""",
  """	var logMsg string""", ["C08"], note="the repaired defect F11, reverted")
m("C08-b-duplicate-vector-acted-upon", "dkg_feldmanvssq.go",
  """	if s.vAReceived {
		s.processor.FlagMisbehavior(int(origin),
			"verification received was already received")
		return
	}""",
  """	if s.vAReceived && s.xReceived {
		s.processor.FlagMisbehavior(int(origin),
			"verification received was already received")
		return
	}""", ["C07", "C08"])
m("C08-c-plain-vss-missing-return", "dkg_feldmanvss.go",
  """			fmt.Sprintf("reading the verification vector failed: %s", err))
		return
	}

	s.y = make([]pointE2, s.size)""",
  """			fmt.Sprintf("reading the verification vector failed: %s", err))
	}

	s.y = make([]pointE2, s.size)""", ["C08"], note="the repaired defect F8, reverted")
m("C07-d-early-answer-overwritten", "dkg_feldmanvssq.go",
  """	if answeredEarly {""",
  """	if answeredEarly && false {""", ["C07", "C08"], note="the repaired defect F12, reverted (entry overwritten)")
# ---- C09 -------------------------------------------------------------------------------------
m("C09-a-no-length-check-verify", "bls.go",
  """	if len(s) != SignatureLenBLSBLS12381 {
		return false, nil
	}

	// hash the input to 128 bytes""",
  """	// hash the input to 128 bytes""", ["C09"])
m("C09-b-no-length-check-spock", "spock.go",
  """	if len(proof1) != g1BytesLen || len(proof2) != g1BytesLen {
		return false, nil
	}""",
  """	if len(proof1) == 0 || len(proof2) == 0 {
		return false, nil
	}""", ["C09", "C17"])
m("C09-c-aggregate-no-length-check", "bls_multisig.go",
  """		if len(sig) != SignatureLenBLSBLS12381 {
			return nil, fmt.Errorf("signature at index %d has an invalid length: %w", i, errInvalidSignature)
		}""",
  """		if len(sig) > SignatureLenBLSBLS12381 {
			return nil, fmt.Errorf("signature at index %d has an invalid length: %w", i, errInvalidSignature)
		}""", ["C09", "C05"])
# ---- C10 -------------------------------------------------------------------------------------
m("C10-a-third-timeout-accepted", "dkg_feldmanvssq.go",
  """	if s.complaintsTimeout {
		return dkgInvalidStateTransitionErrorf("the next timeout should be to end DKG protocol")
	}""",
  """	""", ["C10"])
m("C10-b-handler-after-end", "dkg_feldmanvssq.go",
  """func (s *feldmanVSSQualState) HandlePrivateMsg(orig int, msg []byte) error {
	if !s.running {
		return dkgInvalidStateTransitionErrorf("dkg is not running")
	}""",
  """func (s *feldmanVSSQualState) HandlePrivateMsg(orig int, msg []byte) error {
	if !s.running && !s.complaintsTimeout {
		return dkgInvalidStateTransitionErrorf("dkg is not running")
	}""", ["C10"])
m("C10-c-rejected-end-flips-state", "dkg_feldmanvssq.go",
  """	if !s.sharesTimeout || !s.complaintsTimeout {
		return nil, nil, nil,
			dkgInvalidStateTransitionErrorf("%d: two timeouts should be set before ending dkg", s.myIndex)
	}
	s.running = false""",
  """	if !s.sharesTimeout || !s.complaintsTimeout {
		s.sharesTimeout = true
		return nil, nil, nil,
			dkgInvalidStateTransitionErrorf("%d: two timeouts should be set before ending dkg", s.myIndex)
	}
	s.running = false""", ["C10"])
# ---- C11 -------------------------------------------------------------------------------------
m("C11-a-s-parse-offset", "ecdsa.go",
  """	r.SetBytes(sig[:nLen])
	s.SetBytes(sig[nLen:])
	return ecdsa.Verify(pk.goPubKey, h, &r, &s), nil""",
  """	r.SetBytes(sig[:nLen])
	s.SetBytes(sig[nLen-1:])
	return ecdsa.Verify(pk.goPubKey, h, &r, &s), nil""", ["C11"])
m("C11-b-format-check-no-upper-bound", "ecdsa.go",
  """	if r.Cmp(N) >= 0 || s.Cmp(N) >= 0 {
		return false
	}""",
  """	if r.Cmp(N) >= 0 {
		return false
	}""", ["C11"])
m("C11-c-digest-truncated-right", "ecdsa.go",
  """	h := alg.ComputeHash(data)
	return pk.verifyHash(sig, h)""",
  """	h := alg.ComputeHash(data)
	if len(h) > 64 {
		h = h[len(h)-32:]
	}
	return pk.verifyHash(sig, h)""", ["C11"])
# ---- C12 -------------------------------------------------------------------------------------
m("C12-a-okm-length-long-seeds", "bls.go",
  """	okmLength := (3 * frBytesLen) / 2
""",
  """	okmLength := (3 * frBytesLen) / 2
	if len(ikm) > 200 {
		okmLength++
	}
""", ["C12"])
m("C12-b-ecdsa-no-plus-one", "ecdsa.go",
  """	d.Mod(d, n)
	d.Add(d, one)""",
  """	d.Mod(d, n)
	if d.Sign() == 0 {
		d.Add(d, one)
	}""", ["C12"])
# ---- C13 -------------------------------------------------------------------------------------
m("C13-a-bufsize-gt-rate", "hash/keccak.go",
  """			if d.bufSize == d.rate {
				d.permute()
			}""",
  """			if d.bufSize >= d.rate && len(p) > 0 {
				d.permute()
			}""", ["C13"])
m("C13-b-fast-path-condition", "hash/keccak.go",
  """		if d.bufSize == 0 && len(p) >= d.rate {""",
  """		if d.bufSize <= 1 && len(p) >= d.rate {""", ["C13"], note="fast full-block path taken with one byte pending in the buffer")
m("C13-c-bytepad", "hash/kmac.go",
  """	padlen := (w - (len(buf) % w)) % w""",
  """	padlen := w - (len(buf) % w)""", ["C13"], note="the repaired defect F3, reverted")
m("C13-d-no-clone-computehash", "hash/kmac.go",
  """	cshake := k.ShakeHash.Clone()
	cshake.Reset()
	_, _ = cshake.Write(k.initBlock)
	_, _ = cshake.Write(data)""",
  """	cshake := k.ShakeHash
	cshake.Reset()
	_, _ = cshake.Write(k.initBlock)
	_, _ = cshake.Write(data)""", ["C19", "C13"])
m("C13-e-reset-keeps-buffer", "hash/keccak.go",
  """	for i := range d.a {
		d.a[i] = 0
	}
	d.setBuf(0, 0)
}""",
  """	for i := range d.a {
		d.a[i] = 0
	}
	if d.bufSize > 100 {
		return
	}
	d.setBuf(0, 0)
}""", ["C13"])
# ---- C14 -------------------------------------------------------------------------------------
m("C14-a-small-path-boundary", "random/chacha20.go",
  """		for i := range buffer {
			buffer[i] = 0
		}
		message = buffer""",
  """		for i := range buffer[:len(buffer)-1] {
			buffer[i] = 0
		}
		message = buffer""", ["C14"])
m("C14-b-restore-remaining-plus-one", "random/chacha20.go",
  """	remainderStream := make([]byte, remainingBytes)""",
  """	remainderStream := make([]byte, remainingBytes+remainingBytes/63)""", ["C14"])
m("C14-c-counter-not-advanced-large", "random/chacha20.go",
  """	c.bytesCounter += uint64(len(buffer))""",
  """	if len(buffer) <= 128 {
		c.bytesCounter += uint64(len(buffer))
	}""", ["C14"])
# ---- C15 -------------------------------------------------------------------------------------
m("C15-a-modulo", "random/rand.go",
  """		random &= mask // adjust to the size of max in bits
	}""",
  """		random &= mask // adjust to the size of max in bits
		if n > 1000 {
			random %= n
		}
	}""", ["C15"])
m("C15-b-permutation-bound", "random/rand.go",
  """		j := p.UintN(uint64(i + 1))
		items[i] = items[j]""",
  """		j := p.UintN(uint64(i + 1))
		if i == 5 {
			j = p.UintN(uint64(i))
		}
		items[i] = items[j]""", ["C15"])
m("C15-c-swap-offset", "random/rand.go",
  """		swap(i, i+int(j))""",
  """		swap(i, int(j))""", ["C15"])
m("C15-d-wide-mask", "random/rand.go",
  """	for max&mask != max {
		mask = (mask << 1) | 1
	}""",
  """	for max&mask != max {
		mask = (mask << 1) | 1
	}
	if size == 2 && max > 40000 {
		mask = (mask << 8) | 0xff
	}""", ["C15"])
# ---- C16 -------------------------------------------------------------------------------------
m("C16-a-pop-hasher-sig-suite", "bls_multisig.go",
  """var popKMAC = internalExpandMsgXOFKMAC128(blsPOPCipherSuite)""",
  """var popKMAC = internalExpandMsgXOFKMAC128("" + blsSigCipherSuite)""", ["C16"])
# ---- C17 -------------------------------------------------------------------------------------
m("C17-a-second-g1-check", "bls_core.c",
  """  // check s2 is in G1
  if (!E1_in_G1(&elemsG1[1])) {
    return INVALID;
  }""",
  """  """, ["C17"])
m("C17-b-identity-guard-one-side", "spock.go",
  """	if blsPk1.isIdentity || blsPk2.isIdentity {""",
  """	if blsPk1.isIdentity {""", ["C17"])
# ---- C18 -------------------------------------------------------------------------------------
m("C18-a-enough-before-lock", "bls_thresholdsign.go",
  """	s.lock.Lock()
	defer s.lock.Unlock()

	if s.hasShare(index(orig)) {
		return false, duplicatedSignerErrorf("share for %d was already added", orig)
	}

	if s.enoughShares() {
		return true, nil
	}
	s.shares[index(orig)] = share""",
  """	s.lock.RLock()
	enough := s.enoughShares()
	s.lock.RUnlock()

	s.lock.Lock()
	defer s.lock.Unlock()

	if s.hasShare(index(orig)) {
		return false, duplicatedSignerErrorf("share for %d was already added", orig)
	}

	if enough {
		return true, nil
	}
	s.shares[index(orig)] = share""", ["C18"])
m("C18-b-rlock-in-verify-and-add", "bls_thresholdsign.go",
  """	s.lock.Lock()
	defer s.lock.Unlock()

	// check share is new""",
  """	s.lock.RLock()
	defer s.lock.RUnlock()

	// check share is new""", ["C18"])
m("C18-c-hasshare-no-lock", "bls_thresholdsign.go",
  """	s.lock.RLock()
	defer s.lock.RUnlock()

	return s.hasShare(index(orig)), nil""",
  """	return s.hasShare(index(orig)), nil""", ["C18"])
# ---- C20 -------------------------------------------------------------------------------------
m("C20-b-xor-generic", "hash/xor_generic.go",
  """	n := len(buf) / 8

	for i := range n {""",
  """	n := len(buf) / 8
	if n == 13 {
		n = 12
	}

	for i := range n {""", ["C20", "C13"], note="purego-only code path (sha3-384 rate = 104 bytes = 13 lanes)")
