package checks

import (
	"bytes"
	"fmt"
	"math/big"
	"math/rand/v2"
	"sync"

	"github.com/onflow/crypto"
	"github.com/onflow/crypto/hash"

	"verif/harness/mon"
	"verif/harness/ref"
)

type ecAlg struct {
	alg crypto.SigningAlgorithm
	c   *ref.ECCurve
	n   string
}

var ecAlgs = []ecAlg{{crypto.ECDSAP256, ref.P256, "p256"}, {crypto.ECDSASecp256k1, ref.Secp256k1, "secp256k1"}}

func c11Hashers() []namedHasher {
	kmac := func(sz int) namedHasher {
		return namedHasher{fmt.Sprintf("kmac128-%d", sz), func() hash.Hasher {
			h, err := hash.NewKMAC_128([]byte("0123456789abcdef"), []byte("c11"), sz)
			if err != nil {
				panic(err)
			}
			return h
		}}
	}
	return []namedHasher{
		{"sha2-256", hash.NewSHA2_256}, {"sha2-384", hash.NewSHA2_384}, {"sha3-256", hash.NewSHA3_256}, {"sha3-384", hash.NewSHA3_384},
		{"keccak-256", hash.NewKeccak_256}, kmac(32), kmac(48), kmac(64), kmac(128),
		{"const00-32", func() hash.Hasher { return constHasher("z", 0, 32) }},
		{"constFF-32", func() hash.Hasher { return constHasher("f", 0xff, 32) }},
		{"constFF-64", func() hash.Hasher { return constHasher("f", 0xff, 64) }},
		{"ctr-40", func() hash.Hasher { return ctrHasher("ctr40", false, 40) }},
		// long digests with leading zero bytes (truncation must count bytes, not integer size)
		{"lead0-48", func() hash.Hasher { return leadZeroHasher("lz48", 1, 48) }},
		{"lead00-64", func() hash.Hasher { return leadZeroHasher("lz64", 2, 64) }},
		{"lead0-32", func() hash.Hasher { return leadZeroHasher("lz32", 1, 32) }},
		{"lead0000-128", func() hash.Hasher { return leadZeroHasher("lz128", 4, 128) }},
	}
}

// leadZeroHasher is a counter-mode hasher whose digest starts with z zero bytes.
func leadZeroHasher(name string, z, size int) hash.Hasher {
	inner := ctrHasher(name, false, size).(*fixedHasher)
	return &fixedHasher{name: name, size: size, f: func(d []byte, n int) []byte {
		out := inner.f(d, n)
		for i := 0; i < z && i < len(out); i++ {
			out[i] = 0
		}
		return out
	}}
}

func ecSigBytes(r, s *big.Int) []byte {
	out := make([]byte, 64)
	new(big.Int).Mod(r, new(big.Int).Lsh(big.NewInt(1), 256)).FillBytes(out[:32])
	new(big.Int).Mod(s, new(big.Int).Lsh(big.NewInt(1), 256)).FillBytes(out[32:])
	return out
}

// c11Expect is the reference verdict for (sig bytes, digest, public point).
func c11Expect(c *ref.ECCurve, q ref.Pt[*big.Int], digest, sig []byte) bool {
	if len(sig) != 64 {
		return false
	}
	r := new(big.Int).SetBytes(sig[:32])
	s := new(big.Int).SetBytes(sig[32:])
	return c.Verify(q, digest, r, s)
}

// C11: ECDSA exactness.
func C11(run *mon.Run) {
	run.Rule = "base signatures (curve x hasher x key kind; library-made and reference-crafted with chosen nonces) x mutation classes {twin, r/s boundary values, all 512 bit flips, swap, lengths 0..130, other message/key/curve}; shape = (curve, hasher, mutation class, reference verdict)"
	run.Assumptions = []string{"reference ECDSA verification in math/big (self-tested against crypto/ecdsa on P-256 and by own sign/verify with chosen nonces on both curves)", "digest taken from the hasher object's ComputeHash (hash correctness itself is C13)"}
	hashers := c11Hashers()
	nBase := run.Pick(60, 2000)
	var wg sync.WaitGroup
	sem := make(chan struct{}, 16)
	for bi := 0; bi < nBase; bi++ {
		if bi > 0 && bi <= soloWorkers {
			wg.Wait() // the first workers run alone (see soloWorkers)
		}
		wg.Add(1)
		sem <- struct{}{}
		go func(bi int) {
			defer wg.Done()
			defer func() { <-sem }()
			defer run.Protect("c11 worker")
			r := run.Rand(fmt.Sprintf("base-%d", bi))
			a := ecAlgs[bi%2]
			nh := hashers[(bi/2)%len(hashers)]
			h := nh.mk()
			// key kinds
			var d *big.Int
			keyKind := [...]string{"random", "one", "n-1", "leading-zero", "random", "small"}[(bi/26)%6]
			switch keyKind {
			case "one":
				d = big.NewInt(1)
			case "n-1":
				d = new(big.Int).Sub(a.c.N, big.NewInt(1))
			case "leading-zero":
				d = new(big.Int).SetBytes(mon.RandBytes(r, 30))
				if d.Sign() == 0 {
					d = big.NewInt(5)
				}
			case "small":
				d = big.NewInt(int64(2 + r.IntN(1000)))
			default:
				d = new(big.Int).Mod(new(big.Int).SetBytes(mon.RandBytes(r, 40)), a.c.N)
				if d.Sign() == 0 {
					d = big.NewInt(3)
				}
			}
			sk, err := crypto.DecodePrivateKey(a.alg, d.FillBytes(make([]byte, 32)))
			if err != nil {
				run.Violate("C11:decode-key", err.Error(), nil)
				return
			}
			pk := sk.PublicKey()
			q := a.c.Pub(d)
			msg := mon.RandBytes(r, r.IntN(200))
			digest := h.ComputeHash(msg)
			ctx := fmt.Sprintf("%s/%s/key=%s", a.n, nh.name, keyKind)
			rep := func(sig []byte, kind string) map[string]any {
				return map[string]any{"curve": a.n, "hasher": nh.name, "d": d.Text(16), "msg": mon.Hex(msg), "digest": mon.Hex(digest), "sig": mon.Hex(sig), "kind": kind}
			}
			judge := func(kind string, usePk crypto.PublicKey, useQ ref.Pt[*big.Int], useC *ref.ECCurve, m []byte, dg []byte, sig []byte) {
				expect := c11Expect(useC, useQ, dg, sig)
				var ok bool
				var err error
				if run.Guard("ecdsa.Verify", rep(sig, kind), func() { ok, err = usePk.Verify(sig, m, h) }) {
					return
				}
				run.Eval(1)
				run.Count("mut."+kind, 1)
				if expect {
					run.Count("reference-true", 1)
				}
				if err != nil {
					run.Violate("C11:verify-error:"+kind, fmt.Sprintf("Verify error %v (%s)", err, ctx), rep(sig, kind))
				} else if ok != expect {
					run.Violate(fmt.Sprintf("C11:verdict:%s:%s:expected-%v", a.n, kind, expect), fmt.Sprintf("Verify = %v, reference ECDSA = %v (%s, mutation %s)", ok, expect, ctx, kind), rep(sig, kind))
				}
				// SignatureFormatCheck false => Verify false
				fc, ferr := crypto.SignatureFormatCheck(usePk.Algorithm(), sig)
				if ferr != nil {
					run.Violate("C11:format-check-error", ferr.Error(), rep(sig, kind))
				} else {
					wantFc := len(sig) == 64 && inRangeN(useC, sig[:32]) && inRangeN(useC, sig[32:])
					if fc != wantFc {
						run.Violate("C11:format-check:"+kind, fmt.Sprintf("SignatureFormatCheck = %v, 1 <= r,s < n is %v", fc, wantFc), rep(sig, kind))
					}
					if !fc && ok {
						run.Violate("C11:format-false-verify-true:"+kind, "SignatureFormatCheck false but Verify true", rep(sig, kind))
					}
				}
				run.Shape(fmt.Sprintf("%s|%s|%s|%v", a.n, nh.name, kind, expect))
			}
			// base signatures: one from the library, one crafted by the reference
			var libSig crypto.Signature
			if run.Guard("ecdsa.Sign", ctx, func() { libSig, err = sk.Sign(msg, h) }) {
				return
			}
			run.Eval(1)
			if err != nil || len(libSig) != 64 {
				run.Violate("C11:sign-error", fmt.Sprintf("Sign error %v len %d (%s)", err, len(libSig), ctx), rep(libSig, "sign"))
				return
			}
			if !c11Expect(a.c, q, digest, libSig) {
				run.Violate("C11:sign-output-rejected-by-reference:"+a.n, fmt.Sprintf("signature returned by Sign does not satisfy the ECDSA equation (%s)", ctx), rep(libSig, "sign"))
			}
			// the FIRST verifications under this key object: the valid signature, mutations of it and the
			// valid signature again, all read into one buffer that the caller overwrites between calls
			{
				twin := ecSigBytes(new(big.Int).SetBytes(libSig[:32]), new(big.Int).Sub(a.c.N, new(big.Int).SetBytes(libSig[32:])))
				bc := []byteCand{{twin, "twin"}, {flipBit(libSig, 5), "bitflip"}, {flipBit(libSig, 300), "bitflip"}, {libSig[:63], "length"}, {make([]byte, 64), "zeros"}, {append(append([]byte{}, libSig[32:]...), libSig[:32]...), "swap"}, {flipBit(libSig, 511), "bitflip"}, {derSig(libSig), "der"}}
				n := reusedBufferPass(libSig, bc, func(sg []byte) (bool, error) { return pk.Verify(sg, msg, h) },
					func(b []byte) bool { return c11Expect(a.c, q, digest, b) },
					func(kind, what string, b []byte) {
						run.Violate("C11:reused-buffer:"+kind, fmt.Sprintf("ECDSA Verify, candidate kind %s, %s (%s)", kind, what, ctx), rep(b, kind))
					})
				run.Eval(n)
			}
			// arguments sharing memory with other caller data
			{
				ms := withSpare(msg)
				s2, e2 := sk.Sign(ms, h)
				run.Eval(1)
				if e2 != nil || !spareIntact(ms, msg) || !c11Expect(a.c, q, digest, s2) {
					run.Violate("C11:sign-touches-caller-memory", fmt.Sprintf("Sign of a message slice with spare capacity: err %v, caller memory intact=%v (%s)", e2, spareIntact(ms, msg), ctx), rep(s2, "spare"))
				}
				for order := 0; order < 2; order++ {
					var ma, sa []byte
					if order == 0 {
						ma, sa = adjacent(msg, libSig)
					} else {
						sa, ma = adjacent(libSig, msg)
					}
					ok, e3 := pk.Verify(sa, ma, h)
					run.Eval(1)
					if e3 != nil || !ok || !bytes.Equal(ma, msg) || !bytes.Equal(sa, libSig) {
						run.Violate("C11:verify-adjacent-buffers", fmt.Sprintf("Verify with message and signature adjacent in one buffer (order %d): (%v,%v) (%s)", order, ok, e3, ctx), rep(libSig, "adjacent"))
					}
				}
			}
			bases := [][]byte{libSig}
			for tries := 0; tries < 200; tries++ {
				k := new(big.Int).Mod(new(big.Int).SetBytes(mon.RandBytes(r, 40)), a.c.N)
				if k.Sign() == 0 {
					continue
				}
				rr, ss, ok := a.c.SignWithNonce(d, digest, k)
				if !ok {
					continue
				}
				b := ecSigBytes(rr, ss)
				// prefer crafted signatures with a leading zero byte in r or s every few bases
				if bi%5 == 0 && b[0] != 0 && b[32] != 0 && tries < 150 {
					continue
				}
				bases = append(bases, b)
				break
			}
			other := ecAlgs[(bi+1)%2]
			otherSk, _ := crypto.DecodePrivateKey(other.alg, d.FillBytes(make([]byte, 32)))
			d2 := new(big.Int).Add(d, big.NewInt(1))
			if d2.Cmp(a.c.N) >= 0 {
				d2 = big.NewInt(2)
			}
			sk2, _ := crypto.DecodePrivateKey(a.alg, d2.FillBytes(make([]byte, 32)))
			msg2 := append(append([]byte{}, msg...), 0x01)
			digest2 := h.ComputeHash(msg2)
			two256m1 := new(big.Int).Sub(new(big.Int).Lsh(big.NewInt(1), 256), big.NewInt(1))
			for bsi, base := range bases {
				R := new(big.Int).SetBytes(base[:32])
				S := new(big.Int).SetBytes(base[32:])
				judge("base", pk, q, a.c, msg, digest, base)
				judge("twin", pk, q, a.c, msg, digest, ecSigBytes(R, new(big.Int).Sub(a.c.N, S)))
				for _, v := range []*big.Int{big.NewInt(0), a.c.N, new(big.Int).Add(a.c.N, big.NewInt(1)), two256m1, new(big.Int).Add(R, a.c.N), new(big.Int).Add(S, a.c.N)} {
					if v.BitLen() > 256 {
						continue
					}
					judge("r-boundary", pk, q, a.c, msg, digest, ecSigBytes(v, S))
					judge("s-boundary", pk, q, a.c, msg, digest, ecSigBytes(R, v))
				}
				judge("swap", pk, q, a.c, msg, digest, ecSigBytes(S, R))
				judge("other-message", pk, q, a.c, msg2, digest2, base)
				if sk2 != nil {
					judge("other-key", sk2.PublicKey(), a.c.Pub(d2), a.c, msg, digest, base)
				}
				if otherSk != nil {
					judge("other-curve", otherSk.PublicKey(), other.c.Pub(d), other.c, msg, digest, base)
				}
				nflips := 16
				if bi < run.Pick(8, 40) && bsi == 0 {
					nflips = 512
				}
				for f := 0; f < nflips; f++ {
					bit := f
					if nflips != 512 {
						bit = r.IntN(512)
					}
					judge("bitflip", pk, q, a.c, msg, digest, flipBit(base, bit))
				}
				lens := []int{0, 1, 31, 32, 33, 63, 65, 96, 128, 130}
				if bi < run.Pick(4, 20) {
					lens = nil
					for l := 0; l <= 130; l++ {
						if l != 64 {
							lens = append(lens, l)
						}
					}
				}
				for _, l := range lens {
					b := make([]byte, l)
					copy(b, base)
					judge("length", pk, q, a.c, msg, digest, b)
				}
				judge("length", pk, q, a.c, msg, digest, nil)
				// the valid signature with one or two bytes inserted (at every position for 0x00; r||pad||s
				// for several pads), with a byte removed, and its ASN.1 DER form: none is r||s of 64 bytes
				for pos := 0; pos <= 64; pos++ {
					b := append(append(append([]byte{}, base[:pos]...), 0), base[pos:]...)
					judge("insert-zero", pk, q, a.c, msg, digest, b)
				}
				for _, pad := range [][]byte{{0, 0}, {0xff}, {0, 0, 0, 0}, make([]byte, 32), make([]byte, 64)} {
					judge("insert-pad", pk, q, a.c, msg, digest, append(append(append([]byte{}, base[:32]...), pad...), base[32:]...))
					judge("insert-pad", pk, q, a.c, msg, digest, append(append([]byte{}, pad...), base...))
					judge("insert-pad", pk, q, a.c, msg, digest, append(append([]byte{}, base...), pad...))
				}
				for _, pos := range []int{0, 31, 32, 63} {
					judge("remove-byte", pk, q, a.c, msg, digest, append(append([]byte{}, base[:pos]...), base[pos+1:]...))
				}
				judge("der", pk, q, a.c, msg, digest, derSig(base))
			}
			// crafted key for which a signature with a tiny s exists: pick k and s', solve for d.
			// Then r||s' verifies and r||(s'+n) (which fits in 32 bytes) must not.
			nm := func(d *big.Int) *big.Int { return new(big.Int).Sub(a.c.N, d) }
			craftS := func(sp *big.Int, kind string) {
				if sp.Sign() <= 0 || sp.Cmp(a.c.N) >= 0 {
					return
				}
				k := new(big.Int).Mod(new(big.Int).SetBytes(mon.RandBytes(r, 40)), a.c.N)
				if k.Sign() == 0 {
					return
				}
				kg := a.c.C.Mul(a.c.G, k)
				rr := new(big.Int).Mod(kg.X, a.c.N)
				if rr.Sign() == 0 {
					return
				}
				e := a.c.HashToInt(digest)
				dd := new(big.Int).Mul(sp, k)
				dd.Sub(dd, e)
				dd.Mul(dd, new(big.Int).ModInverse(rr, a.c.N))
				dd.Mod(dd, a.c.N)
				if dd.Sign() == 0 {
					return
				}
				csk, err := crypto.DecodePrivateKey(a.alg, dd.FillBytes(make([]byte, 32)))
				if err != nil {
					return
				}
				cq := a.c.Pub(dd)
				judge(kind, csk.PublicKey(), cq, a.c, msg, digest, ecSigBytes(rr, sp))
				if over := new(big.Int).Add(sp, a.c.N); over.BitLen() <= 256 {
					judge(kind+"-plus-n", csk.PublicKey(), cq, a.c, msg, digest, ecSigBytes(rr, over))
				}
				judge(kind+"-twin", csk.PublicKey(), cq, a.c, msg, digest, ecSigBytes(rr, new(big.Int).Sub(a.c.N, sp)))
				// the same shape as r: swap the roles (r' = s-shaped is not constructible in general; but the
				// twin and the pair (r, s) exchanged are further strings the format check and Verify must agree on)
				judge(kind+"-swapped", csk.PublicKey(), cq, a.c, msg, digest, ecSigBytes(sp, rr))
			}
			for _, sp := range []*big.Int{big.NewInt(1), big.NewInt(2), new(big.Int).Lsh(big.NewInt(1), 64), new(big.Int).SetBytes(mon.RandBytes(r, 12)), new(big.Int).Sub(new(big.Int).Sub(new(big.Int).Lsh(big.NewInt(1), 256), a.c.N), big.NewInt(1)),
				// s just below the group order (and below it by 2^200, 2^223: between the orders of the two curves)
				nm(big.NewInt(1)), nm(big.NewInt(2)), nm(new(big.Int).Lsh(big.NewInt(1), 200)), nm(new(big.Int).Lsh(big.NewInt(1), 223)), nm(new(big.Int).SetBytes(mon.RandBytes(r, 20)))} {
				craftS(sp, "small-s")
			}
			// ... and for s of every byte shape (leading zero bytes followed by runs of 0xff, 2^k-1, 2^k, n-2^k):
			// a comparison done on trimmed or left-aligned bytes instead of on the number shows
			{
				var shaped []*big.Int
				for z := 1; z <= 5; z++ {
					for _, ff := range []int{1, 4, 8, 15, 31 - z} {
						b := mon.RandBytes(r, 32)
						for i := 0; i < z; i++ {
							b[i] = 0
						}
						for i := z; i < z+ff && i < 32; i++ {
							b[i] = 0xff
						}
						shaped = append(shaped, new(big.Int).SetBytes(b))
					}
				}
				for _, kb := range []uint{8, 16, 32, 64, 96, 128, 160, 192, 224, 240, 247, 248, 249, 255} {
					p2 := new(big.Int).Lsh(big.NewInt(1), kb)
					shaped = append(shaped, p2, new(big.Int).Sub(p2, big.NewInt(1)), nm(p2))
				}
				for i, sp := range shaped {
					if run.Quick() && (i+bi)%3 != 0 {
						continue
					}
					craftS(sp, "shaped-s")
				}
			}
			if bi < 3 {
				run.Sample(map[string]any{"curve": a.n, "hasher": nh.name, "key": keyKind, "sig": mon.Hex(libSig)})
			}
			run.Count("bases", 1)
		}(bi)
	}
	wg.Wait()
	c11SignVolume(run)
	c11HasherErrors(run, run.Rand("errors"))
	run.Require(run.Counter("reference-true") >= 100, "fewer than 100 reference-true verifications")
	for _, k := range []string{"base", "twin", "r-boundary", "s-boundary", "swap", "other-message", "other-key", "other-curve", "bitflip", "length", "insert-zero", "insert-pad", "small-s", "small-s-plus-n"} {
		run.Require(run.Counter("mut."+k) > 0, "mutation class not exercised: "+k)
	}
}

// c11SignVolume: "every signature returned by Sign satisfies the equation" over a volume large enough
// that signatures with an unusually short r or s (one or more leading zero bytes; two or more about once
// in 2^15) occur many times. Every signature must verify with the library; those with a leading zero byte
// are also judged by the reference.
func c11SignVolume(run *mon.Run) {
	per := run.Pick(1<<14, 1<<18) // per worker: 16 workers x 2 curves
	var wg sync.WaitGroup
	for w := 0; w < 16; w++ {
		wg.Add(1)
		go func(w int) {
			defer wg.Done()
			defer run.Protect("c11 worker")
			r := run.Rand(fmt.Sprintf("sign-volume-%d", w))
			for _, a := range ecAlgs {
				d := new(big.Int).Mod(new(big.Int).SetBytes(mon.RandBytes(r, 40)), a.c.N)
				if d.Sign() == 0 {
					d = big.NewInt(9)
				}
				sk, err := crypto.DecodePrivateKey(a.alg, d.FillBytes(make([]byte, 32)))
				if err != nil {
					return
				}
				pk := sk.PublicKey()
				q := a.c.Pub(d)
				h := hash.NewSHA2_256()
				msg := make([]byte, 16)
				for i := 0; i < per; i++ {
					msg[0], msg[1], msg[2], msg[3], msg[4] = byte(i), byte(i>>8), byte(i>>16), byte(i>>24), byte(w)
					sig, err := sk.Sign(msg, h)
					if err != nil || len(sig) != 64 {
						run.Violate("C11:sign-error", fmt.Sprintf("Sign error %v len %d in the volume run", err, len(sig)), nil)
						return
					}
					ok, err := pk.Verify(sig, msg, h)
					short := 0
					for _, half := range [][]byte{sig[:32], sig[32:]} {
						z := 0
						for z < 32 && half[z] == 0 {
							z++
						}
						short = max(short, z)
					}
					if short > 0 {
						run.Count(fmt.Sprintf("sign-volume.leading-zero-bytes.%d", min(short, 3)), 1)
						if !c11Expect(a.c, q, h.ComputeHash(msg), sig) {
							ok = false
						}
					}
					if err != nil || !ok {
						run.Violate("C11:sign-output-invalid:"+a.n, fmt.Sprintf("a signature returned by Sign (leading zero bytes in r or s: %d) does not verify: (%v,%v)", short, ok, err),
							map[string]any{"curve": a.n, "d": d.Text(16), "msg": mon.Hex(msg), "sig": mon.Hex(sig)})
						return
					}
				}
				run.Eval(2 * per)
				run.Count("sign-volume.signatures", per)
			}
		}(w)
	}
	wg.Wait()
	run.Shape("sign-volume")
	run.Require(run.Counter("sign-volume.leading-zero-bytes.2")+run.Counter("sign-volume.leading-zero-bytes.3") >= 1, "no signature with two leading zero bytes in r or s was produced by the volume run")
}

// derSig is the ASN.1 DER encoding SEQUENCE{INTEGER r, INTEGER s} of a 64-byte r||s.
func derSig(sig []byte) []byte {
	enc := func(v []byte) []byte {
		for len(v) > 1 && v[0] == 0 {
			v = v[1:]
		}
		if v[0]&0x80 != 0 {
			v = append([]byte{0}, v...)
		}
		return append([]byte{2, byte(len(v))}, v...)
	}
	body := append(enc(sig[:32]), enc(sig[32:])...)
	return append([]byte{0x30, byte(len(body))}, body...)
}

func inRangeN(c *ref.ECCurve, b []byte) bool {
	v := new(big.Int).SetBytes(b)
	return v.Sign() > 0 && v.Cmp(c.N) < 0
}

func c11HasherErrors(run *mon.Run, r *rand.Rand) {
	for _, a := range ecAlgs {
		sk, err := crypto.GeneratePrivateKey(a.alg, mon.RandBytes(r, 32))
		if err != nil {
			continue
		}
		sig := make([]byte, 64)
		sig[31], sig[63] = 1, 1
		for _, sz := range []int{0, 1, 16, 31} {
			h := constHasher("short", 1, sz)
			_, e1 := sk.Sign([]byte("m"), h)
			ok, e2 := sk.PublicKey().Verify(sig, []byte("m"), h)
			run.Eval(2)
			if !crypto.IsInvalidHasherSizeError(e1) || ok || !crypto.IsInvalidHasherSizeError(e2) {
				run.Violate("C11:short-hasher:"+a.n, fmt.Sprintf("%d-byte hasher: Sign err %v, Verify (%v,%v)", sz, e1, ok, e2), nil)
			}
		}
		// ... whatever algorithm the short hasher says it is (a truncating wrapper around a standard hasher
		// keeps the standard label), and a hasher of 32 bytes or more is usable whatever its label
		for _, alg := range []hash.HashingAlgorithm{hash.UnknownHashingAlgorithm, hash.SHA2_256, hash.SHA2_384, hash.SHA3_256, hash.SHA3_384, hash.KMAC128, hash.Keccak_256, hash.HashingAlgorithm(-1), hash.HashingAlgorithm(99)} {
			for _, sz := range []int{0, 1, 20, 28, 31} {
				h := newLabelledHasher(alg, sz)
				_, e1 := sk.Sign([]byte("m"), h)
				ok, e2 := sk.PublicKey().Verify(sig, []byte("m"), h)
				run.Eval(2)
				if !crypto.IsInvalidHasherSizeError(e1) || ok || !crypto.IsInvalidHasherSizeError(e2) {
					run.Violate("C11:short-hasher:labelled:"+a.n, fmt.Sprintf("%d-byte hasher announcing algorithm %v: Sign err %v, Verify (%v,%v)", sz, alg, e1, ok, e2), map[string]any{"algorithm_label": int(alg), "size": sz})
				}
			}
			for _, sz := range []int{32, 33, 48, 64} {
				h := newLabelledHasher(alg, sz)
				s1, e1 := sk.Sign([]byte("labelled"), h)
				ok, e2 := sk.PublicKey().Verify(s1, []byte("labelled"), h)
				ok2, _ := sk.PublicKey().Verify(s1, []byte("labelled-other"), h)
				run.Eval(3)
				if e1 != nil || e2 != nil || !ok || ok2 {
					run.Violate("C11:labelled-hasher:"+a.n, fmt.Sprintf("%d-byte hasher announcing algorithm %v: Sign err %v, Verify own (%v,%v), Verify other message %v", sz, alg, e1, ok, e2, ok2), map[string]any{"algorithm_label": int(alg), "size": sz})
				}
			}
		}
		// the hasher is refused whatever the signature looks like
		for _, wl := range [][]byte{nil, {}, make([]byte, 63), make([]byte, 65), make([]byte, 32), make([]byte, 128)} {
			ok, e := sk.PublicKey().Verify(wl, []byte("m"), nil)
			ok2, e2 := sk.PublicKey().Verify(wl, []byte("m"), constHasher("short", 1, 31))
			run.Eval(2)
			if ok || ok2 || !crypto.IsNilHasherError(e) || !crypto.IsInvalidHasherSizeError(e2) {
				run.Violate("C11:bad-hasher-with-wrong-length-signature:"+a.n, fmt.Sprintf("signature of %d bytes: nil hasher (%v,%v), 31-byte hasher (%v,%v)", len(wl), ok, e, ok2, e2), nil)
			}
		}
		_, e1 := sk.Sign([]byte("m"), nil)
		ok, e2 := sk.PublicKey().Verify(sig, []byte("m"), nil)
		run.Eval(2)
		if !crypto.IsNilHasherError(e1) || ok || !crypto.IsNilHasherError(e2) {
			run.Violate("C11:nil-hasher:"+a.n, fmt.Sprintf("nil hasher: Sign err %v, Verify (%v,%v)", e1, ok, e2), nil)
		}
		run.Shape("hasher-errors|" + a.n)
	}
	// SignatureFormatCheck on other algorithms
	for _, alg := range []crypto.SigningAlgorithm{crypto.BLSBLS12381, crypto.UnknownSigningAlgorithm, 9} {
		ok, err := crypto.SignatureFormatCheck(alg, make([]byte, 64))
		run.Eval(1)
		if ok || !crypto.IsInvalidInputsError(err) {
			run.Violate("C11:format-check-unsupported-algo", fmt.Sprintf("SignatureFormatCheck(algo %d) = (%v,%v)", int(alg), ok, err), nil)
		}
	}
	_ = bytes.Equal
}
