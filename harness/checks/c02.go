//go:build cgo && !no_cgo

package checks

import (
	"bytes"
	"fmt"
	"math/big"
	"math/rand/v2"
	"sync"

	"github.com/onflow/crypto"
	"github.com/onflow/crypto/hash"

	"verif/harness/mon"
	"verif/harness/ref"
)

type c02Triple struct {
	k    *big.Int // 0 for an identity key
	pk   crypto.PublicKey
	msg  []byte
	h    hash.Hasher
	hn   string
	pkID string // identity of the key *object* (the library groups by struct value)
}

// C02: aggregate verification equals the pairing-product definition.
func C02(run *mon.Run) {
	run.Rule = "shapes from a grid (n, #distinct keys, #distinct messages, specials); expected verdict = no identity key and s == enc(sum k_i*H_i(m_i)); shape = (predicted grouping, special, candidate kind); each shape re-run under random permutations of the triples"
	run.Assumptions = []string{"same trusted base as C01", "the internal grouping (per message vs per key) is predicted from the documented rule (#distinct hashes < #distinct key objects), not observed"}
	nShapes := run.Pick(150, 3000)
	maxN := run.Pick(12, 64)
	r0 := run.Rand("main")
	tags := []string{"c02-a", "c02-b", ""}
	hashers := map[string]hash.Hasher{}
	for _, t := range tags {
		hashers["kmac:"+t] = crypto.NewExpandMsgXOFKMAC128(t)
	}
	idPk := crypto.IdentityBLSPublicKey()
	specials := []string{"none", "none", "dup-pairs", "same-point-distinct-objects", "pk-and-neg", "identity-key", "per-index-hashers", "removed-form-key", "tie", "one-message", "one-key"}
	_ = r0
	var wg sync.WaitGroup
	sem := make(chan struct{}, 16)
	for si := 0; si < nShapes; si++ {
		wg.Add(1)
		sem <- struct{}{}
		go func(si int) {
			defer wg.Done()
			defer func() { <-sem }()
			defer run.Protect("c02 worker")
			r := run.Rand(fmt.Sprintf("shape-%d", si))
			special := specials[si%len(specials)]
			n := 1 + r.IntN(maxN)
			if si < 24 {
				n = 1 + si%6
			}
			if si%37 == 36 {
				n = []int{15, 16, 17, 24, 33, 40}[(si/37)%6] // more than one Miller-loop batch of pairings
			}
			if !run.Quick() && si%500 == 499 {
				n = 300
			}
			nk := 1 + r.IntN(n)
			nm := 1 + r.IntN(n)
			if si%37 == 36 {
				nk, nm = n, n-si%2 // (almost) all distinct: min(#keys, #hashes)+1 pairings
			}
			switch special {
			case "tie":
				nm = nk
			case "one-message":
				nm = 1
			case "one-key":
				nk = 1
			}
			ks := make([]*big.Int, nk)
			sks := make([]crypto.PrivateKey, nk)
			for i := range ks {
				ks[i] = randScalar(r)
				sks[i] = skFromInt(ks[i])
			}
			msgs := make([][]byte, nm)
			for i := range msgs {
				msgs[i] = mon.RandBytes(r, 1+r.IntN(40))
			}
			var ts []c02Triple
			for i := 0; i < n; i++ {
				ki, mi := i%nk, (i*7+i/nk)%nm
				if i >= nk && i >= nm {
					ki, mi = r.IntN(nk), r.IntN(nm)
				}
				hn := "kmac:" + tags[0]
				if special == "per-index-hashers" {
					hn = "kmac:" + tags[i%len(tags)]
				}
				ts = append(ts, c02Triple{k: ks[ki], pk: sks[ki].PublicKey(), msg: msgs[mi], h: hashers[hn], hn: hn, pkID: fmt.Sprintf("sk%d", ki)})
			}
			switch special {
			case "dup-pairs":
				for i := 0; i < 1+r.IntN(3); i++ {
					ts = append(ts, ts[r.IntN(len(ts))])
				}
			case "same-point-distinct-objects":
				for i := range ts {
					if i%2 == 0 {
						if d, err := crypto.DecodePublicKey(BLS, ts[i].pk.Encode()); err == nil {
							ts[i].pk = d // same affine limbs => same struct value => same map key inside the library
						}
					}
				}
			case "removed-form-key":
				q := skFromInt(randScalar(r)).PublicKey()
				for i := range ts {
					if i%2 == 0 {
						agg, _ := crypto.AggregateBLSPublicKeys([]crypto.PublicKey{ts[i].pk, q})
						rem, err := crypto.RemoveBLSPublicKeys(agg, []crypto.PublicKey{q})
						if err == nil {
							ts[i].pk = rem
							ts[i].pkID += fmt.Sprintf("-removed%d", i)
						}
					}
				}
			case "pk-and-neg":
				// k and -k on one message: the sum is the identity point
				k := randScalar(r)
				m := mon.RandBytes(r, 8)
				hn := "kmac:" + tags[0]
				ts = []c02Triple{
					{k: k, pk: skFromInt(k).PublicKey(), msg: m, h: hashers[hn], hn: hn, pkID: "p"},
					{k: ref.Fr.Neg(k), pk: skFromInt(ref.Fr.Neg(k)).PublicKey(), msg: m, h: hashers[hn], hn: hn, pkID: "n"},
				}
			case "identity-key":
				pos := r.IntN(len(ts) + 1)
				idt := c02Triple{k: big.NewInt(0), pk: idPk, msg: msgs[0], h: hashers["kmac:"+tags[0]], hn: "kmac:" + tags[0], pkID: "identity"}
				ts = append(append(append([]c02Triple{}, ts[:pos]...), idt), ts[pos:]...)
			}
			c02RunShape(run, r, si, special, ts)
		}(si)
	}
	wg.Wait()
	// skewed shapes: far more than 64 triples under ONE key (per-key grouping sums many hash points per
	// key) or on ONE message (per-message grouping sums many keys per hash)
	type skew struct {
		n, nk, nm int
		special   string
	}
	skews := []skew{{65, 1, 65, "many-per-key"}, {130, 2, 130, "many-per-key"}, {70, 70, 1, "many-per-message"}, {129, 129, 2, "many-per-message"}}
	if !run.Quick() {
		skews = append(skews, skew{64, 1, 64, "many-per-key"}, skew{200, 3, 200, "many-per-key"}, skew{257, 2, 257, "many-per-key"}, skew{300, 300, 1, "many-per-message"}, skew{193, 193, 3, "many-per-message"}, skew{128, 2, 64, "many-per-key"})
	}
	for i, sk := range skews {
		wg.Add(1)
		go func(i int, sk skew) {
			defer wg.Done()
			defer run.Protect("c02 worker")
			r := run.Rand(fmt.Sprintf("skew-%d", i))
			ks := make([]*big.Int, sk.nk)
			pks := make([]crypto.PublicKey, sk.nk)
			for j := range ks {
				ks[j] = randScalar(r)
				pks[j] = skFromInt(ks[j]).PublicKey()
			}
			hn := "kmac:" + tags[0]
			var ts []c02Triple
			for j := 0; j < sk.n; j++ {
				ts = append(ts, c02Triple{k: ks[j%sk.nk], pk: pks[j%sk.nk], msg: []byte(fmt.Sprintf("skew-%d-%d", i, j%sk.nm)), h: hashers[hn], hn: hn, pkID: fmt.Sprintf("sk%d", j%sk.nk)})
			}
			c02RunShape(run, r, 100000+i, sk.special, ts)
		}(i, sk)
	}
	wg.Wait()
	// several groups of keys that cancel (k and -k, or a, b and -(a+b), on one message) among m messages:
	// in the per-message grouping each such message contributes an identity operand to the pairing product,
	// for every (m, #cancelling groups) around the pairing batch size
	{
		type mc struct{ nm, nc int }
		var grid []mc
		for nm := 2; nm <= run.Pick(13, 20); nm++ {
			for nc := 1; nc <= nm; nc++ {
				if run.Quick() && nm > 4 && nc > 5 && nc < nm-1 {
					continue
				}
				grid = append(grid, mc{nm, nc})
			}
		}
		for gi, g := range grid {
			wg.Add(1)
			sem <- struct{}{}
			go func(gi int, g mc) {
				defer wg.Done()
				defer func() { <-sem }()
				defer run.Protect("c02 worker")
				r := run.Rand(fmt.Sprintf("multi-cancel-%d", gi))
				hn := "kmac:" + tags[0]
				var ts []c02Triple
				id := 0
				add := func(k *big.Int, m []byte) {
					ts = append(ts, c02Triple{k: k, pk: skFromInt(k).PublicKey(), msg: m, h: hashers[hn], hn: hn, pkID: fmt.Sprintf("k%d", id)})
					id++
				}
				for mi := 0; mi < g.nm; mi++ {
					m := []byte(fmt.Sprintf("mc-%d-%d", gi, mi))
					if mi < g.nc {
						a := randScalar(r)
						if (gi+mi)%3 == 2 {
							b := randScalar(r)
							add(a, m)
							add(b, m)
							add(ref.Fr.Neg(ref.Fr.Add(a, b)), m)
						} else {
							add(a, m)
							add(ref.Fr.Neg(a), m)
						}
					} else {
						add(randScalar(r), m)
						if (gi+mi)%2 == 0 {
							add(randScalar(r), m)
						}
					}
				}
				c02RunShape(run, r, 200000+gi, fmt.Sprintf("cancelling-groups-%d-of-%d", min(g.nc, 4), min(g.nm, 9)), ts)
				run.Count("multi-cancel.shapes", 1)
			}(gi, g)
		}
		wg.Wait()
	}
	// exact group sizes: g triples under ONE key (per-key grouping) and g keys on ONE message (per-message
	// grouping) for every g in a range that covers small-buffer and batch boundaries, honest aggregate
	// and one wrong candidate each
	{
		maxG := run.Pick(132, 300)
		r := run.Rand("group-sizes")
		hn := "kmac:" + tags[0]
		base := make([]*big.Int, maxG+1)
		pks := make([]crypto.PublicKey, maxG+1)
		Hs := make([]ref.G1, maxG+1)
		msgs := make([][]byte, maxG+1)
		for i := range base {
			base[i] = randScalar(r)
			pks[i] = skFromInt(base[i]).PublicKey()
			msgs[i] = []byte(fmt.Sprintf("group-size-%d", i))
			H, err := hashPoint(msgs[i], hashers[hn], hn)
			if err != nil {
				run.Violate("C02:hash-point", err.Error(), nil)
				return
			}
			Hs[i] = H
		}
		// prefix sums: per-key shape g = key 0 on messages 0..g-1 (+ key 1 on message g when g is even)
		sumH := ref.E1.Infinity()
		sumK := new(big.Int)
		for g := 1; g <= maxG; g++ {
			sumH = ref.E1.Add(sumH, Hs[g-1])
			sumK = ref.Fr.Add(sumK, base[g-1])
			g := g
			SperKey := ref.E1.Mul(sumH, base[0])
			SperMsg := ref.E1.Mul(Hs[0], sumK)
			zeroSum := sumK.Sign() == 0
			wg.Add(1)
			sem <- struct{}{}
			go func() {
				defer wg.Done()
				defer func() { <-sem }()
				defer run.Protect("c02 worker")
				hs := make([]hash.Hasher, 0, g+1)
				kk := make([]crypto.PublicKey, 0, g+1)
				mm := make([][]byte, 0, g+1)
				for i := 0; i < g; i++ {
					kk, mm, hs = append(kk, pks[0]), append(mm, msgs[i]), append(hs, hashers[hn])
				}
				S := SperKey
				if g%2 == 0 {
					kk, mm, hs = append(kk, pks[1]), append(mm, msgs[g]), append(hs, hashers[hn])
					S = ref.E1.Add(S, ref.E1.Mul(Hs[g], base[1]))
				}
				for ci, c := range [][]byte{ref.EncodeG1(S), ref.EncodeG1(ref.E1.Add(S, ref.G1Gen))} {
					var ok bool
					var err error
					rep := map[string]any{"shape": "group-size-per-key", "g": g, "candidate": mon.Hex(c)}
					if run.Guard("VerifyBLSSignatureManyMessages", rep, func() { ok, err = crypto.VerifyBLSSignatureManyMessages(kk, c, mm, hs) }) {
						continue
					}
					run.Eval(1)
					if err != nil || ok != (ci == 0) {
						run.Violate(fmt.Sprintf("C02:many:per-key:group-size:expected-%v", ci == 0), fmt.Sprintf("%d messages under one key (%d triples): VerifyBLSSignatureManyMessages = (%v,%v), reference = %v", g, len(kk), ok, err, ci == 0), rep)
					}
				}
				// per message: keys 0..g-1 on message 0
				kk, mm, hs = kk[:0], mm[:0], hs[:0]
				for i := 0; i < g; i++ {
					kk, mm, hs = append(kk, pks[i]), append(mm, msgs[0]), append(hs, hashers[hn])
				}
				for ci, c := range [][]byte{ref.EncodeG1(SperMsg), ref.EncodeG1(ref.E1.Add(SperMsg, ref.G1Gen))} {
					var ok bool
					var err error
					rep := map[string]any{"shape": "group-size-per-message", "g": g, "candidate": mon.Hex(c)}
					if run.Guard("VerifyBLSSignatureManyMessages", rep, func() { ok, err = crypto.VerifyBLSSignatureManyMessages(kk, c, mm, hs) }) {
						continue
					}
					run.Eval(1)
					want := ci == 0
					_ = zeroSum // (a zero key sum still verifies the identity signature in ManyMessages: no single key is the identity)
					if err != nil || ok != want {
						run.Violate(fmt.Sprintf("C02:many:per-message:group-size:expected-%v", want), fmt.Sprintf("%d keys on one message: VerifyBLSSignatureManyMessages = (%v,%v), reference = %v", g, ok, err, want), rep)
					}
				}
				run.Count("group-size.sizes", 1)
				if g%16 == 0 {
					run.Shape(fmt.Sprintf("group-size|%d", g))
				}
			}()
		}
		wg.Wait()
		run.Require(run.Counter("group-size.sizes") == int64(maxG), "group-size sweep incomplete")
	}
	c02Errors(run)
	run.Require(run.Counter("path.per-message") >= 20 && run.Counter("path.per-key") >= 20, "both internal groupings not exercised at least 20 times")
	run.Require(run.Counter("verdict.true") >= 50 && run.Counter("verdict.false") >= 200, "too few true/false verdicts observed")
}

func c02RunShape(run *mon.Run, r *rand.Rand, si int, special string, ts []c02Triple) {
	// reference sum and the hash points
	S := ref.E1.Infinity()
	hasIdentity := false
	type hk struct{ h, m string }
	distinctHash := map[hk]bool{}
	distinctPkObj := map[string]bool{}
	Hs := make([]ref.G1, len(ts))
	for i, t := range ts {
		H, err := hashPoint(t.msg, t.h, t.hn)
		if err != nil {
			run.Violate("C02:hash-point", err.Error(), nil)
			return
		}
		Hs[i] = H
		S = ref.E1.Add(S, ref.E1.Mul(H, t.k))
		if t.k.Sign() == 0 {
			hasIdentity = true
		}
		distinctHash[hk{t.hn, string(t.msg)}] = true
		distinctPkObj[t.pkID] = true
	}
	path := "per-key"
	if len(distinctHash) < len(distinctPkObj) {
		path = "per-message"
	} else if len(distinctHash) == len(distinctPkObj) {
		run.Count("path.tie", 1)
	}
	run.Count("path."+path, 1)
	encS := ref.EncodeG1(S)
	// candidates
	var cs []cand
	add := func(kind string, b []byte) { cs = append(cs, cand{b, kind}) }
	add("S", encS)
	add("S-plus-T3", ref.EncodeG1(ref.E1.Add(S, tor3())))
	add("S-plus-g1", ref.EncodeG1(ref.E1.Add(S, ref.G1Gen)))
	add("S-neg", ref.EncodeG1(ref.E1.Neg(S)))
	j := r.IntN(len(ts))
	add("term-dropped", ref.EncodeG1(ref.E1.Sub(S, ref.E1.Mul(Hs[j], ts[j].k))))
	add("term-duplicated", ref.EncodeG1(ref.E1.Add(S, ref.E1.Mul(Hs[j], ts[j].k))))
	j2 := (j + 1) % len(ts)
	add("term-under-neighbour-message", ref.EncodeG1(ref.E1.Add(ref.E1.Sub(S, ref.E1.Mul(Hs[j], ts[j].k)), ref.E1.Mul(Hs[j2], ts[j].k))))
	add("term-under-neighbour-key", ref.EncodeG1(ref.E1.Add(ref.E1.Sub(S, ref.E1.Mul(Hs[j], ts[j].k)), ref.E1.Mul(Hs[j], ts[j2].k))))
	for f := 0; f < 32; f++ {
		b := append([]byte{}, encS...)
		bit := r.IntN(384)
		if f < 3 {
			bit = f
		}
		b[bit/8] ^= 0x80 >> (bit % 8)
		add("bitflip", b)
	}
	add("infinity", ref.EncodeG1(ref.E1.Infinity()))
	add("malformed", crypto.BLSInvalidSignature())
	add("length-47", encS[:47])
	add("length-49", append(append([]byte{}, encS...), 0))
	add("length-0", nil)
	if !S.Inf {
		xp := new(big.Int).Add(S.X, ref.P)
		if xp.BitLen() <= 381 {
			c := xp.FillBytes(make([]byte, 48))
			c[0] |= encS[0] & 0xE0
			add("x-plus-p", c)
		}
	}
	rep := func(c cand, perm []int) map[string]any {
		m := map[string]any{"shape": si, "special": special, "candidate": mon.Hex(c.b), "kind": c.kind, "n": len(ts), "path": path, "perm": perm}
		var kk, mm, hh []string
		for _, t := range ts {
			kk = append(kk, t.k.Text(16))
			mm = append(mm, mon.Hex(t.msg))
			hh = append(hh, t.hn)
		}
		m["scalars"], m["messages"], m["hashers"] = kk, mm, hh
		return m
	}
	nperm := 3
	if len(ts) > 64 {
		nperm = 1 // large skewed shapes: the head of the candidate list under two orders
		cs = cs[:8]
	}
	for pi := 0; pi <= nperm; pi++ {
		perm := make([]int, len(ts))
		for i := range perm {
			perm[i] = i
		}
		if pi > 0 {
			perm = r.Perm(len(ts))
		}
		pks := make([]crypto.PublicKey, len(ts))
		msgs := make([][]byte, len(ts))
		hs := make([]hash.Hasher, len(ts))
		for i, p := range perm {
			pks[i], msgs[i], hs[i] = ts[p].pk, ts[p].msg, ts[p].h
		}
		for ci, c := range cs {
			if pi > 0 && ci > 7 && ci%5 != pi {
				continue
			}
			if (si+ci)%3 == 0 && len(pks) >= 1 {
				// every third judged call follows, on this goroutine, calls that are REJECTED after some of the
				// triples were already taken in (a foreign key or an identity key behind regular ones, a bad
				// hasher at the end): nothing of them may reach the next verdict
				run.Count("rejected-call-first", 1)
				ecK, _ := crypto.GeneratePrivateKey(crypto.ECDSAP256, bytes.Repeat([]byte{3}, 32))
				q := skFromInt(big.NewInt(int64(1000 + si))).PublicKey()
				hq := hs[0]
				_, _ = crypto.VerifyBLSSignatureManyMessages([]crypto.PublicKey{q, q, ecK.PublicKey()}, c.b, [][]byte{{1}, {2}, {3}}, []hash.Hasher{hq, hq, hq})
				_, _ = crypto.VerifyBLSSignatureManyMessages([]crypto.PublicKey{q, crypto.IdentityBLSPublicKey()}, c.b, [][]byte{{1}, {2}}, []hash.Hasher{hq, hq})
				_, _ = crypto.VerifyBLSSignatureManyMessages([]crypto.PublicKey{q, q}, c.b, [][]byte{{1}, {2}}, []hash.Hasher{hq, nil})
				_, _ = crypto.VerifyBLSSignatureOneMessage([]crypto.PublicKey{q, ecK.PublicKey()}, c.b, []byte{1}, hq)
			}
			expect := !hasIdentity && bytes.Equal(c.b, encS)
			var ok bool
			var err error
			if run.Guard("VerifyBLSSignatureManyMessages", rep(c, perm), func() { ok, err = crypto.VerifyBLSSignatureManyMessages(pks, c.b, msgs, hs) }) {
				continue
			}
			run.Eval(1)
			run.Count(fmt.Sprintf("verdict.%v", ok), 1)
			if err != nil {
				run.Violate("C02:many:error:"+c.kind, fmt.Sprintf("ManyMessages error %v", err), rep(c, perm))
			} else if ok != expect {
				run.Violate(fmt.Sprintf("C02:many:%s:%s:%s:expected-%v", path, special, c.kind, expect),
					fmt.Sprintf("VerifyBLSSignatureManyMessages = %v, reference = %v (special=%s, path=%s, candidate=%s, permuted=%v)", ok, expect, special, path, c.kind, pi > 0), rep(c, perm))
			}
			run.Shape(path + "|" + special + "|" + c.kind)
		}
	}
	// OneMessage: when all triples share message and hasher, compare with Verify under the summed key
	if len(distinctHash) == 1 {
		pks := make([]crypto.PublicKey, len(ts))
		sum := new(big.Int)
		for i, t := range ts {
			pks[i] = t.pk
			sum = ref.Fr.Add(sum, t.k)
		}
		aggPk, _ := crypto.AggregateBLSPublicKeys(pks)
		for _, c := range cs[:min(12, len(cs))] {
			expect := sum.Sign() != 0 && bytes.Equal(c.b, ref.EncodeG1(ref.E1.Mul(Hs[0], sum)))
			ok, err := crypto.VerifyBLSSignatureOneMessage(permute(r, pks), c.b, ts[0].msg, ts[0].h)
			ok2, err2 := aggPk.Verify(c.b, ts[0].msg, ts[0].h)
			run.Eval(2)
			run.Count(fmt.Sprintf("verdict.%v", ok), 1)
			if err != nil || err2 != nil || ok != expect || ok2 != expect {
				run.Violate("C02:one:"+special+":"+c.kind, fmt.Sprintf("OneMessage = (%v,%v), Verify(sum key) = (%v,%v), reference = %v", ok, err, ok2, err2, expect), rep(c, nil))
			}
			run.Shape("one-message|" + special + "|" + c.kind)
		}
	}
	if si < 3 {
		run.Sample(map[string]any{"special": special, "n": len(ts), "distinct_hashes": len(distinctHash), "distinct_key_objects": len(distinctPkObj), "path": path, "S": mon.Hex(encS)})
	}
}

func c02Errors(run *mon.Run) {
	h := crypto.NewExpandMsgXOFKMAC128("e")
	sk := skFromInt(big.NewInt(11))
	pk := sk.PublicKey()
	sig, _ := sk.Sign([]byte("m"), h)
	ec, _ := crypto.GeneratePrivateKey(crypto.ECDSAP256, bytes.Repeat([]byte{1}, 32))
	check := func(name string, ok bool, err error, pred func(error) bool) {
		run.Eval(1)
		if ok || !pred(err) {
			run.Violate("C02:error-class:"+name, fmt.Sprintf("%s: (%v, %v)", name, ok, err), nil)
		}
		run.Shape("error|" + name)
	}
	m := [][]byte{[]byte("m")}
	ok, err := crypto.VerifyBLSSignatureManyMessages([]crypto.PublicKey{pk, pk}, sig, m, []hash.Hasher{h})
	check("len-mismatch-keys", ok, err, crypto.IsInvalidInputsError)
	ok, err = crypto.VerifyBLSSignatureManyMessages([]crypto.PublicKey{pk}, sig, m, []hash.Hasher{h, h})
	check("len-mismatch-hashers", ok, err, crypto.IsInvalidInputsError)
	ok, err = crypto.VerifyBLSSignatureManyMessages([]crypto.PublicKey{pk}, sig, [][]byte{}, []hash.Hasher{h})
	check("len-mismatch-messages", ok, err, crypto.IsInvalidInputsError)
	ok, err = crypto.VerifyBLSSignatureManyMessages(nil, sig, nil, nil)
	check("empty", ok, err, crypto.IsBLSAggregateEmptyListError)
	ok, err = crypto.VerifyBLSSignatureOneMessage(nil, sig, []byte("m"), h)
	check("one-empty", ok, err, crypto.IsBLSAggregateEmptyListError)
	for pos := 0; pos < 3; pos++ {
		pks := []crypto.PublicKey{pk, pk, pk}
		ms := [][]byte{[]byte("a"), []byte("b"), []byte("c")}
		hs := []hash.Hasher{h, h, h}
		hs[pos] = nil
		ok, err = crypto.VerifyBLSSignatureManyMessages(pks, sig, ms, hs)
		check("nil-hasher", ok, err, crypto.IsNilHasherError)
		hs[pos] = constHasher("bad", 0, 127)
		ok, err = crypto.VerifyBLSSignatureManyMessages(pks, sig, ms, hs)
		check("bad-hasher-size", ok, err, crypto.IsInvalidHasherSizeError)
		hs[pos] = h
		pks[pos] = ec.PublicKey()
		ok, err = crypto.VerifyBLSSignatureManyMessages(pks, sig, ms, hs)
		check("ecdsa-key", ok, err, crypto.IsNotBLSKeyError)
		ok, err = crypto.VerifyBLSSignatureOneMessage(pks, sig, []byte("m"), h)
		check("one-ecdsa-key", ok, err, crypto.IsNotBLSKeyError)
	}
	// the same input errors with an identity key somewhere in the list: the typed error is still reported
	idKeys := []crypto.PublicKey{crypto.IdentityBLSPublicKey()}
	if rem, e := crypto.RemoveBLSPublicKeys(pk, []crypto.PublicKey{pk}); e == nil {
		idKeys = append(idKeys, rem)
	}
	for _, idk := range idKeys {
		for idPos := 0; idPos < 3; idPos++ {
			// a bad hasher at the SAME index as the identity key
			{
				pks := []crypto.PublicKey{pk, pk, pk}
				pks[idPos] = idk
				ms := [][]byte{[]byte("a"), []byte("b"), []byte("c")}
				hs := []hash.Hasher{h, h, h}
				hs[idPos] = nil
				ok, err = crypto.VerifyBLSSignatureManyMessages(pks, sig, ms, hs)
				check("nil-hasher-at-identity-key-index", ok, err, crypto.IsNilHasherError)
				hs[idPos] = constHasher("bad", 0, 129)
				ok, err = crypto.VerifyBLSSignatureManyMessages(pks, sig, ms, hs)
				check("bad-hasher-size-at-identity-key-index", ok, err, crypto.IsInvalidHasherSizeError)
			}
			for pos := 0; pos < 3; pos++ {
				if pos == idPos {
					continue
				}
				pks := []crypto.PublicKey{pk, pk, pk}
				pks[idPos] = idk
				ms := [][]byte{[]byte("a"), []byte("b"), []byte("c")}
				hs := []hash.Hasher{h, h, h}
				hs[pos] = nil
				ok, err = crypto.VerifyBLSSignatureManyMessages(pks, sig, ms, hs)
				check("nil-hasher-with-identity-key", ok, err, crypto.IsNilHasherError)
				hs[pos] = constHasher("bad", 0, 127)
				ok, err = crypto.VerifyBLSSignatureManyMessages(pks, sig, ms, hs)
				check("bad-hasher-size-with-identity-key", ok, err, crypto.IsInvalidHasherSizeError)
				hs[pos] = h
				pks[pos] = ec.PublicKey()
				ok, err = crypto.VerifyBLSSignatureManyMessages(pks, sig, ms, hs)
				check("ecdsa-key-with-identity-key", ok, err, crypto.IsNotBLSKeyError)
				ok, err = crypto.VerifyBLSSignatureOneMessage(pks, sig, []byte("m"), h)
				check("one-ecdsa-key-with-identity-key", ok, err, crypto.IsNotBLSKeyError)
			}
		}
		ok, err = crypto.VerifyBLSSignatureManyMessages([]crypto.PublicKey{pk, idk}, sig, m, []hash.Hasher{h, h})
		check("len-mismatch-with-identity-key", ok, err, crypto.IsInvalidInputsError)
		ok, err = crypto.VerifyBLSSignatureOneMessage([]crypto.PublicKey{pk, idk}, sig, []byte("m"), nil)
		check("one-nil-hasher-with-identity-key", ok, err, crypto.IsNilHasherError)
	}
	ok, err = crypto.VerifyBLSSignatureOneMessage([]crypto.PublicKey{pk}, sig, []byte("m"), nil)
	check("one-nil-hasher", ok, err, crypto.IsNilHasherError)
	// single-element lists
	for _, s1 := range []crypto.Signature{sig, nil, make([]byte, 64)} {
		ok, err = crypto.VerifyBLSSignatureOneMessage([]crypto.PublicKey{ec.PublicKey()}, s1, []byte("m"), h)
		check("one-single-ecdsa-key", ok, err, crypto.IsNotBLSKeyError)
	}
	ok, err = crypto.VerifyBLSSignatureManyMessages([]crypto.PublicKey{ec.PublicKey()}, sig, m, []hash.Hasher{h})
	check("many-single-ecdsa-key", ok, err, crypto.IsNotBLSKeyError)
	ok, err = crypto.VerifyBLSSignatureManyMessages([]crypto.PublicKey{pk}, sig, m, []hash.Hasher{nil})
	check("many-single-nil-hasher", ok, err, crypto.IsNilHasherError)
	ok, err = crypto.VerifyBLSSignatureManyMessages([]crypto.PublicKey{pk}, sig, m, []hash.Hasher{constHasher("bad", 0, 129)})
	check("many-single-bad-hasher", ok, err, crypto.IsInvalidHasherSizeError)
}
