//go:build cgo && !no_cgo

package checks

import (
	"bytes"
	"context"
	"encoding/binary"
	"fmt"
	"math"
	"math/big"
	"math/rand/v2"
	"os"
	"os/exec"
	"path/filepath"
	"regexp"
	"strconv"
	"strings"
	"sync"
	"time"

	"github.com/onflow/crypto"
	"github.com/onflow/crypto/hash"
	"github.com/onflow/crypto/random"

	"verif/harness/canary"
	"verif/harness/mon"
)

// c09cmd is one exported call with concrete arguments. run returns "" when the outcome is
// acceptable (success, a false verdict, or the documented typed error), otherwise a description.
type c09cmd struct {
	entry string
	desc  string
	run   func() string
}

type c09fix struct {
	blsSk            crypto.PrivateKey
	blsPk            crypto.PublicKey
	blsSig           crypto.Signature
	kmac             hash.Hasher
	ecSk             [2]crypto.PrivateKey
	ecSig            [2]crypto.Signature
	thrSks           []crypto.PrivateKey
	thrPks           []crypto.PublicKey
	thrGpk           crypto.PublicKey
	thrShares        []crypto.Signature
	msg              []byte
	vec, share, answ []byte         // well-formed DKG messages (n=4, t=2, dealer 1, to 0)
	shares           map[int][]byte // dealer 1's share for every destination
}

var c09Fixture = sync.OnceValue(func() *c09fix {
	f := &c09fix{msg: []byte("c09 message")}
	f.blsSk, _ = crypto.GeneratePrivateKey(BLS, bytes.Repeat([]byte{7}, 32))
	f.blsPk = f.blsSk.PublicKey()
	f.kmac = crypto.NewExpandMsgXOFKMAC128("c09")
	f.blsSig, _ = f.blsSk.Sign(f.msg, f.kmac)
	for i, a := range []crypto.SigningAlgorithm{crypto.ECDSAP256, crypto.ECDSASecp256k1} {
		f.ecSk[i], _ = crypto.GeneratePrivateKey(a, bytes.Repeat([]byte{9}, 32))
		f.ecSig[i], _ = f.ecSk[i].Sign(f.msg, hash.NewSHA3_256())
	}
	f.thrSks, f.thrPks, f.thrGpk, _ = crypto.BLSThresholdKeyGen(4, 2, bytes.Repeat([]byte{3}, 32))
	for _, sk := range f.thrSks {
		s, _ := sk.Sign(f.msg, crypto.NewExpandMsgXOFKMAC128("thr"))
		f.thrShares = append(f.thrShares, s)
	}
	rp := newRecProc()
	d, _ := crypto.NewFeldmanVSSQual(4, 2, 1, rp, 1)
	_ = d.Start(bytes.Repeat([]byte{5}, 32))
	f.vec = rp.bcast[0]
	f.share = rp.priv[0]
	f.shares = rp.priv
	f.answ = append([]byte{3, 0}, f.share[1:]...)
	return f
})

// c09KeyPool: 40 distinct BLS public keys (built once per process).
var c09KeyPool = sync.OnceValue(func() []crypto.PublicKey {
	out := make([]crypto.PublicKey, 40)
	for i := range out {
		sk, err := crypto.GeneratePrivateKey(crypto.BLSBLS12381, bytes.Repeat([]byte{byte(40 + i)}, 32))
		if err != nil {
			panic(err)
		}
		out[i] = sk.PublicKey()
	}
	return out
})

// c09NegPool: the opposites of c09KeyPool's keys (identity minus key).
var c09NegPool = sync.OnceValue(func() []crypto.PublicKey {
	pool := c09KeyPool()
	out := make([]crypto.PublicKey, len(pool))
	for i := range out {
		neg, err := crypto.RemoveBLSPublicKeys(crypto.IdentityBLSPublicKey(), []crypto.PublicKey{pool[i]})
		if err != nil {
			panic(err)
		}
		out[i] = neg
	}
	return out
})

// c09ManyKeys returns n distinct BLS public keys (k*g2 for k = 1..n as successive sums: cheap to build,
// grown on demand, built once per process).
var (
	manyKeysMu sync.Mutex
	manyKeys   []crypto.PublicKey
)

func c09ManyKeys(n int) []crypto.PublicKey {
	manyKeysMu.Lock()
	defer manyKeysMu.Unlock()
	for len(manyKeys) < n {
		sk, err := crypto.DecodePrivateKey(crypto.BLSBLS12381, big.NewInt(int64(len(manyKeys)+12345)).FillBytes(make([]byte, 32)))
		if err != nil {
			panic(err)
		}
		manyKeys = append(manyKeys, sk.PublicKey())
	}
	return manyKeys[:n]
}

// bv returns a byte-slice variant around the target length L.
func bv(r *rand.Rand, L int, valid []byte) ([]byte, string) {
	switch r.IntN(12) {
	case 0:
		return nil, "nil"
	case 1:
		return []byte{}, "empty"
	case 2:
		return mon.RandBytes(r, max(0, L-1)), "one-short"
	case 3:
		return mon.RandBytes(r, L+1), "one-long"
	case 4:
		return mon.RandBytes(r, 10000), "10^4"
	case 5:
		return mon.RandBytes(r, 1), "one-byte"
	case 6, 7:
		if valid != nil {
			return append([]byte{}, valid...), "valid"
		}
		return mon.RandBytes(r, L), "exact-random"
	case 8:
		if valid != nil && len(valid) > 0 {
			v := append([]byte{}, valid...)
			v[r.IntN(len(v))] ^= byte(1 << r.IntN(8))
			return v, "valid-bitflip"
		}
		return make([]byte, L), "exact-zeros"
	case 9:
		return bytes.Repeat([]byte{0xff}, L), "exact-ff"
	case 10:
		return mon.RandBytes(r, r.IntN(3*L+2)), "random-length"
	default:
		return mon.RandBytes(r, L), "exact-random"
	}
}

func intv(r *rand.Rand, bound int) int {
	vs := []int{-1, 0, 1, 2, bound - 1, bound, bound + 1, 254, 255, 256, -2, math.MinInt, math.MaxInt, math.MaxInt32, 1 << 40, -1 << 31}
	return vs[r.IntN(len(vs))]
}

func errIn(err error, preds ...func(error) bool) bool {
	if err == nil {
		return true
	}
	for _, p := range preds {
		if p(err) {
			return true
		}
	}
	return false
}

func anyErr(error) bool { return true }

var c09Algos = []crypto.SigningAlgorithm{-2, -1, 0, 1, 2, 3, 4, 5, 7, 10}
var c09KeyLens = map[crypto.SigningAlgorithm][3]int{crypto.BLSBLS12381: {32, 96, 96}, crypto.ECDSAP256: {32, 64, 33}, crypto.ECDSASecp256k1: {32, 64, 33}}

type c09family struct {
	name string
	n    func(quick bool) int
	gen  func(r *rand.Rand, i int) c09cmd
}

func fixedN(q, t int) func(bool) int {
	return func(quick bool) int {
		if quick {
			return q
		}
		return t
	}
}

func c09Families() []c09family {
	fx := c09Fixture()
	bad := func(entry, desc, what string) string { return fmt.Sprintf("%s(%s): %s", entry, desc, what) }
	fams := []c09family{
		{"decoders", fixedN(16000, 300000), func(r *rand.Rand, i int) c09cmd {
			alg := c09Algos[r.IntN(len(c09Algos))]
			which := r.IntN(3)
			L := 32
			if ls, ok := c09KeyLens[alg]; ok {
				L = ls[which]
			}
			var valid []byte
			switch {
			case alg == BLS && which == 0:
				valid = fx.blsSk.Encode()
			case alg == BLS:
				valid = fx.blsPk.Encode()
			case alg == crypto.ECDSAP256 && which == 1:
				valid = fx.ecSk[0].PublicKey().Encode()
			case alg == crypto.ECDSASecp256k1 && which == 2:
				valid = fx.ecSk[1].PublicKey().EncodeCompressed()
			}
			b, d := bv(r, L, valid)
			name := [...]string{"DecodePrivateKey", "DecodePublicKey", "DecodePublicKeyCompressed"}[which]
			desc := fmt.Sprintf("algo=%d,%s(%d bytes)", int(alg), d, len(b))
			return c09cmd{name, desc, func() string {
				var err error
				switch which {
				case 0:
					_, err = crypto.DecodePrivateKey(alg, b)
				case 1:
					_, err = crypto.DecodePublicKey(alg, b)
				default:
					_, err = crypto.DecodePublicKeyCompressed(alg, b)
				}
				if !errIn(err, crypto.IsInvalidInputsError) {
					return bad(name, desc, "error is not invalid-inputs: "+err.Error())
				}
				return ""
			}}
		}},
		{"keygen", fixedN(3000, 60000), func(r *rand.Rand, i int) c09cmd {
			alg := c09Algos[r.IntN(len(c09Algos))]
			l := []int{0, 1, 16, 31, 32, 33, 64, 255, 256, 257, 300, 10000}[r.IntN(12)]
			var seed []byte
			if l > 0 || r.IntN(2) == 0 {
				seed = mon.RandBytes(r, l)
			}
			desc := fmt.Sprintf("algo=%d,seed=%d bytes", int(alg), l)
			return c09cmd{"GeneratePrivateKey", desc, func() string {
				_, err := crypto.GeneratePrivateKey(alg, seed)
				if !errIn(err, crypto.IsInvalidInputsError) {
					return bad("GeneratePrivateKey", desc, "error is not invalid-inputs: "+err.Error())
				}
				return ""
			}}
		}},
		{"sign-verify", fixedN(14000, 250000), func(r *rand.Rand, i int) c09cmd {
			ki := r.IntN(3)
			var sk crypto.PrivateKey
			var goodSig []byte
			var goodH func() hash.Hasher
			switch ki {
			case 0:
				sk, goodSig, goodH = fx.blsSk, fx.blsSig, func() hash.Hasher { return crypto.NewExpandMsgXOFKMAC128("c09") }
			default:
				sk, goodSig, goodH = fx.ecSk[ki-1], fx.ecSig[ki-1], hash.NewSHA3_256
			}
			var h hash.Hasher
			hd := "valid-hasher"
			switch r.IntN(8) {
			case 0:
				h, hd = nil, "nil-hasher"
			case 1:
				sz := []int{0, 1, 31, 32, 127, 128, 129, 1000}[r.IntN(8)]
				h, hd = constHasher("c", byte(r.IntN(256)), sz), fmt.Sprintf("const-hasher-%d", sz)
			case 2:
				h, hd = hash.NewSHA2_256(), "sha2-256"
			default:
				h = goodH()
			}
			data, dd := bv(r, 20, fx.msg)
			sig, sd := bv(r, len(goodSig), goodSig)
			if r.IntN(2) == 0 {
				desc := fmt.Sprintf("key=%d,data=%s,%s", ki, dd, hd)
				return c09cmd{"PrivateKey.Sign", desc, func() string {
					_, err := sk.Sign(data, h)
					if !errIn(err, crypto.IsNilHasherError, crypto.IsInvalidHasherSizeError) {
						return bad("Sign", desc, "undocumented error: "+err.Error())
					}
					return ""
				}}
			}
			desc := fmt.Sprintf("key=%d,sig=%s(%d),data=%s,%s", ki, sd, len(sig), dd, hd)
			return c09cmd{"PublicKey.Verify", desc, func() string {
				ok, err := sk.PublicKey().Verify(sig, data, h)
				if !errIn(err, crypto.IsNilHasherError, crypto.IsInvalidHasherSizeError) || (err != nil && ok) {
					return bad("Verify", desc, fmt.Sprintf("(%v,%v)", ok, err))
				}
				if ki != 0 {
					if _, e := crypto.SignatureFormatCheck(sk.Algorithm(), sig); e != nil {
						return bad("SignatureFormatCheck", desc, e.Error())
					}
				}
				return ""
			}}
		}},
		{"format-check", fixedN(300, 5000), func(r *rand.Rand, i int) c09cmd {
			alg := c09Algos[r.IntN(len(c09Algos))]
			sig, sd := bv(r, 64, fx.ecSig[0])
			desc := fmt.Sprintf("algo=%d,%s", int(alg), sd)
			return c09cmd{"SignatureFormatCheck", desc, func() string {
				_, err := crypto.SignatureFormatCheck(alg, sig)
				if !errIn(err, crypto.IsInvalidInputsError) {
					return bad("SignatureFormatCheck", desc, err.Error())
				}
				return ""
			}}
		}},
		{"pop-spock", fixedN(7000, 100000), func(r *rand.Rand, i int) c09cmd {
			sig, sd := bv(r, 48, fx.blsSig)
			sig2, sd2 := bv(r, 48, fx.blsSig)
			keys := []crypto.PublicKey{fx.blsPk, fx.ecSk[0].PublicKey(), fx.ecSk[1].PublicKey(), crypto.IdentityBLSPublicKey()}
			pk1, pk2 := keys[r.IntN(4)], keys[r.IntN(4)]
			sks := []crypto.PrivateKey{fx.blsSk, fx.ecSk[0], fx.ecSk[1]}
			skx := sks[r.IntN(3)]
			data, _ := bv(r, 10, fx.msg)
			var h hash.Hasher = fx.kmac
			if r.IntN(5) == 0 {
				h = nil
			}
			switch r.IntN(5) {
			case 0:
				desc := fmt.Sprintf("pop=%s", sd)
				return c09cmd{"BLSVerifyPOP", desc, func() string {
					_, err := crypto.BLSVerifyPOP(pk1, sig)
					if !errIn(err, crypto.IsNotBLSKeyError) {
						return bad("BLSVerifyPOP", desc, err.Error())
					}
					return ""
				}}
			case 1:
				return c09cmd{"BLSGeneratePOP", "", func() string {
					_, err := crypto.BLSGeneratePOP(skx)
					if !errIn(err, crypto.IsNotBLSKeyError) {
						return bad("BLSGeneratePOP", "", err.Error())
					}
					return ""
				}}
			case 2:
				desc := fmt.Sprintf("p1=%s,p2=%s", sd, sd2)
				return c09cmd{"SPOCKVerify", desc, func() string {
					_, err := crypto.SPOCKVerify(pk1, sig, pk2, sig2)
					if !errIn(err, crypto.IsNotBLSKeyError) {
						return bad("SPOCKVerify", desc, err.Error())
					}
					return ""
				}}
			case 3:
				return c09cmd{"SPOCKProve", "", func() string {
					_, err := crypto.SPOCKProve(skx, data, h)
					if !errIn(err, crypto.IsNotBLSKeyError, crypto.IsNilHasherError, crypto.IsInvalidHasherSizeError) {
						return bad("SPOCKProve", "", err.Error())
					}
					return ""
				}}
			default:
				desc := fmt.Sprintf("proof=%s", sd)
				return c09cmd{"SPOCKVerifyAgainstData", desc, func() string {
					_, err := crypto.SPOCKVerifyAgainstData(pk1, sig, data, h)
					if !errIn(err, crypto.IsNotBLSKeyError, crypto.IsNilHasherError, crypto.IsInvalidHasherSizeError) {
						return bad("SPOCKVerifyAgainstData", desc, err.Error())
					}
					return ""
				}}
			}
		}},
		{"aggregation", fixedN(10000, 150000), func(r *rand.Rand, i int) c09cmd {
			n := []int{0, 0, 1, 2, 3, 5, 17, 200}[r.IntN(8)]
			if i%50 == 0 {
				n = 1000
			}
			sigs := make([]crypto.Signature, n)
			var kinds []string
			for j := range sigs {
				var d string
				sigs[j], d = bv(r, 48, fx.blsSig)
				if j < 4 {
					kinds = append(kinds, d)
				}
			}
			allKeys := []crypto.PublicKey{fx.blsPk, fx.blsPk, fx.thrPks[0], crypto.IdentityBLSPublicKey(), fx.ecSk[0].PublicKey()}
			pks := make([]crypto.PublicKey, []int{0, 1, 2, n, n + 1, 3}[r.IntN(6)])
			for j := range pks {
				pks[j] = allKeys[r.IntN(len(allKeys))]
			}
			allSks := []crypto.PrivateKey{fx.blsSk, fx.thrSks[1], fx.ecSk[1]}
			sks := make([]crypto.PrivateKey, r.IntN(4))
			for j := range sks {
				sks[j] = allSks[r.IntN(3)]
			}
			msgs := make([][]byte, []int{0, 1, len(pks), len(pks) + 1}[r.IntN(4)])
			hs := make([]hash.Hasher, []int{0, 1, len(pks), len(pks), len(msgs)}[r.IntN(5)])
			for j := range msgs {
				msgs[j], _ = bv(r, 5, fx.msg)
			}
			for j := range hs {
				hs[j] = fx.kmac
				if r.IntN(9) == 0 {
					hs[j] = nil
				}
			}
			var h hash.Hasher = fx.kmac
			if r.IntN(6) == 0 {
				h = constHasher("c", 1, 127)
			}
			one, od := bv(r, 48, fx.blsSig)
			desc := fmt.Sprintf("n=%d,pks=%d,msgs=%d,hashers=%d,sig=%s,first=%v", n, len(pks), len(msgs), len(hs), od, kinds)
			switch r.IntN(8) {
			case 0:
				return c09cmd{"AggregateBLSSignatures", desc, func() string {
					_, err := crypto.AggregateBLSSignatures(sigs)
					if !errIn(err, crypto.IsBLSAggregateEmptyListError, crypto.IsInvalidSignatureError) {
						return bad("AggregateBLSSignatures", desc, err.Error())
					}
					return ""
				}}
			case 1:
				return c09cmd{"AggregateBLSPrivateKeys", desc, func() string {
					_, err := crypto.AggregateBLSPrivateKeys(sks)
					if !errIn(err, crypto.IsBLSAggregateEmptyListError, crypto.IsNotBLSKeyError) {
						return bad("AggregateBLSPrivateKeys", desc, err.Error())
					}
					return ""
				}}
			case 2:
				return c09cmd{"AggregateBLSPublicKeys", desc, func() string {
					_, err := crypto.AggregateBLSPublicKeys(pks)
					if !errIn(err, crypto.IsBLSAggregateEmptyListError, crypto.IsNotBLSKeyError) {
						return bad("AggregateBLSPublicKeys", desc, err.Error())
					}
					return ""
				}}
			case 3:
				return c09cmd{"RemoveBLSPublicKeys", desc, func() string {
					_, err := crypto.RemoveBLSPublicKeys(allKeys[r.IntN(len(allKeys))], pks)
					if !errIn(err, crypto.IsNotBLSKeyError) {
						return bad("RemoveBLSPublicKeys", desc, err.Error())
					}
					return ""
				}}
			case 4:
				return c09cmd{"VerifyBLSSignatureOneMessage", desc, func() string {
					ok, err := crypto.VerifyBLSSignatureOneMessage(pks, one, fx.msg, h)
					if !errIn(err, crypto.IsBLSAggregateEmptyListError, crypto.IsNotBLSKeyError, crypto.IsNilHasherError, crypto.IsInvalidHasherSizeError) || (ok && err != nil) {
						return bad("VerifyBLSSignatureOneMessage", desc, fmt.Sprint(ok, err))
					}
					return ""
				}}
			case 5, 6:
				return c09cmd{"VerifyBLSSignatureManyMessages", desc, func() string {
					ok, err := crypto.VerifyBLSSignatureManyMessages(pks, one, msgs, hs)
					if !errIn(err, crypto.IsBLSAggregateEmptyListError, crypto.IsNotBLSKeyError, crypto.IsNilHasherError, crypto.IsInvalidHasherSizeError, crypto.IsInvalidInputsError) || (ok && err != nil) {
						return bad("VerifyBLSSignatureManyMessages", desc, fmt.Sprint(ok, err))
					}
					return ""
				}}
			default:
				return c09cmd{"BatchVerifyBLSSignaturesOneMessage", desc, func() string {
					res, err := crypto.BatchVerifyBLSSignaturesOneMessage(pks, sigs, fx.msg, h)
					if !errIn(err, crypto.IsBLSAggregateEmptyListError, crypto.IsNotBLSKeyError, crypto.IsNilHasherError, crypto.IsInvalidHasherSizeError, crypto.IsInvalidInputsError) {
						return bad("BatchVerifyBLSSignaturesOneMessage", desc, err.Error())
					}
					if err != nil {
						for _, v := range res {
							if v {
								return bad("BatchVerifyBLSSignaturesOneMessage", desc, "true in the result although an error was returned")
							}
						}
					}
					return ""
				}}
			}
		}},
		// well-formed, consistent lists of EVERY size 1..260 (so that the C layer runs to the end of its
		// per-group buffers: a stack/heap switch or a batch boundary at some exact size has nowhere to hide)
		{"list-sizes", fixedN(1120, 8320), func(r *rand.Rand, i int) c09cmd {
			n := 1 + (i/8)%260 // (quick: sizes 1..140, thorough: 1..260 four times)
			pool := c09KeyPool()
			desc := fmt.Sprintf("well-formed lists of size n=%d", n)
			switch i % 8 {
			case 6, 7: // threshold reconstruction from exactly n shares (threshold n-1), stateless / stateful
				k := min(max(n, 2), 254)
				signers := make([]int, k)
				shares := make([]crypto.Signature, k)
				for j := range signers {
					signers[j] = (j*7 + i) % 254
					shares[j] = fx.blsSig
				}
				// distinct signer indices: a stride-7 walk modulo 254 repeats only after 254 steps
				if i%8 == 6 {
					return c09cmd{"BLSReconstructThresholdSignature", fmt.Sprintf("%d shares, threshold %d", k, k-1), func() string {
						_, err := crypto.BLSReconstructThresholdSignature(254, k-1, shares, signers)
						if !errIn(err, crypto.IsInvalidInputsError, crypto.IsDuplicatedSignerError, crypto.IsInvalidSignatureError, crypto.IsNotEnoughSharesError) {
							return bad("BLSReconstructThresholdSignature", desc, err.Error())
						}
						return ""
					}}
				}
				return c09cmd{"ThresholdSignatureInspector(sequence)", fmt.Sprintf("%d shares, threshold %d", k, k-1), func() string {
					pks := make([]crypto.PublicKey, 254)
					for j := range pks {
						pks[j] = pool[j%len(pool)]
					}
					ins, err := crypto.NewBLSThresholdSignatureInspector(pool[0], pks, k-1, fx.msg, "thr")
					if err != nil {
						return bad("NewBLSThresholdSignatureInspector", desc, err.Error())
					}
					for j := range signers {
						_, _ = ins.TrustedAdd(signers[j], shares[j])
					}
					_, err = ins.ThresholdSignature()
					if !errIn(err, crypto.IsInvalidInputsError, crypto.IsInvalidSignatureError, crypto.IsNotEnoughSharesError) {
						return bad("ThresholdSignature", desc, err.Error())
					}
					return ""
				}}
			case 0: // n messages under one key
				pks, msgs, hs := make([]crypto.PublicKey, n), make([][]byte, n), make([]hash.Hasher, n)
				for j := range pks {
					pks[j], msgs[j], hs[j] = fx.blsPk, []byte(fmt.Sprintf("m%d", j)), fx.kmac
				}
				return c09cmd{"VerifyBLSSignatureManyMessages", desc + ", one key", func() string {
					if _, err := crypto.VerifyBLSSignatureManyMessages(pks, fx.blsSig, msgs, hs); err != nil {
						return bad("VerifyBLSSignatureManyMessages", desc, err.Error())
					}
					return ""
				}}
			case 1: // n keys on one message
				pks, msgs, hs := make([]crypto.PublicKey, n), make([][]byte, n), make([]hash.Hasher, n)
				for j := range pks {
					pks[j], msgs[j], hs[j] = pool[j%len(pool)], fx.msg, fx.kmac
				}
				return c09cmd{"VerifyBLSSignatureManyMessages", desc + ", one message", func() string {
					if _, err := crypto.VerifyBLSSignatureManyMessages(pks, fx.blsSig, msgs, hs); err != nil {
						return bad("VerifyBLSSignatureManyMessages", desc, err.Error())
					}
					return ""
				}}
			case 2: // two keys, sizes n and 1; all messages distinct
				pks, msgs, hs := make([]crypto.PublicKey, n+1), make([][]byte, n+1), make([]hash.Hasher, n+1)
				for j := range pks {
					pks[j], msgs[j], hs[j] = pool[0], []byte(fmt.Sprintf("m%d", j)), fx.kmac
				}
				pks[n/2] = pool[1]
				return c09cmd{"VerifyBLSSignatureManyMessages", desc + ", two keys", func() string {
					if _, err := crypto.VerifyBLSSignatureManyMessages(pks, fx.blsSig, msgs, hs); err != nil {
						return bad("VerifyBLSSignatureManyMessages", desc, err.Error())
					}
					return ""
				}}
			case 3:
				sigs := make([]crypto.Signature, n)
				for j := range sigs {
					sigs[j] = fx.blsSig
				}
				return c09cmd{"AggregateBLSSignatures", desc, func() string {
					if _, err := crypto.AggregateBLSSignatures(sigs); err != nil {
						return bad("AggregateBLSSignatures", desc, err.Error())
					}
					return ""
				}}
			case 4:
				pks, sigs := make([]crypto.PublicKey, n), make([]crypto.Signature, n)
				for j := range pks {
					pks[j], sigs[j] = pool[j%len(pool)], fx.blsSig
				}
				return c09cmd{"BatchVerifyBLSSignaturesOneMessage", desc, func() string {
					if _, err := crypto.BatchVerifyBLSSignaturesOneMessage(pks, sigs, fx.msg, fx.kmac); err != nil {
						return bad("BatchVerifyBLSSignaturesOneMessage", desc, err.Error())
					}
					return ""
				}}
			default:
				pks := make([]crypto.PublicKey, n)
				for j := range pks {
					pks[j] = pool[j%len(pool)]
				}
				return c09cmd{"AggregateBLSPublicKeys+Remove+OneMessage", desc, func() string {
					agg, err := crypto.AggregateBLSPublicKeys(pks)
					if err != nil {
						return bad("AggregateBLSPublicKeys", desc, err.Error())
					}
					if _, err := crypto.RemoveBLSPublicKeys(agg, pks[:n/2]); err != nil {
						return bad("RemoveBLSPublicKeys", desc, err.Error())
					}
					if _, err := crypto.VerifyBLSSignatureOneMessage(pks, fx.blsSig, fx.msg, fx.kmac); err != nil {
						return bad("VerifyBLSSignatureOneMessage", desc, err.Error())
					}
					return ""
				}}
			}
		}},
		// well-formed lists made of identity elements in bulk, for every small size: identity signatures,
		// identity keys, key pairs that cancel per message (so that every pairing couple of a window holds a
		// point at infinity), every share the identity
		{"identity-lists", fixedN(360, 1440), func(r *rand.Rand, i int) c09cmd {
			m := 1 + (i/9)%40
			pool, neg := c09KeyPool(), c09NegPool()
			idSig := append([]byte{0xC0}, make([]byte, 47)...)
			idPk := crypto.IdentityBLSPublicKey()
			desc := fmt.Sprintf("identity elements in bulk, size %d, variant %d", m, i%9)
			switch i % 9 {
			case 0, 1, 2: // m messages, each under a cancelling key pair (all of them / all but the last / every other one)
				var pks []crypto.PublicKey
				var msgs [][]byte
				var hs []hash.Hasher
				for j := 0; j < m; j++ {
					mj := []byte(fmt.Sprintf("m%d", j))
					cancel := i%9 == 0 || (i%9 == 1 && j < m-1) || (i%9 == 2 && j%2 == 0)
					if cancel {
						pks = append(pks, pool[j%len(pool)], neg[j%len(pool)])
						msgs = append(msgs, mj, mj)
						hs = append(hs, fx.kmac, fx.kmac)
					} else {
						pks = append(pks, pool[j%len(pool)])
						msgs = append(msgs, mj)
						hs = append(hs, fx.kmac)
					}
				}
				sig := crypto.Signature(idSig)
				if i%2 == 1 {
					sig = fx.blsSig
				}
				return c09cmd{"VerifyBLSSignatureManyMessages", desc + " (cancelling key pairs per message)", func() string {
					if _, err := crypto.VerifyBLSSignatureManyMessages(pks, sig, msgs, hs); err != nil {
						return bad("VerifyBLSSignatureManyMessages", desc, err.Error())
					}
					return ""
				}}
			case 3: // m keys, each used for two messages... and its opposite for the same two (per-key grouping)
				var pks []crypto.PublicKey
				var msgs [][]byte
				var hs []hash.Hasher
				for j := 0; j < m; j++ {
					for k := 0; k < 3; k++ {
						pks = append(pks, pool[0], neg[0])
						mj := []byte(fmt.Sprintf("m%d-%d", j, k))
						msgs = append(msgs, mj, mj)
						hs = append(hs, fx.kmac, fx.kmac)
					}
				}
				return c09cmd{"VerifyBLSSignatureManyMessages", desc + " (one key and its opposite on every message)", func() string {
					if _, err := crypto.VerifyBLSSignatureManyMessages(pks, idSig, msgs, hs); err != nil {
						return bad("VerifyBLSSignatureManyMessages", desc, err.Error())
					}
					return ""
				}}
			case 4:
				pks, sigs := make([]crypto.PublicKey, m), make([]crypto.Signature, m)
				for j := range pks {
					pks[j], sigs[j] = pool[j%len(pool)], idSig
					if j%3 == i%3 {
						pks[j] = idPk
					}
				}
				return c09cmd{"BatchVerifyBLSSignaturesOneMessage", desc, func() string {
					if _, err := crypto.BatchVerifyBLSSignaturesOneMessage(pks, sigs, fx.msg, fx.kmac); err != nil {
						return bad("BatchVerifyBLSSignaturesOneMessage", desc, err.Error())
					}
					return ""
				}}
			case 5:
				sigs, pks := make([]crypto.Signature, m), make([]crypto.PublicKey, m)
				for j := range sigs {
					sigs[j], pks[j] = idSig, idPk
				}
				return c09cmd{"Aggregate(identities)", desc, func() string {
					if _, err := crypto.AggregateBLSSignatures(sigs); err != nil {
						return bad("AggregateBLSSignatures", desc, err.Error())
					}
					agg, err := crypto.AggregateBLSPublicKeys(pks)
					if err != nil {
						return bad("AggregateBLSPublicKeys", desc, err.Error())
					}
					if _, err := crypto.RemoveBLSPublicKeys(agg, pks); err != nil {
						return bad("RemoveBLSPublicKeys", desc, err.Error())
					}
					return ""
				}}
			case 6: // keys that cancel to the identity under one message
				var pks []crypto.PublicKey
				for j := 0; j < m; j++ {
					pks = append(pks, pool[j%len(pool)], neg[j%len(pool)])
				}
				return c09cmd{"VerifyBLSSignatureOneMessage", desc + " (keys cancelling)", func() string {
					if _, err := crypto.VerifyBLSSignatureOneMessage(pks, idSig, fx.msg, fx.kmac); err != nil {
						return bad("VerifyBLSSignatureOneMessage", desc, err.Error())
					}
					return ""
				}}
			default: // every share the identity signature (stateless, stateful)
				k := max(m, 2)
				signers := make([]int, k)
				shares := make([]crypto.Signature, k)
				for j := range signers {
					signers[j], shares[j] = (j*3+i)%254, idSig
				}
				if i%9 == 7 {
					return c09cmd{"BLSReconstructThresholdSignature", desc, func() string {
						if _, err := crypto.BLSReconstructThresholdSignature(254, k-1, shares, signers); err != nil {
							return bad("BLSReconstructThresholdSignature", desc, err.Error())
						}
						return ""
					}}
				}
				return c09cmd{"ThresholdSignatureInspector(sequence)", desc, func() string {
					pks := make([]crypto.PublicKey, 254)
					for j := range pks {
						pks[j] = pool[j%len(pool)]
						if j%2 == 0 {
							pks[j] = idPk
						}
					}
					ins, err := crypto.NewBLSThresholdSignatureInspector(idPk, pks, k-1, fx.msg, "thr")
					if err != nil {
						return bad("NewBLSThresholdSignatureInspector", desc, err.Error())
					}
					for j := range signers {
						_, _ = ins.TrustedAdd(signers[j], shares[j])
						_, _, _ = ins.VerifyAndAdd((signers[j]+1)%254, shares[j])
					}
					_, err = ins.ThresholdSignature()
					if !errIn(err, crypto.IsInvalidInputsError, crypto.IsInvalidSignatureError, crypto.IsNotEnoughSharesError) {
						return bad("ThresholdSignature", desc, err.Error())
					}
					return ""
				}}
			}
		}},
		// very long well-formed lists (tens of thousands of DISTINCT keys and messages in the plain build,
		// thousands under the sanitizers): stack use, recursion depth and scratch space that grow with the
		// list length must stay within what the process has
		{"huge-lists", fixedN(5, 12), func(r *rand.Rand, i int) c09cmd {
			n := []int{30000, 12000, 30000, 20000, 30000, 50000, 50000, 8000, 50000, 40000, 50000, 60000}[i%12]
			if b := os.Getenv("VERIF_C09_BUILD"); b != "" && b != "plain" {
				n /= 10
			}
			desc := fmt.Sprintf("well-formed lists of %d distinct entries", n)
			keys := c09ManyKeys(n)
			switch i % 5 {
			case 0:
				return c09cmd{"VerifyBLSSignatureManyMessages", desc + " (distinct keys, distinct messages)", func() string {
					msgs, hs := make([][]byte, n), make([]hash.Hasher, n)
					for j := range msgs {
						msgs[j], hs[j] = []byte(fmt.Sprintf("huge-%d", j)), fx.kmac
					}
					if _, err := crypto.VerifyBLSSignatureManyMessages(keys, fx.blsSig, msgs, hs); err != nil {
						return bad("VerifyBLSSignatureManyMessages", desc, err.Error())
					}
					return ""
				}}
			case 1:
				return c09cmd{"AggregateBLSSignatures", desc, func() string {
					sigs := make([]crypto.Signature, n)
					for j := range sigs {
						sigs[j] = fx.blsSig
					}
					if _, err := crypto.AggregateBLSSignatures(sigs); err != nil {
						return bad("AggregateBLSSignatures", desc, err.Error())
					}
					return ""
				}}
			case 2:
				return c09cmd{"AggregateBLSPublicKeys+Remove+OneMessage", desc, func() string {
					agg, err := crypto.AggregateBLSPublicKeys(keys)
					if err != nil {
						return bad("AggregateBLSPublicKeys", desc, err.Error())
					}
					if _, err := crypto.RemoveBLSPublicKeys(agg, keys[:n/2]); err != nil {
						return bad("RemoveBLSPublicKeys", desc, err.Error())
					}
					if _, err := crypto.VerifyBLSSignatureOneMessage(keys, fx.blsSig, fx.msg, fx.kmac); err != nil {
						return bad("VerifyBLSSignatureOneMessage", desc, err.Error())
					}
					return ""
				}}
			case 3:
				return c09cmd{"VerifyBLSSignatureManyMessages", desc + " (distinct keys, one message)", func() string {
					msgs, hs := make([][]byte, n), make([]hash.Hasher, n)
					for j := range msgs {
						msgs[j], hs[j] = fx.msg, fx.kmac
					}
					if _, err := crypto.VerifyBLSSignatureManyMessages(keys, fx.blsSig, msgs, hs); err != nil {
						return bad("VerifyBLSSignatureManyMessages", desc, err.Error())
					}
					return ""
				}}
			default:
				m := n / 10
				return c09cmd{"BatchVerifyBLSSignaturesOneMessage", fmt.Sprintf("well-formed lists of %d entries", m), func() string {
					sigs := make([]crypto.Signature, m)
					for j := range sigs {
						sigs[j] = fx.blsSig
					}
					if _, err := crypto.BatchVerifyBLSSignaturesOneMessage(keys[:m], sigs, fx.msg, fx.kmac); err != nil {
						return bad("BatchVerifyBLSSignaturesOneMessage", desc, err.Error())
					}
					return ""
				}}
			}
		}},
		{"threshold", fixedN(16000, 250000), func(r *rand.Rand, i int) c09cmd { return c09Threshold(r, i, fx) }},
		{"dkg", fixedN(14000, 250000), func(r *rand.Rand, i int) c09cmd { return c09DKG(r, i, fx) }},
		{"hash", fixedN(10000, 150000), func(r *rand.Rand, i int) c09cmd { return c09Hash(r, i) }},
		{"random", fixedN(8000, 120000), func(r *rand.Rand, i int) c09cmd { return c09Random(r, i) }},
		{"enum-strings", fixedN(60, 60), func(r *rand.Rand, i int) c09cmd {
			v := i%13 - 2
			if i >= 26 {
				v = []int{math.MaxInt, math.MinInt, 1 << 31, -1 << 31, 255, 256, 1000}[i%7]
			}
			if i%2 == 0 {
				return c09cmd{"SigningAlgorithm.String", fmt.Sprint(v), func() string { _ = crypto.SigningAlgorithm(v).String(); return "" }}
			}
			return c09cmd{"HashingAlgorithm.String", fmt.Sprint(v), func() string { _ = hash.HashingAlgorithm(v).String(); return "" }}
		}},
	}
	return fams
}

func c09Threshold(r *rand.Rand, i int, fx *c09fix) c09cmd {
	bad := func(entry, desc, what string) string { return fmt.Sprintf("%s(%s): %s", entry, desc, what) }
	thrErr := []func(error) bool{crypto.IsInvalidInputsError, crypto.IsNotBLSKeyError, crypto.IsDuplicatedSignerError, crypto.IsNotEnoughSharesError, crypto.IsInvalidSignatureError}
	shareV := func() ([]byte, string) { return bv(r, 48, fx.thrShares[r.IntN(4)]) }
	switch r.IntN(7) {
	case 0: // constructors
		nk := []int{0, 1, 2, 4, 4, 254, 255, 300}[r.IntN(8)]
		keys := make([]crypto.PublicKey, nk)
		for j := range keys {
			keys[j] = fx.thrPks[j%4]
			if r.IntN(40) == 0 {
				keys[j] = fx.ecSk[0].PublicKey()
			}
		}
		th := intv(r, nk)
		me := intv(r, nk)
		gk := []crypto.PublicKey{fx.thrGpk, fx.thrGpk, fx.ecSk[1].PublicKey(), crypto.IdentityBLSPublicKey()}[r.IntN(4)]
		sk := []crypto.PrivateKey{fx.thrSks[0], fx.thrSks[1], fx.ecSk[0], fx.blsSk}[r.IntN(4)]
		msg, _ := bv(r, 8, fx.msg)
		desc := fmt.Sprintf("keys=%d,threshold=%d,myIndex=%d", nk, th, me)
		if r.IntN(2) == 0 {
			return c09cmd{"NewBLSThresholdSignatureInspector", desc, func() string {
				_, err := crypto.NewBLSThresholdSignatureInspector(gk, keys, th, msg, "tag")
				if !errIn(err, thrErr...) {
					return bad("NewBLSThresholdSignatureInspector", desc, err.Error())
				}
				return ""
			}}
		}
		return c09cmd{"NewBLSThresholdSignatureParticipant", desc, func() string {
			_, err := crypto.NewBLSThresholdSignatureParticipant(gk, keys, th, me, sk, msg, "tag")
			if !errIn(err, thrErr...) {
				return bad("NewBLSThresholdSignatureParticipant", desc, err.Error())
			}
			return ""
		}}
	case 1, 2: // a sequence of inspector calls
		type op struct {
			kind  int
			idx   int
			share []byte
			sd    string
		}
		ops := make([]op, 1+r.IntN(8))
		var parts []string
		allEmpty := r.IntN(6) == 0
		for j := range ops {
			o := op{kind: r.IntN(6), idx: intv(r, 4)}
			if r.IntN(3) != 0 {
				o.idx = r.IntN(4)
			}
			o.share, o.sd = shareV()
			if allEmpty {
				o.kind, o.idx, o.share, o.sd = 0, j%4, [][]byte{nil, {}}[j%2], "empty"
			}
			ops[j] = o
			parts = append(parts, fmt.Sprintf("%s(%d,%s)", [...]string{"TrustedAdd", "VerifyAndAdd", "VerifyShare", "HasShare", "ThresholdSignature", "VerifyThresholdSignature"}[o.kind], o.idx, o.sd))
		}
		participant := r.IntN(2) == 0
		desc := strings.Join(parts, ";")
		return c09cmd{"ThresholdSignatureInspector(sequence)", desc, func() string {
			var ins crypto.ThresholdSignatureInspector
			var err error
			if participant {
				var p crypto.ThresholdSignatureParticipant
				p, err = crypto.NewBLSThresholdSignatureParticipant(fx.thrGpk, fx.thrPks, 2, 1, fx.thrSks[1], fx.msg, "thr")
				if err == nil {
					if _, e := p.SignShare(); e != nil {
						return bad("SignShare", desc, e.Error())
					}
				}
				ins = p
			} else {
				ins, err = crypto.NewBLSThresholdSignatureInspector(fx.thrGpk, fx.thrPks, 2, fx.msg, "thr")
			}
			if err != nil {
				return bad("constructor", desc, err.Error())
			}
			for _, o := range ops {
				var e error
				switch o.kind {
				case 0:
					_, e = ins.TrustedAdd(o.idx, o.share)
				case 1:
					_, _, e = ins.VerifyAndAdd(o.idx, o.share)
				case 2:
					_, e = ins.VerifyShare(o.idx, o.share)
				case 3:
					_, e = ins.HasShare(o.idx)
				case 4:
					_, e = ins.ThresholdSignature()
				default:
					_, e = ins.VerifyThresholdSignature(o.share)
				}
				if !errIn(e, thrErr...) {
					return bad("inspector", desc, "undocumented error: "+e.Error())
				}
			}
			_ = ins.EnoughShares()
			if _, e := ins.ThresholdSignature(); !errIn(e, thrErr...) {
				return bad("ThresholdSignature", desc, e.Error())
			}
			return ""
		}}
	case 3, 4: // stateless reconstruction
		if r.IntN(4) == 0 {
			// large groups: every argument is well formed (48-byte G1 shares, distinct signers in range),
			// so that the interpolation in the C layer runs with up to 254 shares
			size := []int{129, 130, 200, 253, 254}[r.IntN(5)]
			th := []int{127, 128, 129, size / 2, size - 2, size - 1, 1, 64}[r.IntN(8)]
			if th >= size {
				th = size - 1
			}
			ns := th + 1 + []int{0, 0, 1, 5}[r.IntN(4)]
			if ns > size {
				ns = size
			}
			perm := r.Perm(size)[:ns]
			shares := make([]crypto.Signature, ns)
			for j := range shares {
				shares[j] = fx.thrShares[(j+perm[j])%4]
			}
			useStateful := r.IntN(3) == 0
			desc := fmt.Sprintf("large: size=%d,threshold=%d,shares=%d,stateful=%v,signers=%v", size, th, ns, useStateful, trimInts(perm))
			return c09cmd{"BLSReconstructThresholdSignature", desc, func() string {
				if useStateful {
					pks := make([]crypto.PublicKey, size)
					for j := range pks {
						pks[j] = fx.thrPks[j%4]
					}
					ins, err := crypto.NewBLSThresholdSignatureInspector(fx.thrGpk, pks, th, fx.msg, "thr")
					if err != nil {
						return bad("NewBLSThresholdSignatureInspector", desc, err.Error())
					}
					for j := range shares {
						if _, e := ins.TrustedAdd(perm[j], shares[j]); !errIn(e, thrErr...) {
							return bad("TrustedAdd", desc, e.Error())
						}
					}
					if _, e := ins.ThresholdSignature(); !errIn(e, thrErr...) {
						return bad("ThresholdSignature", desc, e.Error())
					}
					return ""
				}
				_, err := crypto.BLSReconstructThresholdSignature(size, th, shares, perm)
				if !errIn(err, thrErr...) {
					return bad("BLSReconstructThresholdSignature", desc, err.Error())
				}
				return ""
			}}
		}
		size, th := intv(r, 4), intv(r, 3)
		if r.IntN(3) != 0 {
			size, th = 4, 1+r.IntN(3)
		}
		ns := []int{0, 1, 2, 3, 4, 5, 300}[r.IntN(7)]
		shares := make([]crypto.Signature, ns)
		var kinds []string
		emptyAll := r.IntN(5) == 0
		for j := range shares {
			var d string
			shares[j], d = shareV()
			if emptyAll {
				shares[j], d = [][]byte{nil, {}}[j%2], "empty"
			}
			if j < 4 {
				kinds = append(kinds, d)
			}
		}
		signers := make([]int, []int{ns, ns, ns, 0, ns + 1}[r.IntN(5)])
		for j := range signers {
			signers[j] = j % 4
			if r.IntN(6) == 0 {
				signers[j] = intv(r, 4)
			}
		}
		desc := fmt.Sprintf("size=%d,threshold=%d,shares=%d%v,signers=%v", size, th, ns, kinds, trimInts(signers))
		return c09cmd{"BLSReconstructThresholdSignature", desc, func() string {
			_, err := crypto.BLSReconstructThresholdSignature(size, th, shares, signers)
			if !errIn(err, thrErr...) {
				return bad("BLSReconstructThresholdSignature", desc, err.Error())
			}
			return ""
		}}
	case 5:
		th, sn := intv(r, 3), intv(r, 5)
		desc := fmt.Sprintf("threshold=%d,shares=%d", th, sn)
		return c09cmd{"EnoughShares", desc, func() string {
			_, err := crypto.EnoughShares(th, sn)
			if !errIn(err, crypto.IsInvalidInputsError) {
				return bad("EnoughShares", desc, err.Error())
			}
			return ""
		}}
	default:
		size, th := intv(r, 5), intv(r, 4)
		if r.IntN(2) == 0 {
			size, th = 2+r.IntN(8), 1+r.IntN(3)
		}
		seed, sd := bv(r, 32, bytes.Repeat([]byte{1}, 32))
		desc := fmt.Sprintf("size=%d,threshold=%d,seed=%s", size, th, sd)
		return c09cmd{"BLSThresholdKeyGen", desc, func() string {
			_, _, _, err := crypto.BLSThresholdKeyGen(size, th, seed)
			if !errIn(err, crypto.IsInvalidInputsError) {
				return bad("BLSThresholdKeyGen", desc, err.Error())
			}
			return ""
		}}
	}
}

func trimInts(v []int) []int {
	if len(v) > 8 {
		return v[:8]
	}
	return v
}

func c09DKG(r *rand.Rand, i int, fx *c09fix) c09cmd {
	bad := func(entry, desc, what string) string { return fmt.Sprintf("%s(%s): %s", entry, desc, what) }
	proto := r.IntN(3)
	pname := [...]string{"NewFeldmanVSS", "NewFeldmanVSSQual", "NewJointFeldman"}[proto]
	mk := func(size, th, me, dealer int) (crypto.DKGState, error) {
		rp := newRecProc()
		switch proto {
		case 0:
			return crypto.NewFeldmanVSS(size, th, me, rp, dealer)
		case 1:
			return crypto.NewFeldmanVSSQual(size, th, me, rp, dealer)
		default:
			return crypto.NewJointFeldman(size, th, me, rp)
		}
	}
	if r.IntN(6) == 0 { // constructors with hostile integers
		size, th, me, dealer := intv(r, 4), intv(r, 3), intv(r, 4), intv(r, 4)
		desc := fmt.Sprintf("size=%d,threshold=%d,myIndex=%d,dealer=%d", size, th, me, dealer)
		return c09cmd{pname, desc, func() string {
			_, err := mk(size, th, me, dealer)
			if !errIn(err, crypto.IsInvalidInputsError) {
				return bad(pname, desc, err.Error())
			}
			return ""
		}}
	}
	// a random history on one instance
	n, t := 4, 2
	dealer := 1
	me := r.IntN(4) // 1 = the dealer, others participants
	seedLen := r.IntN(41)
	if r.IntN(3) != 0 {
		seedLen = 32
	}
	type step struct {
		kind    int
		idx     int
		payload []byte
	}
	steps := make([]step, 1+r.IntN(30))
	var parts []string
	for j := range steps {
		s := step{kind: r.IntN(8)}
		s.idx = r.IntN(n)
		if r.IntN(8) == 0 {
			s.idx = intv(r, n)
		} else if r.IntN(12) == 0 {
			// out of range but congruent to a legal index modulo 256 / 2^32
			s.idx = []int{me + 256, me - 256, dealer + 256, me + 512, me + 1<<32, r.IntN(n) + 256}[r.IntN(6)]
		}
		switch r.IntN(7) {
		case 0:
			s.payload = fx.vec
		case 1:
			s.payload = fx.share
			if sh, ok := fx.shares[me]; ok {
				s.payload = sh
			}
		case 2:
			// a well-formed answer of the dealer for some complainer j; make the dealer its origin
			// most of the time and let j's complaint follow or precede it
			j := []int{0, 2, 3}[r.IntN(3)]
			s.payload = append([]byte{3, byte(j)}, fx.shares[j][1:]...)
			if r.IntN(4) != 0 {
				s.idx = dealer
			}
		case 3:
			s.payload = []byte{2, byte(r.IntN(6))}
			if r.IntN(2) == 0 {
				s.payload = []byte{2, byte(dealer)}
			}
		case 4:
			s.payload = mon.RandBytes(r, r.IntN(201))
			if len(s.payload) > 0 {
				s.payload[0] = byte(r.IntN(5))
			}
		case 5:
			v := append([]byte{}, [][]byte{fx.vec, fx.share, fx.answ}[r.IntN(3)]...)
			cut := r.IntN(len(v) + 1)
			s.payload = v[:cut]
		default:
			s.payload = nil
		}
		steps[j] = s
		parts = append(parts, fmt.Sprintf("%s[%d,%dB]", [...]string{"HB", "HB", "HP", "HP", "NextTimeout", "ForceDisqualify", "End", "Running"}[s.kind], s.idx, len(s.payload)))
	}
	desc := fmt.Sprintf("me=%d,seed=%dB,%s", me, seedLen, strings.Join(parts, ";"))
	entry := strings.TrimPrefix(pname, "New") + "(history)"
	return c09cmd{entry, desc, func() string {
		inst, err := mk(n, t, me, dealer)
		if err != nil {
			return bad(entry, desc, err.Error())
		}
		okErr := func(e error) bool {
			return errIn(e, crypto.IsInvalidInputsError, crypto.IsDKGInvalidStateTransitionError, crypto.IsDKGFailureError)
		}
		if e := inst.Start(mon.RandBytes(r, seedLen)); !okErr(e) {
			return bad(entry, desc, "Start: "+e.Error())
		}
		for _, s := range steps {
			var e error
			switch s.kind {
			case 0, 1:
				e = inst.HandleBroadcastMsg(s.idx, s.payload)
			case 2, 3:
				e = inst.HandlePrivateMsg(s.idx, s.payload)
			case 4:
				e = inst.NextTimeout()
			case 5:
				e = inst.ForceDisqualify(s.idx)
			case 6:
				_, _, _, e = inst.End()
			default:
				_ = inst.Running()
				_ = inst.Size()
				_ = inst.Threshold()
			}
			if !okErr(e) {
				return bad(entry, desc, "undocumented error: "+e.Error())
			}
			// an index outside [0, n-1] is invalid input in every state: some typed error must come back
			if e == nil && (s.kind <= 3 || s.kind == 5) && (s.idx < 0 || s.idx >= n) {
				return bad(entry, desc, fmt.Sprintf("call %d with the out-of-range index %d returned no error", s.kind, s.idx))
			}
		}
		return ""
	}}
}

func c09Hash(r *rand.Rand, i int) c09cmd {
	bad := func(entry, desc, what string) string { return fmt.Sprintf("%s(%s): %s", entry, desc, what) }
	if r.IntN(3) == 0 {
		kl := []int{0, 1, 15, 16, 17, 163, 164, 1000}[r.IntN(8)]
		var key []byte
		if kl > 0 || r.IntN(2) == 0 {
			key = mon.RandBytes(r, kl)
		}
		cust, _ := bv(r, 10, nil)
		size := []int{-1, math.MinInt, 0, 1, 32, 128, 1000, 1 << 20}[r.IntN(8)]
		data, dd := bv(r, 100, nil)
		desc := fmt.Sprintf("key=%dB,customizer=%dB,size=%d,data=%s", kl, len(cust), size, dd)
		return c09cmd{"NewKMAC_128", desc, func() string {
			h, err := hash.NewKMAC_128(key, cust, size)
			if err != nil {
				return ""
			}
			out := h.ComputeHash(data)
			_, _ = h.Write(data)
			_, _ = h.Write(nil)
			s := h.SumHash()
			h.Reset()
			if len(out) != size || len(s) != size || h.Size() != size {
				return bad("kmac128", desc, "output length differs from the requested size")
			}
			return ""
		}}
	}
	mks := []func() hash.Hasher{hash.NewSHA2_256, hash.NewSHA2_384, hash.NewSHA3_256, hash.NewSHA3_384, hash.NewKeccak_256}
	hi := r.IntN(len(mks))
	nops := 1 + r.IntN(8)
	type op struct {
		k int
		d []byte
	}
	ops := make([]op, nops)
	var parts []string
	for j := range ops {
		d, dd := bv(r, []int{0, 64, 136, 104, 1 << 16}[r.IntN(5)], nil)
		ops[j] = op{r.IntN(5), d}
		parts = append(parts, fmt.Sprintf("%s(%s)", [...]string{"ComputeHash", "Write", "SumHash", "Reset", "one-shot"}[ops[j].k], dd))
	}
	desc := fmt.Sprintf("hasher=%d,%s", hi, strings.Join(parts, ";"))
	return c09cmd{"Hasher(sequence)", desc, func() string {
		h := mks[hi]()
		for _, o := range ops {
			switch o.k {
			case 0:
				if len(h.ComputeHash(o.d)) != h.Size() {
					return bad("ComputeHash", desc, "wrong digest length")
				}
			case 1:
				if n, err := h.Write(o.d); n != len(o.d) || err != nil {
					return bad("Write", desc, fmt.Sprint(n, err))
				}
			case 2:
				// sponge hashers define no Write/SumHash after SumHash without Reset; still must not crash
				_ = h.SumHash()
				h.Reset()
			case 3:
				h.Reset()
			default:
				var o3, o2 [32]byte
				hash.ComputeSHA3_256(&o3, o.d)
				hash.ComputeSHA2_256(&o2, o.d)
			}
		}
		return ""
	}}
}

func c09Random(r *rand.Rand, i int) c09cmd {
	bad := func(entry, desc, what string) string { return fmt.Sprintf("%s(%s): %s", entry, desc, what) }
	switch r.IntN(4) {
	case 0:
		seed, sd := bv(r, 32, nil)
		cust, cd := bv(r, 12, nil)
		desc := fmt.Sprintf("seed=%s,customizer=%s", sd, cd)
		return c09cmd{"NewChacha20PRG", desc, func() string {
			g, err := random.NewChacha20PRG(seed, cust)
			if (err == nil) != (len(seed) == 32 && len(cust) <= 12) {
				return bad("NewChacha20PRG", desc, fmt.Sprintf("error %v does not match the documented length rules", err))
			}
			if err == nil {
				g.Read(nil)
				g.Read(make([]byte, 0))
				_ = g.Store()
			}
			return ""
		}}
	case 1:
		st, sd := bv(r, 52, nil)
		desc := "state=" + sd
		return c09cmd{"RestoreChacha20PRG", desc, func() string {
			g, err := random.RestoreChacha20PRG(st)
			if (err == nil) != (len(st) == 52) {
				return bad("RestoreChacha20PRG", desc, fmt.Sprintf("error %v does not match the documented length rule", err))
			}
			if err == nil {
				// reading past the 32-bit block counter (256 GiB of output) panics inside x/crypto's
				// chacha20; the package documents avoiding the cycle as the caller's responsibility,
				// so a restored state that close to the wrap is not read from
				if blk := binary.LittleEndian.Uint64(st[44:]) / 64 % (1 << 32); blk < 1<<32-8 {
					g.Read(make([]byte, 70))
					_ = g.UintN(10)
				}
			}
			return ""
		}}
	case 2:
		perm := make([]int, r.IntN(9))
		for j := range perm {
			perm[j] = []int{j, r.IntN(10), -1, math.MaxInt, math.MinInt}[r.IntN(5)]
		}
		desc := fmt.Sprint(perm)
		// not in the property's enumeration: a panic here is reported as an observation only
		return c09cmd{"random.EncodePermutation(observation)", desc, func() string { _ = random.EncodePermutation(perm); return "" }}
	default:
		n, m := intv(r, 10), intv(r, 5)
		// documented cost is linear in n: capped (2^20 on a few commands, 2^14 otherwise)
		capN := 1 << 14
		if i%97 == 0 {
			capN = 1 << 20
		}
		if n > capN {
			n = capN
		}
		if m > capN {
			m = capN
		}
		rs := []int{0, 1, 63, 64, 65, 1 << 16}[r.IntN(6)]
		un := []uint64{1, 2, 255, 256, 1 << 32, math.MaxUint64}[r.IntN(6)]
		desc := fmt.Sprintf("n=%d,m=%d,read=%d,uintn=%d", n, m, rs, un)
		seed := mon.RandBytes(r, 32)
		return c09cmd{"Rand(sequence)", desc, func() string {
			g, err := random.NewChacha20PRG(seed, nil)
			if err != nil {
				return bad("NewChacha20PRG", desc, err.Error())
			}
			g.Read(make([]byte, rs))
			if v := g.UintN(un); v >= un {
				return bad("UintN", desc, "out of range")
			}
			p, e := g.Permutation(n)
			if (e != nil) != (n < 0) || (e == nil && len(p) != n) {
				return bad("Permutation", desc, fmt.Sprint(len(p), e))
			}
			sp, e := g.SubPermutation(n, m)
			if (e != nil) != (m < 0 || n < m) || (e == nil && len(sp) != m) {
				return bad("SubPermutation", desc, fmt.Sprint(len(sp), e))
			}
			cnt := 0
			e = g.Shuffle(n, func(i, j int) { cnt++ })
			if (e != nil) != (n < 0) {
				return bad("Shuffle", desc, fmt.Sprint(e))
			}
			e = g.Samples(n, m, func(i, j int) { cnt++ })
			if (e != nil) != (m < 0 || n < m) {
				return bad("Samples", desc, fmt.Sprint(e))
			}
			return ""
		}}
	}
}

// ---- command indexing ----------------------------------------------------------------------

type c09plan struct {
	fams   []c09family
	starts []int
	total  int
	seed   int64
}

func newC09Plan(quick bool, seed int64) *c09plan {
	p := &c09plan{fams: c09Families(), seed: seed}
	for _, f := range p.fams {
		p.starts = append(p.starts, p.total)
		p.total += f.n(quick)
	}
	return p
}

func (p *c09plan) cmd(idx int) c09cmd {
	fi := len(p.fams) - 1
	for fi > 0 && p.starts[fi] > idx {
		fi--
	}
	i := idx - p.starts[fi]
	r := mon.NewRand(p.seed, fmt.Sprintf("c09/%s/%d", p.fams[fi].name, i))
	return p.fams[fi].gen(r, i)
}

// c09Child: verif c09child <tier> <from> <to> <progressFile> <outFile>
func c09Child(args []string) int {
	if len(args) < 5 {
		return 2
	}
	tier := args[0]
	from, _ := strconv.Atoi(args[1])
	to, _ := strconv.Atoi(args[2])
	stride := 1
	if len(args) >= 6 {
		stride, _ = strconv.Atoi(args[5])
	}
	pf, err := os.OpenFile(args[3], os.O_CREATE|os.O_WRONLY, 0o644)
	if err != nil {
		return 3
	}
	run := mon.NewRun("C09", tier)
	plan := newC09Plan(tier != "thorough", run.Seed)
	var buf [8]byte
	for idx := from; idx < to && idx < plan.total; idx += stride {
		c := plan.cmd(idx)
		// log the command before executing it
		binary.LittleEndian.PutUint64(buf[:], uint64(idx))
		_, _ = pf.WriteAt(buf[:], 0)
		var out string
		panicked := run.Guard(c.entry, map[string]any{"index": idx, "entry": c.entry, "args": c.desc}, func() { out = c.run() })
		run.Eval(1)
		run.Count("cmd."+c.entry, 1)
		run.Shape(c.entry)
		if !panicked && out != "" {
			run.Violate("C09:undocumented-outcome:"+c.entry, out, map[string]any{"index": idx, "entry": c.entry, "args": c.desc})
		}
	}
	binary.LittleEndian.PutUint64(buf[:], uint64(1<<62))
	_, _ = pf.WriteAt(buf[:], 0)
	pf.Close()
	if err := os.WriteFile(args[4], run.Export(), 0o644); err != nil {
		return 3
	}
	return 0
}

var asanKind = regexp.MustCompile(`ERROR: AddressSanitizer: ([a-zA-Z0-9-]+)`)
var fatalLine = regexp.MustCompile(`(?m)^fatal error: (.*)$`)

// c09Supervise runs the whole command stream in one build, sharded, restarting past crashes.
func c09Supervise(run *mon.Run, bin, label string, plan *c09plan, extraEnv ...string) {
	if bin == "" {
		run.Inconclusive("no binary for the " + label + " build")
		return
	}
	dir := mon.WorkDir("c09")
	shards := 16
	var wg sync.WaitGroup
	for sh := 0; sh < shards; sh++ {
		wg.Add(1)
		go func(sh int) {
			defer wg.Done()
			defer run.Protect("c09 worker")
			from, to := sh, plan.total // shard sh runs the commands with index = sh mod 16
			restarts := 0
			for from < to {
				prog := filepath.Join(dir, fmt.Sprintf("%s-%d-%d.progress", label, sh, os.Getpid()))
				out := filepath.Join(dir, fmt.Sprintf("%s-%d-%d.json", label, sh, os.Getpid()))
				logf := filepath.Join(dir, fmt.Sprintf("%s-%d-%d.log", label, sh, os.Getpid()))
				_ = os.Remove(prog)
				_ = os.Remove(out)
				ctx, cancel := context.WithTimeout(context.Background(), 45*time.Minute)
				cmd := exec.CommandContext(ctx, bin, "c09child", run.Tier, strconv.Itoa(from), strconv.Itoa(to), prog, out, strconv.Itoa(shards))
				cmd.Env = append(append(os.Environ(), extraEnv...), fmt.Sprintf("VERIF_SEED=%d", run.Seed), "VERIF_C09_BUILD="+label)
				lf, _ := os.Create(logf)
				cmd.Stdout, cmd.Stderr = lf, lf
				// hang detection: the progress index must move
				done := make(chan struct{})
				hung := false
				go func() {
					defer run.Protect("c09 worker")
					last, lastChange := int64(-1), time.Now()
					for {
						select {
						case <-done:
							return
						case <-time.After(2 * time.Second):
						}
						b, err := os.ReadFile(prog)
						cur := int64(-2)
						if err == nil && len(b) >= 8 {
							cur = int64(binary.LittleEndian.Uint64(b))
						}
						if cur != last {
							last, lastChange = cur, time.Now()
						} else if time.Since(lastChange) > 3*time.Minute {
							hung = true
							_ = cmd.Process.Kill()
							return
						}
					}
				}()
				err := cmd.Run()
				close(done)
				cancel()
				lf.Close()
				if b, rerr := os.ReadFile(out); rerr == nil && err == nil {
					_ = run.Merge(b, label)
					_ = os.Remove(prog)
					_ = os.Remove(out)
					_ = os.Remove(logf)
					break
				}
				// abnormal exit: attribute to the last logged command
				idx := -1
				if b, e := os.ReadFile(prog); e == nil && len(b) >= 8 {
					v := binary.LittleEndian.Uint64(b)
					if v < 1<<61 {
						idx = int(v)
					}
				}
				logb, _ := os.ReadFile(logf)
				tail := string(logb)
				if len(tail) > 2500 {
					tail = tail[:1200] + "\n...\n" + tail[len(tail)-1200:]
				}
				if idx < 0 {
					run.Inconclusive(fmt.Sprintf("%s child shard %d died before logging a command: %v: %s", label, sh, err, tail))
					return
				}
				c := plan.cmd(idx)
				kind := "crash"
				switch {
				case hung:
					kind = "hang"
				case asanKind.Match(logb):
					kind = "asan:" + string(asanKind.FindSubmatch(logb)[1])
				case bytes.Contains(logb, []byte("checkptr")):
					kind = "checkptr"
				case fatalLine.Match(logb):
					kind = "fatal:" + strings.Fields(string(fatalLine.FindSubmatch(logb)[1]))[0]
				case bytes.Contains(logb, []byte("DATA RACE")):
					kind = "race"
				}
				keep := filepath.Join(mon.Root(), "replay", "C09")
				_ = os.MkdirAll(keep, 0o755)
				kept := filepath.Join(keep, fmt.Sprintf("crash-%s-%d.log", label, idx))
				_ = os.WriteFile(kept, logb, 0o644)
				run.Violate(fmt.Sprintf("C09:%s:%s", kind, c.entry), fmt.Sprintf("[%s build] process died (%s, %v) while executing command #%d %s(%s)\n%s", label, kind, err, idx, c.entry, c.desc, tail),
					map[string]any{"index": idx, "entry": c.entry, "args": c.desc, "build": label, "log": kept})
				run.Count(label+".fatal-exits", 1)
				from = idx + shards
				restarts++
				if restarts > 40 {
					run.Inconclusive(fmt.Sprintf("%s shard %d: more than 40 crashes, giving up", label, sh))
					return
				}
			}
		}(sh)
	}
	wg.Wait()
	run.Builds = append(run.Builds, label)
}

func c09Canary(run *mon.Run, bin, mode, want string) bool {
	if bin == "" {
		return false
	}
	ctx, cancel := context.WithTimeout(context.Background(), 2*time.Minute)
	defer cancel()
	cmd := exec.CommandContext(ctx, bin, "canary", mode)
	cmd.Env = append(os.Environ(), "GORACE=halt_on_error=1")
	out, _ := cmd.CombinedOutput()
	ok := bytes.Contains(out, []byte(want))
	run.Extra["canary."+mode] = ok
	if !ok {
		run.Inconclusive(fmt.Sprintf("sanitizer canary %q did not fire (expected %q in the output)", mode, want))
	}
	return ok
}

func canaryChild(args []string) int {
	if len(args) < 1 {
		return 2
	}
	switch args[0] {
	case "asan":
		fmt.Println(canary.OverRead(64))
	case "race":
		fmt.Println(canary.Race())
	case "checkptr":
		fmt.Println(canary.CheckPtr())
	}
	return 0
}

// C09: no panic, abort or out-of-bounds access on untrusted input.
func C09(run *mon.Run) {
	run.Rule = "a deterministic command stream (one exported call, or one call sequence on one object, per command) over every exported entry point with byte slices {nil, empty, one short, exact, one long, 10^4, bit-flipped valid}, integers {negative, 0, boundary, 254..256, MinInt/MaxInt}, undefined enum values -2..10, mismatched lists and random DKG message histories; replayed in a plain build (recover + typed-error monitor), an ASan build and a race/checkptr build, each in child processes that log the command index before executing it; shape = (build, entry point)"
	run.Assumptions = []string{"documented exceptions are not driven: UintN(0), nil interfaces/callbacks, typed-nil keys, sizes with linear memory cost beyond 2^20, BLS in a no-cgo build", "ASan sees C accesses and Go-heap red zones; C reads inside a Go allocation's capacity are invisible to it"}
	plan := newC09Plan(run.Quick(), run.Seed)
	run.Extra["commands_per_build"] = plan.total
	c09Supervise(run, os.Getenv("VERIF_BIN"), "plain", plan)
	if c09Canary(run, os.Getenv("VERIF_BIN_ASAN"), "asan", "AddressSanitizer") {
		c09Supervise(run, os.Getenv("VERIF_BIN_ASAN"), "asan", plan, "ASAN_OPTIONS=detect_leaks=0:abort_on_error=0")
	}
	rc := c09Canary(run, os.Getenv("VERIF_BIN_RACE"), "race", "DATA RACE")
	cp := c09Canary(run, os.Getenv("VERIF_BIN_RACE"), "checkptr", "checkptr")
	if rc && cp {
		c09Supervise(run, os.Getenv("VERIF_BIN_RACE"), "race", plan, "GORACE=halt_on_error=1")
	}
	for _, b := range []string{"plain", "asan", "race"} {
		for _, e := range []string{"DecodePrivateKey", "DecodePublicKey", "PublicKey.Verify", "PrivateKey.Sign", "AggregateBLSSignatures", "VerifyBLSSignatureManyMessages", "BatchVerifyBLSSignaturesOneMessage", "BLSReconstructThresholdSignature", "ThresholdSignatureInspector(sequence)", "FeldmanVSSQual(history)", "JointFeldman(history)", "FeldmanVSS(history)", "NewKMAC_128", "Rand(sequence)", "SPOCKVerify"} {
			run.Require(run.Counter(b+".cmd."+e)+run.Counter(b+".fatal-exits") >= 50, fmt.Sprintf("entry point %s ran fewer than 50 commands in the %s build", e, b))
		}
	}
	run.Sample(map[string]any{"example_command": plan.cmd(plan.total/3).entry + "(" + plan.cmd(plan.total/3).desc + ")"})
	run.Sample(map[string]any{"example_command": plan.cmd(plan.total-9000).entry + "(" + trimStr(plan.cmd(plan.total-9000).desc, 300) + ")"})
}

func trimStr(s string, n int) string {
	if len(s) > n {
		return s[:n] + "..."
	}
	return s
}

func init() {
	Registry["C09"] = C09
	Children["c09child"] = c09Child
	Children["canary"] = canaryChild
}
