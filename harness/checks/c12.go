//go:build cgo && !no_cgo

package checks

import (
	"bytes"
	"fmt"
	"math/big"
	"sync"

	"github.com/onflow/crypto"

	"verif/harness/mon"
	"verif/harness/ref"
)

// refBLSKeyGen: draft-irtf-cfrg-bls-signature KeyGen with empty key_info.
func refBLSKeyGen(ikm []byte) *big.Int {
	salt := ref.SHA256([]byte("BLS-SIG-KEYGEN-SALT-"))
	for {
		okm := ref.HKDFSHA256(append(append([]byte{}, ikm...), 0), salt, []byte{0, 48}, 48)
		sk := new(big.Int).Mod(new(big.Int).SetBytes(okm), ref.R)
		if sk.Sign() != 0 {
			return sk
		}
		salt = ref.SHA256(salt)
	}
}

// refECDSAKeyGen: HKDF-SHA256(seed, no salt, no info) to 48 bytes, (okm mod (n-1)) + 1.
func refECDSAKeyGen(c *ref.ECCurve, seed []byte) *big.Int {
	okm := ref.HKDFSHA256(seed, nil, nil, 48)
	d := new(big.Int).SetBytes(okm)
	d.Mod(d, new(big.Int).Sub(c.N, big.NewInt(1)))
	return d.Add(d, big.NewInt(1))
}

// C12: key generation and public-key derivation.
func C12(run *mon.Run) {
	run.Rule = "every seed length 0..300 x content kinds {zeros, 0xff, counter, random} x three algorithms; public keys of generated / decoded / aggregated scalars against reference [d]G; shape = (algorithm, seed length) or (algorithm, scalar kind)"
	run.Assumptions = []string{"reference HKDF-SHA256 over the reference SHA-256 (self-tested on RFC 5869 and against crypto/hkdf)", "BLS public keys compared under the measured coefficient order"}
	r := run.Rand("main")
	cv := measuredConv()
	type algT struct {
		alg crypto.SigningAlgorithm
		ec  *ref.ECCurve
	}
	algs := []algT{{BLS, nil}, {crypto.ECDSAP256, ref.P256}, {crypto.ECDSASecp256k1, ref.Secp256k1}}
	refPub := func(a algT, d *big.Int) []byte {
		if a.ec == nil {
			return ref.EncodeG2(ref.E2.Mul(ref.G2Gen, d), cv)
		}
		return a.ec.EncodeRaw(a.ec.Pub(d))
	}
	nRand := run.Pick(1, 12)
	pubEvery := run.Pick(13, 3)
	var wg sync.WaitGroup
	sem := make(chan struct{}, 16)
	for l := 0; l <= 300; l++ {
		for _, a := range algs {
			wg.Add(1)
			sem <- struct{}{}
			go func(l int, a algT) {
				defer wg.Done()
				defer func() { <-sem }()
				defer run.Protect("c12 worker")
				rr := run.Rand(fmt.Sprintf("len-%d-%d", l, a.alg))
				seeds := [][]byte{make([]byte, l), bytes.Repeat([]byte{0xff}, l), seqBytes(l)}
				if l == 0 {
					seeds = append(seeds, nil)
				}
				for i := 0; i < nRand; i++ {
					seeds = append(seeds, mon.RandBytes(rr, l))
				}
				for si, seed := range seeds {
					rep := map[string]any{"alg": a.alg.String(), "seed": mon.Hex(seed)}
					var sk crypto.PrivateKey
					var err error
					// the seed is the front of a larger caller buffer (nothing behind it may be written)
					arg := seed
					if seed != nil {
						arg = withSpare(seed)
					}
					if run.Guard("GeneratePrivateKey", rep, func() { sk, err = crypto.GeneratePrivateKey(a.alg, arg) }) {
						continue
					}
					run.Eval(1)
					if seed != nil && !spareIntact(arg, seed) {
						run.Violate(fmt.Sprintf("C12:seed-buffer-modified:%s", a.alg), fmt.Sprintf("GeneratePrivateKey changed the caller's seed buffer (seed of %d bytes with spare capacity)", l), rep)
					}
					inRange := l >= 32 && l <= 256
					if !inRange {
						if err == nil || !crypto.IsInvalidInputsError(err) {
							run.Violate(fmt.Sprintf("C12:seed-length-not-refused:%s", a.alg), fmt.Sprintf("seed of %d bytes: key %v, error %v", l, sk != nil, err), rep)
						}
						continue
					}
					if err != nil {
						run.Violate(fmt.Sprintf("C12:valid-seed-refused:%s", a.alg), fmt.Sprintf("seed of %d bytes refused: %v", l, err), rep)
						continue
					}
					var want *big.Int
					if a.ec == nil {
						want = refBLSKeyGen(seed)
					} else {
						want = refECDSAKeyGen(a.ec, seed)
					}
					got := sk.Encode()
					if !bytes.Equal(got, want.FillBytes(make([]byte, 32))) {
						run.Violate(fmt.Sprintf("C12:derivation:%s", a.alg), fmt.Sprintf("GeneratePrivateKey(seed len %d) = %x, documented derivation gives %x", l, got, want.FillBytes(make([]byte, 32))), rep)
						continue
					}
					if want.Sign() == 0 {
						run.Violate("C12:zero-key", "zero key generated", rep)
					}
					// determinism
					sk2, err2 := crypto.GeneratePrivateKey(a.alg, append([]byte{}, seed...))
					run.Eval(1)
					if err2 != nil || !sk2.Equals(sk) || !bytes.Equal(sk2.Encode(), got) {
						run.Violate(fmt.Sprintf("C12:nondeterministic:%s", a.alg), "two calls with the same seed differ", rep)
					}
					// public key: cache stability always; reference value on a sample
					p1, p2, p3 := sk.PublicKey(), sk.PublicKey(), sk.PublicKey()
					if !p1.Equals(p2) || !p2.Equals(p3) || !bytes.Equal(p1.Encode(), p3.Encode()) {
						run.Violate(fmt.Sprintf("C12:public-key-cache:%s", a.alg), "repeated PublicKey() calls differ", rep)
					}
					if (l+si)%pubEvery == 0 {
						run.Eval(1)
						run.Count("reference-public-keys", 1)
						if wp := refPub(a, want); !bytes.Equal(p1.Encode(), wp) {
							run.Violate(fmt.Sprintf("C12:public-key:%s:generated", a.alg), fmt.Sprintf("public key %x, reference [d]G %x", p1.Encode(), wp), rep)
						}
					}
					if l == 32 && si == 3 {
						run.Sample(map[string]any{"alg": a.alg.String(), "seed": mon.Hex(seed), "sk": mon.Hex(got)})
					}
				}
				run.Shape(fmt.Sprintf("%s|len%d", a.alg, l))
				run.Count("lengths-done", 1)
			}(l, a)
		}
	}
	wg.Wait()
	// decoded scalars: 1, 2, n-1, 2^k, leading zero bytes; aggregated BLS keys
	for _, a := range algs {
		n := ref.R
		if a.ec != nil {
			n = a.ec.N
		}
		var ds []*big.Int
		var names []string
		add := func(name string, d *big.Int) { ds = append(ds, d); names = append(names, name) }
		add("one", big.NewInt(1))
		add("two", big.NewInt(2))
		add("n-1", new(big.Int).Sub(n, big.NewInt(1)))
		add("n-2", new(big.Int).Sub(n, big.NewInt(2)))
		for _, k := range []uint{1, 8, 63, 64, 65, 127, 128, 200, 248, 250} {
			add("pow2", new(big.Int).Lsh(big.NewInt(1), k))
		}
		for z := 1; z <= 3; z++ {
			add("leading-zero", new(big.Int).SetBytes(mon.RandBytes(r, 32-z)))
		}
		for i := 0; i < run.Pick(6, 60); i++ {
			add("random", new(big.Int).Mod(new(big.Int).SetBytes(mon.RandBytes(r, 40)), n))
		}
		for i, d := range ds {
			if d.Sign() == 0 {
				continue
			}
			rep := map[string]any{"alg": a.alg.String(), "d": d.Text(16)}
			sk, err := crypto.DecodePrivateKey(a.alg, d.FillBytes(make([]byte, 32)))
			if err != nil {
				run.Violate("C12:decode-valid-scalar:"+a.alg.String(), err.Error(), rep)
				continue
			}
			var pk crypto.PublicKey
			if run.Guard("PublicKey", rep, func() { pk = sk.PublicKey() }) {
				continue
			}
			run.Eval(1)
			run.Count("reference-public-keys", 1)
			if wp := refPub(a, d); !bytes.Equal(pk.Encode(), wp) {
				run.Violate(fmt.Sprintf("C12:public-key:%s:%s", a.alg, names[i]), fmt.Sprintf("public key of d=%s is %x, reference %x", d.Text(16), pk.Encode(), wp), rep)
			}
			if !pk.Equals(sk.PublicKey()) || !sk.PublicKey().Equals(pk) {
				run.Violate("C12:public-key-cache:"+a.alg.String(), "repeated PublicKey() calls are not Equal", rep)
			}
			// the compressed form of ECDSA keys agrees with the reference too
			if a.ec != nil && !bytes.Equal(pk.EncodeCompressed(), a.ec.EncodeCompressed(a.ec.Pub(d))) {
				run.Violate("C12:public-key-compressed:"+a.alg.String(), "compressed public key differs from the reference", rep)
			}
			run.Shape(a.alg.String() + "|decoded|" + names[i])
		}
	}
	for i := 0; i < run.Pick(40, 400); i++ {
		n := 2 + r.IntN(5)
		var sks []crypto.PrivateKey
		sum := new(big.Int)
		// which input keys already had PublicKey() called varies (lazy caching must not matter)
		mask := r.IntN(1 << n)
		if i%3 == 0 {
			mask = 1<<(n-1) | r.IntN(1<<(n-1))&^1 // last cached, first not
		}
		// composition of the list: random scalars, or scalars related so that partial sums of the inputs'
		// public keys coincide with the next one (equal keys, a key equal to the sum of the previous ones)
		comp := []string{"random", "random", "duplicate-object", "duplicate-scalar", "sum-of-previous", "opposite-then-more"}[i%6]
		if comp != "random" && i%2 == 0 {
			mask = 1<<n - 1 // every input already has its public key computed
		}
		var ksList []*big.Int
		for j := 0; j < n; j++ {
			k := randScalar(r)
			switch {
			case comp == "duplicate-scalar" && j == 1, comp == "duplicate-object" && j == 1:
				k = ksList[0]
			case comp == "sum-of-previous" && j == n-1:
				k = new(big.Int)
				for _, x := range ksList {
					k = ref.Fr.Add(k, x)
				}
			case comp == "opposite-then-more" && j == 1:
				k = ref.Fr.Neg(ksList[0])
			}
			if k.Sign() == 0 {
				k = big.NewInt(7)
			}
			ksList = append(ksList, k)
			sk := skFromInt(k)
			if comp == "duplicate-object" && j == 1 {
				sk = sks[0]
			}
			if mask&(1<<j) != 0 {
				_ = sk.PublicKey()
			}
			sks = append(sks, sk)
			sum = ref.Fr.Add(sum, k)
		}
		agg, err := crypto.AggregateBLSPrivateKeys(sks)
		if err != nil {
			continue
		}
		run.Eval(1)
		run.Count("reference-public-keys", 1)
		if wp := ref.EncodeG2(ref.E2.Mul(ref.G2Gen, sum), cv); !bytes.Equal(agg.PublicKey().Encode(), wp) || !agg.PublicKey().Equals(agg.PublicKey()) {
			run.Violate("C12:public-key:bls:aggregated", fmt.Sprintf("public key of an aggregated private key differs from [sum]g2 (list composition %s, PublicKey() called beforehand on the inputs of mask %b)", comp, mask), map[string]any{"composition": comp, "mask": mask, "n": n})
		}
		run.Shape("bls|aggregated|" + comp)
		// the aggregated key as an input of further aggregations (its own public key computed before or
		// not, together with fresh keys, with itself, with an earlier aggregate): every level agrees with
		// the reference
		// (deterministically, whatever the mask: every key of both levels with its public key already computed)
		{
			for _, sk := range sks {
				_ = sk.PublicKey()
			}
			if l1, e1 := crypto.AggregateBLSPrivateKeys(sks); e1 == nil && sum.Sign() != 0 {
				_ = l1.PublicKey()
				k2 := randScalar(r)
				o2 := skFromInt(k2)
				_ = o2.PublicKey()
				for li, list := range [][]crypto.PrivateKey{{l1, o2}, {o2, l1}, {l1, o2, l1}} {
					s2 := ref.Fr.Add(sum, k2)
					if li == 2 {
						s2 = ref.Fr.Add(s2, sum)
					}
					l2, e2 := crypto.AggregateBLSPrivateKeys(list)
					if e2 != nil || s2.Sign() == 0 {
						continue
					}
					run.Eval(1)
					if wp := ref.EncodeG2(ref.E2.Mul(ref.G2Gen, s2), cv); !bytes.Equal(l2.PublicKey().Encode(), wp) {
						run.Violate("C12:public-key:bls:aggregated-nested", fmt.Sprintf("two-level aggregation with every public key computed beforehand (list shape %d): public key %x, reference %x", li, l2.PublicKey().Encode(), wp), map[string]any{"composition": comp, "n": n, "all_warm": true})
						break
					}
				}
			}
		}
		level, levelSum := agg, new(big.Int).Set(sum)
		for depth := 1; depth <= 3; depth++ {
			if (mask>>uint(depth))&1 == 1 || comp != "random" {
				_ = level.PublicKey()
			}
			k := randScalar(r)
			other := skFromInt(k)
			if (i+depth)%2 == 0 {
				_ = other.PublicKey()
			}
			list := []crypto.PrivateKey{level, other}
			nsum := ref.Fr.Add(levelSum, k)
			switch (i + depth) % 4 {
			case 1:
				list = []crypto.PrivateKey{other, level}
			case 2:
				list = []crypto.PrivateKey{level, other, level}
				nsum = ref.Fr.Add(nsum, levelSum)
			case 3:
				list = []crypto.PrivateKey{level, agg, other}
				nsum = ref.Fr.Add(nsum, sum)
			}
			next, err := crypto.AggregateBLSPrivateKeys(list)
			if err != nil || nsum.Sign() == 0 {
				break
			}
			run.Eval(1)
			run.Count("reference-public-keys", 1)
			if wp := ref.EncodeG2(ref.E2.Mul(ref.G2Gen, nsum), cv); !bytes.Equal(next.PublicKey().Encode(), wp) || !bytes.Equal(next.Encode(), ref.ScalarBytes(nsum)) {
				run.Violate("C12:public-key:bls:aggregated-nested", fmt.Sprintf("aggregation level %d (an aggregated key aggregated again, list shape %d): private key %x, public key %x, reference scalar %x, reference public key %x", depth+1, (i+depth)%4, next.Encode(), next.PublicKey().Encode(), ref.ScalarBytes(nsum), wp), map[string]any{"composition": comp, "mask": mask, "n": n, "depth": depth + 1})
				break
			}
			level, levelSum = next, nsum
			run.Shape(fmt.Sprintf("bls|aggregated-nested|%d", depth+1))
		}
	}
	// shaped BLS scalars (powers of two and neighbours at limb / window boundaries, half-empty scalars):
	// PublicKey() = [d]g2 by the reference, for each of them
	{
		shaped := shapedScalars(r)
		for i, d := range shaped {
			if run.Quick() && i%4 != int(run.Seed%4+4)%4 && !(d.BitLen() >= 126 && d.BitLen() <= 138) && i < len(shaped)-shapedAlways {
				continue
			}
			wg.Add(1)
			sem <- struct{}{}
			go func(d *big.Int) {
				defer wg.Done()
				defer func() { <-sem }()
				defer run.Protect("c12 worker")
				rep := map[string]any{"alg": "BLS", "d": d.Text(16), "bits": d.BitLen()}
				sk := skFromInt(d)
				var pk crypto.PublicKey
				if run.Guard("PublicKey", rep, func() { pk = sk.PublicKey() }) {
					return
				}
				run.Eval(1)
				run.Count("reference-public-keys", 1)
				if wp := ref.EncodeG2(ref.E2.Mul(ref.G2Gen, d), cv); !bytes.Equal(pk.Encode(), wp) {
					run.Violate("C12:public-key:BLS_BLS12381:shaped-scalar", fmt.Sprintf("public key of the %d-bit scalar %s is %x, reference [d]g2 is %x", d.BitLen(), d.Text(16), pk.Encode(), wp), rep)
				}
				run.Shape(fmt.Sprintf("bls|shaped|%d", d.BitLen()))
			}(d)
		}
		wg.Wait()
	}
	// key generation, decoding and public-key derivation as pure functions under parallel use
	{
		var table []func() []byte
		for _, a := range algs {
			for i := 0; i < 6; i++ {
				seed := mon.RandBytes(r, 32+r.IntN(200))
				alg := a.alg
				table = append(table, func() []byte {
					sk, err := crypto.GeneratePrivateKey(alg, seed)
					if err != nil {
						return []byte("error:" + err.Error())
					}
					return append(sk.Encode(), sk.PublicKey().Encode()...)
				})
				d := new(big.Int).Mod(new(big.Int).SetBytes(mon.RandBytes(r, 40)), ref.P256.N)
				if a.ec == nil {
					d = randScalar(r)
				}
				enc := d.FillBytes(make([]byte, 32))
				if a.ec != nil || i%2 == 0 {
					table = append(table, func() []byte {
						sk, err := crypto.DecodePrivateKey(alg, enc)
						if err != nil {
							return []byte("error:" + err.Error())
						}
						pk := sk.PublicKey()
						return append(pk.Encode(), pk.EncodeCompressed()...)
					})
				}
			}
		}
		calls, diff := parallelReplay(table, run.Pick(600, 10000), uint64(run.Seed))
		run.Eval(int(calls))
		run.Count("parallel-replay.calls", int(calls))
		if diff != "" {
			run.Violate("C12:parallel-use-differs", "GeneratePrivateKey / DecodePrivateKey+PublicKey from 16 goroutines at once: "+diff, nil)
		}
		run.Shape("parallel-replay")
	}
	// unsupported algorithms
	for _, alg := range []crypto.SigningAlgorithm{0, 4, 9, -3} {
		var err error
		if run.Guard("GeneratePrivateKey(undefined algo)", int(alg), func() { _, err = crypto.GeneratePrivateKey(alg, make([]byte, 32)) }) {
			continue
		}
		run.Eval(1)
		if !crypto.IsInvalidInputsError(err) {
			run.Violate("C12:unknown-algo", fmt.Sprintf("GeneratePrivateKey(algo=%d) error %v", int(alg), err), nil)
		}
	}
	run.Require(run.Counter("lengths-done") == 3*301, "not every seed length 0..300 was run for the three algorithms")
	run.Require(run.Counter("reference-public-keys") >= 100, "fewer than 100 reference public keys")
}

func seqBytes(n int) []byte {
	b := make([]byte, n)
	for i := range b {
		b[i] = byte(i)
	}
	return b
}
