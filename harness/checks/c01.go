//go:build cgo && !no_cgo

package checks

import (
	"bytes"
	"fmt"
	"math/big"
	"math/rand/v2"
	"runtime"
	"strings"
	"sync"

	"github.com/onflow/crypto"
	"github.com/onflow/crypto/hash"

	"verif/harness/mon"
	"verif/harness/ref"
)

func c01Hashers() []namedHasher {
	long := string(bytes.Repeat([]byte("long-tag-"), 40))
	mkK := func(tag string) namedHasher {
		return namedHasher{"kmac:" + tag, func() hash.Hasher { return crypto.NewExpandMsgXOFKMAC128(tag) }}
	}
	return []namedHasher{
		mkK(""), mkK("verif-tag"), mkK("A"), mkK(long), mkK("Flow-V00-CS00-with-"),
		{"const00", func() hash.Hasher { return constHasher("const00", 0x00, 128) }},
		{"constFF", func() hash.Hasher { return constHasher("constFF", 0xff, 128) }},
		{"ctr", func() hash.Hasher { return ctrHasher("ctr", false, 128) }},
		{"ctr-hi", func() hash.Hasher { return ctrHasher("ctr-hi", true, 128) }},
		{"ctr-own-buffer", func() hash.Hasher { return ownBufferHasher("ctr-own-buffer", 128) }},
	}
}

type namedKey struct {
	name string
	sk   crypto.PrivateKey
	k    *big.Int
}

func c01Keys(r *rand.Rand, n int) []namedKey {
	rm := func(d int64) *big.Int { return new(big.Int).Sub(ref.R, big.NewInt(d)) }
	ks := []namedKey{}
	addInt := func(name string, k *big.Int) { ks = append(ks, namedKey{name, skFromInt(k), k}) }
	addInt("one", big.NewInt(1))
	addInt("two", big.NewInt(2))
	addInt("r-1", rm(1))
	addInt("r-2", rm(2))
	addInt("small", big.NewInt(int64(3+r.IntN(1000))))
	addInt("pow2", new(big.Int).Lsh(big.NewInt(1), uint(8*(1+r.IntN(30)))))
	for len(ks) < n {
		switch len(ks) % 3 {
		case 0:
			addInt("decoded-random", randScalar(r))
		case 1:
			seed := mon.RandBytes(r, 32+r.IntN(100))
			sk, err := crypto.GeneratePrivateKey(BLS, seed)
			if err != nil {
				panic(err)
			}
			ks = append(ks, namedKey{"generated", sk, skScalar(sk)})
		case 2:
			a, b := randScalar(r), randScalar(r)
			sk, err := crypto.AggregateBLSPrivateKeys([]crypto.PrivateKey{skFromInt(a), skFromInt(b)})
			if err != nil {
				panic(err)
			}
			k := ref.Fr.Add(a, b)
			if k.Sign() == 0 {
				continue
			}
			ks = append(ks, namedKey{"aggregated", sk, k})
		}
	}
	return ks
}

func c01Messages(r *rand.Rand) [][]byte {
	return [][]byte{
		{}, {0x00}, mon.RandBytes(r, 1), mon.RandBytes(r, 127), mon.RandBytes(r, 128), mon.RandBytes(r, 129),
		mon.RandBytes(r, 10000), []byte("the quick brown fox"), mon.RandBytes(r, 32),
	}
}

func identityKeys(r *rand.Rand) []namedPk {
	k := randScalar(r)
	a := skFromInt(k).PublicKey()
	b := skFromInt(ref.Fr.Neg(k)).PublicKey()
	agg, err := crypto.AggregateBLSPublicKeys([]crypto.PublicKey{a, b})
	if err != nil {
		panic(err)
	}
	infEnc := make([]byte, 96)
	infEnc[0] = 0xC0
	dec, err := crypto.DecodePublicKey(BLS, infEnc)
	if err != nil {
		panic(err)
	}
	out := []namedPk{{"identity-const", crypto.IdentityBLSPublicKey()}, {"identity-agg", agg}, {"identity-decoded", dec}}
	// more producers of the identity key: removal that cancels, the compressed decoder, the public key of
	// a zero (aggregated) private key
	if rem, err := crypto.RemoveBLSPublicKeys(a, []crypto.PublicKey{a}); err == nil {
		out = append(out, namedPk{"identity-removed", rem})
	}
	if rem, err := crypto.RemoveBLSPublicKeys(agg, []crypto.PublicKey{crypto.IdentityBLSPublicKey()}); err == nil {
		out = append(out, namedPk{"identity-removed-from-agg", rem})
	}
	if d2, err := crypto.DecodePublicKeyCompressed(BLS, infEnc); err == nil {
		out = append(out, namedPk{"identity-decoded-compressed", d2})
	}
	if z, err := crypto.AggregateBLSPrivateKeys([]crypto.PrivateKey{skFromInt(k), skFromInt(ref.Fr.Neg(k))}); err == nil {
		out = append(out, namedPk{"identity-zero-sk", z.PublicKey()})
	}
	// the same with input key objects whose public keys were already computed (all of them / the last
	// one only), and with three keys: whatever the aggregation pre-computes from cached inputs
	for _, mode := range []string{"all-cached", "last-cached", "three-all-cached"} {
		a1, a2 := skFromInt(k), skFromInt(ref.Fr.Neg(k))
		list := []crypto.PrivateKey{a1, a2}
		if mode == "three-all-cached" {
			k2 := randScalar(r)
			list = []crypto.PrivateKey{skFromInt(k), skFromInt(k2), skFromInt(ref.Fr.Neg(ref.Fr.Add(k, k2)))}
		}
		for i, s := range list {
			if mode != "last-cached" || i == len(list)-1 {
				_ = s.PublicKey()
			}
		}
		if z, err := crypto.AggregateBLSPrivateKeys(list); err == nil {
			out = append(out, namedPk{"identity-zero-sk-" + mode, z.PublicKey()})
		}
	}
	return out
}

type namedPk struct {
	name string
	pk   crypto.PublicKey
}

// verifyExpect calls Verify and compares with the expected verdict.
func verifyExpect(run *mon.Run, id string, pk crypto.PublicKey, c cand, msg []byte, h hash.Hasher, expect bool, ctx string) {
	var ok bool
	var err error
	rep := map[string]any{"ctx": ctx, "candidate": mon.Hex(c.b), "kind": c.kind, "msg": mon.Hex(trunc(msg, 64)), "pk": mon.Hex(pk.Encode())}
	if run.Guard("Verify", rep, func() { ok, err = pk.Verify(c.b, msg, h) }) {
		return
	}
	run.Eval(1)
	cls := "n/a"
	if len(c.b) == 48 {
		cls = sigClass(c.b)
	} else {
		cls = "len"
	}
	run.Count("cand."+c.kind, 1)
	run.Count("class."+cls, 1)
	if ok {
		run.Count("accepted."+c.kind, 1)
	}
	if err != nil {
		run.Violate(fmt.Sprintf("%s:verify-error:%s", id, c.kind), fmt.Sprintf("Verify returned error %v on a %s candidate (%s)", err, c.kind, ctx), rep)
		return
	}
	if ok != expect {
		if expect {
			run.Violate(fmt.Sprintf("%s:rejects-expected:%s", id, ctx), "Verify rejected the reference signature [k]H(m)", rep)
		} else {
			run.Violate(fmt.Sprintf("%s:accepts:%s:%s", id, c.kind, cls), fmt.Sprintf("Verify accepted a %s candidate (reference class %s) that is not [k]H(m) (%s)", c.kind, cls, ctx), rep)
		}
	}
}

func trunc(b []byte, n int) []byte {
	if len(b) > n {
		return b[:n]
	}
	return b
}

// C01: Verify accepts exactly sk*H(m).
func C01(run *mon.Run) {
	run.Rule = "triples (key kind, message length class, hasher) x candidate kinds; a shape is (key kind, hasher, candidate kind, reference class of the candidate); non-trivial = candidate built from the reference point E=[k]H(m) or classified by the reference codec"
	run.Assumptions = []string{
		"H(m) is taken from the library as the signature under sk=1 (validated on-curve and in G1 by the reference); the map from the 128 hasher bytes to G1 is anchored separately on the five RFC 9380 J.9.1 vectors (x, and y for the first) and on the reduction/symmetry/negation relations, not re-implemented",
		"pairing equation decided by known discrete logs: e(s,g2)=e(H,pk) <=> s=[k]H",
	}
	r := run.Rand("main")
	hashers := c01Hashers()
	nTriples := run.Pick(24, 400)
	keys := c01Keys(r, run.Pick(12, 60))
	msgs := c01Messages(r)
	ids := identityKeys(r)

	// hasher error classes
	{
		sk := keys[0].sk
		pk := sk.PublicKey()
		for _, sz := range []int{0, 1, 127, 129, 256} {
			h := constHasher("bad", 1, sz)
			_, err := sk.Sign([]byte("m"), h)
			run.Eval(1)
			if !crypto.IsInvalidHasherSizeError(err) {
				run.Violate("C01:hasher-size-error:sign", fmt.Sprintf("Sign with %d-byte hasher: error %v is not invalidHasherSize", sz, err), map[string]any{"size": sz})
			}
			ok, err := pk.Verify(make([]byte, 48), []byte("m"), h)
			run.Eval(1)
			if ok || !crypto.IsInvalidHasherSizeError(err) {
				run.Violate("C01:hasher-size-error:verify", fmt.Sprintf("Verify with %d-byte hasher: (%v,%v)", sz, ok, err), map[string]any{"size": sz})
			}
		}
		// ... whatever algorithm a hasher of the wrong size says it is; and a 128-byte hasher is usable
		// whatever its label (the image is that of its 128 bytes)
		for _, alg := range []hash.HashingAlgorithm{hash.KMAC128, hash.SHA2_256, hash.SHA3_384, hash.Keccak_256, hash.HashingAlgorithm(-1), hash.HashingAlgorithm(77)} {
			for _, sz := range []int{0, 32, 48, 127, 129} {
				h := newLabelledHasher(alg, sz)
				_, e1 := sk.Sign([]byte("m"), h)
				ok, e2 := pk.Verify(make([]byte, 48), []byte("m"), h)
				run.Eval(2)
				if ok || !crypto.IsInvalidHasherSizeError(e1) || !crypto.IsInvalidHasherSizeError(e2) {
					run.Violate("C01:hasher-size-error:labelled", fmt.Sprintf("%d-byte hasher announcing algorithm %v: Sign error %v, Verify (%v,%v)", sz, alg, e1, ok, e2), map[string]any{"size": sz, "algorithm_label": int(alg)})
				}
			}
			h := newLabelledHasher(alg, 128)
			plain := ctrHasher("labelled", false, 128)
			s1, e1 := sk.Sign([]byte("labelled"), h)
			s2, e2 := sk.Sign([]byte("labelled"), plain)
			ok, e3 := pk.Verify(s1, []byte("labelled"), h)
			run.Eval(3)
			if e1 != nil || e2 != nil || e3 != nil || !ok || !bytes.Equal(s1, s2) {
				run.Violate("C01:labelled-hasher", fmt.Sprintf("a 128-byte hasher announcing algorithm %v: Sign (%x, %v), the same expansion under another label (%x, %v), Verify (%v, %v)", alg, []byte(s1), e1, []byte(s2), e2, ok, e3), map[string]any{"algorithm_label": int(alg)})
			}
		}
		_, err := sk.Sign([]byte("m"), nil)
		if !crypto.IsNilHasherError(err) {
			run.Violate("C01:nil-hasher:sign", fmt.Sprintf("Sign(nil hasher) error %v", err), nil)
		}
		ok, err := pk.Verify(make([]byte, 48), []byte("m"), nil)
		if ok || !crypto.IsNilHasherError(err) {
			run.Violate("C01:nil-hasher:verify", fmt.Sprintf("Verify(nil hasher) (%v,%v)", ok, err), nil)
		}
		run.Eval(2)
		run.Shape("hasher-errors")
	}

	// a hasher that returns the SAME output buffer on every call, used for alternating messages by one
	// goroutine while nothing else runs: whatever the library derives from a digest must not be looked up
	// later through the digest slice itself
	{
		own := ownBufferHasher("ctr-own-buffer", 128)
		plain := crypto.NewExpandMsgXOFKMAC128("after-own-buffer")
		m := [2][]byte{[]byte("own-buffer message one"), []byte("own-buffer message two")}
		for ki := 0; ki < 3; ki++ {
			key := keys[(ki*5)%len(keys)]
			pk := key.sk.PublicKey()
			var E [2][]byte
			okH := true
			for i := range m {
				H, err := hashPoint(m[i], own, "ctr-own-buffer")
				if err != nil {
					okH = false
					break
				}
				E[i] = ref.EncodeG1(ref.E1.Mul(H, key.k))
			}
			Hp, err := hashPoint(m[0], plain, "kmac:after-own-buffer")
			if !okH || err != nil {
				run.Violate("C01:hash-point:own-buffer", "cannot obtain hash points", nil)
				break
			}
			Ep := ref.EncodeG1(ref.E1.Mul(Hp, key.k))
			seq := []struct {
				sig    []byte
				msg    []byte
				h      hash.Hasher
				expect bool
				what   string
			}{
				{E[0], m[0], own, true, "sig1/msg1"}, {E[1], m[1], own, true, "sig2/msg2"}, {E[0], m[1], own, false, "sig1/msg2"},
				{E[1], m[0], own, false, "sig2/msg1"}, {E[0], m[0], own, true, "sig1/msg1"}, {Ep, m[0], plain, true, "plain hasher after the own-buffer hasher"},
				{E[0], m[0], plain, false, "own-buffer signature under the plain hasher"}, {E[1], m[1], own, true, "sig2/msg2"}, {E[1], m[1], own, true, "sig2/msg2 again"}, {E[0], m[1], own, false, "sig1/msg2"},
			}
			for si, c := range seq {
				ok, err := pk.Verify(c.sig, c.msg, c.h)
				run.Eval(1)
				if err != nil || ok != c.expect {
					run.Violate("C01:own-buffer-hasher-sequence", fmt.Sprintf("step %d (%s) of a sequence of verifications through a hasher that reuses its output buffer: Verify = (%v,%v), expected %v (key %s)", si, c.what, ok, err, c.expect, key.name), map[string]any{"step": si, "what": c.what, "k": key.k.Text(16)})
					break
				}
			}
		}
		run.Shape("own-buffer-hasher-sequence")
	}

	type triple struct {
		key namedKey
		msg []byte
		h   namedHasher
		idx int
	}
	var triples []triple
	for i := 0; i < nTriples; i++ {
		triples = append(triples, triple{keys[i%len(keys)], msgs[(i/2)%len(msgs)], hashers[(i*5+i/9)%len(hashers)], i})
	}
	var wg sync.WaitGroup
	sem := make(chan struct{}, 16)
	for ti, t := range triples {
		if ti > 0 && ti <= soloWorkers {
			wg.Wait() // the first workers run alone: their multi-call sequences see no interference through process-wide state
		}
		wg.Add(1)
		sem <- struct{}{}
		go func(t triple) {
			defer wg.Done()
			defer func() { <-sem }()
			defer run.Protect("c01 worker")
			rr := run.Rand(fmt.Sprintf("triple-%d", t.idx))
			h := t.h.mk()
			H, err := hashPoint(t.msg, h, t.h.name)
			if err != nil {
				run.Violate("C01:hash-point:"+t.h.name, err.Error(), map[string]any{"msg": mon.Hex(trunc(t.msg, 64))})
				return
			}
			if H.Inf {
				run.Count("skipped.H-infinity", 1)
				return
			}
			E := ref.E1.Mul(H, t.key.k)
			encE := ref.EncodeG1(E)
			ctx := fmt.Sprintf("key=%s hasher=%s msglen=%d", t.key.name, t.h.name, len(t.msg))
			// Sign must equal the reference
			var sig crypto.Signature
			if run.Guard("Sign", ctx, func() { sig, err = t.key.sk.Sign(t.msg, h) }) {
				return
			}
			run.Eval(1)
			if err != nil || !bytes.Equal(sig, encE) {
				run.Violate("C01:sign-mismatch:"+t.key.name, fmt.Sprintf("Sign returned %x (err %v), reference [k]H(m) is %x (%s)", sig, err, encE, ctx),
					map[string]any{"k": t.key.k.String(), "msg": mon.Hex(trunc(t.msg, 64)), "hasher": t.h.name})
			}
			pk := t.key.sk.PublicKey()
			// arguments that share memory with other caller data: a message with spare capacity, and
			// message and signature back to back in one buffer (both orders)
			{
				ms := withSpare(t.msg)
				s2, e2 := t.key.sk.Sign(ms, h)
				run.Eval(1)
				if e2 != nil || !bytes.Equal(s2, encE) || !spareIntact(ms, t.msg) {
					run.Violate("C01:sign-touches-caller-memory", fmt.Sprintf("Sign of a message slice with spare capacity: signature ok=%v, caller memory intact=%v (%s)", bytes.Equal(s2, encE), spareIntact(ms, t.msg), ctx), map[string]any{"msglen": len(t.msg), "hasher": t.h.name})
				}
				for order := 0; order < 2; order++ {
					var ma, sa []byte
					if order == 0 {
						ma, sa = adjacent(t.msg, encE)
					} else {
						sa, ma = adjacent(encE, t.msg)
					}
					ok, e3 := pk.Verify(sa, ma, h)
					run.Eval(1)
					if e3 != nil || !ok || !bytes.Equal(ma, t.msg) || !bytes.Equal(sa, encE) {
						run.Violate("C01:verify-adjacent-buffers", fmt.Sprintf("Verify with message and signature adjacent in one buffer (order %d): (%v,%v), buffers intact=%v (%s)", order, ok, e3, bytes.Equal(ma, t.msg) && bytes.Equal(sa, encE), ctx), map[string]any{"msglen": len(t.msg), "hasher": t.h.name})
					}
				}
				run.Shape("caller-memory|" + t.h.name)
			}
			pk2, err := crypto.DecodePublicKey(BLS, pk.Encode())
			if err != nil {
				run.Violate("C01:pk-roundtrip", fmt.Sprintf("public key does not decode: %v", err), ctx)
				return
			}
			full := run.Quick() && t.idx < 6 || !run.Quick() && t.idx%8 == 0
			cs := g1Candidates(E, H, rr, run.Pick(40, 60), full)
			// foreign valid signatures
			otherMsg := append(append([]byte{}, t.msg...), 0x01)
			ok1 := ref.Fr.Add(t.key.k, big.NewInt(1))
			if ok1.Sign() == 0 {
				ok1 = big.NewInt(7)
			}
			otherKey := skFromInt(ok1)
			otherTag := crypto.NewExpandMsgXOFKMAC128("other-" + t.h.name)
			for _, f := range []struct {
				kind string
				sk   crypto.PrivateKey
				m    []byte
				h    hash.Hasher
			}{{"other-message", t.key.sk, otherMsg, h}, {"other-key", otherKey, t.msg, h}, {"other-tag", t.key.sk, t.msg, otherTag}} {
				s, err := f.sk.Sign(f.m, f.h)
				if err == nil {
					cs = append(cs, cand{b: s, kind: f.kind})
				}
			}
			// one reused signature buffer and one reused message buffer for a whole candidate series
			{
				var bc []byteCand
				for ci, c := range cs {
					if ci < 24 || ci%7 == 0 {
						bc = append(bc, byteCand{c.b, c.kind})
					}
				}
				msgBuf := append(make([]byte, 0, len(t.msg)+64), t.msg...)
				n := reusedBufferPass(encE, bc, func(sig []byte) (bool, error) { return pk.Verify(sig, msgBuf, h) },
					func(b []byte) bool { return bytes.Equal(b, encE) },
					func(kind, what string, b []byte) {
						run.Violate("C01:reused-buffer:"+kind, fmt.Sprintf("Verify, candidate kind %s, %s (%s)", kind, what, ctx), map[string]any{"ctx": ctx, "candidate": mon.Hex(b), "kind": kind, "msg": mon.Hex(trunc(t.msg, 64)), "pk": mon.Hex(pk.Encode())})
					})
				run.Eval(n)
				// the message buffer now holds another message: the same signature must be rejected, and
				// accepted again once the buffer holds the message again
				other := append([]byte{}, t.msg...)
				if len(other) > 0 {
					other[len(other)-1] ^= 1
				}
				// (only for hashers whose output depends on the message: the constant test hashers do not)
				if len(t.msg) > 0 && !bytes.Equal(h.ComputeHash(other), h.ComputeHash(t.msg)) {
					msgBuf[len(msgBuf)-1] ^= 1
					okA, eA := pk.Verify(encE, msgBuf, h)
					msgBuf[len(msgBuf)-1] ^= 1
					okB, eB := pk.Verify(encE, msgBuf, h)
					run.Eval(2)
					if okA || eA != nil || !okB || eB != nil {
						run.Violate("C01:reused-buffer:message", fmt.Sprintf("Verify with the message in a buffer the caller rewrites: other message (%v,%v), the message again (%v,%v) (%s)", okA, eA, okB, eB, ctx), map[string]any{"ctx": ctx, "msg": mon.Hex(trunc(t.msg, 64))})
					}
				}
			}
			pk3 := jacobianForm(pk, rr)
			for ci, c := range cs {
				usePk := pk
				if ci%3 == 1 {
					usePk = pk2
				} else if ci%3 == 2 {
					usePk = pk3
				}
				expect := bytes.Equal(c.b, encE)
				verifyExpect(run, "C01", usePk, c, t.msg, h, expect, ctx)
				run.Shape(fmt.Sprintf("%s|%s|%s", t.key.name, t.h.name, c.kind))
			}
			// the reference signature must verify under every key object holding the point
			verifyExpect(run, "C01", pk2, cand{b: encE, kind: "E"}, t.msg, h, true, ctx)
			verifyExpect(run, "C01", pk3, cand{b: encE, kind: "E"}, t.msg, h, true, ctx+" jacobian-form-key")
			verifyExpect(run, "C01", pk, cand{b: encE, kind: "E"}, t.msg, h, true, ctx)
			// identity keys: everything is false, including E and the infinity signature
			for _, ik := range ids {
				for ci, c := range cs {
					if ci > 12 && c.kind != "infinity" && c.kind != "flags" && ci%29 != 0 {
						continue
					}
					verifyExpect(run, "C01", ik.pk, c, t.msg, h, false, "identity-key:"+ik.name)
				}
				run.Shape("identity|" + ik.name + "|" + t.h.name)
			}
			if t.idx < 3 {
				run.Sample(map[string]any{"key": t.key.name, "hasher": t.h.name, "msglen": len(t.msg), "E": mon.Hex(encE), "candidates": len(cs)})
			}
			run.Count("triples", 1)
		}(t)
	}
	wg.Wait()
	// shaped private scalars (powers of two and their neighbours, half-empty scalars): Sign must give
	// [k]H(m), and that signature must verify under the key's own public key and under no neighbour's
	{
		shaped := shapedScalars(r)
		h := crypto.NewExpandMsgXOFKMAC128("shaped")
		msg := []byte("shaped scalars")
		H, err := hashPoint(msg, h, "kmac:shaped")
		if err != nil {
			run.Violate("C01:hash-point:shaped", err.Error(), nil)
		} else {
			for i, k := range shaped {
				if run.Quick() && i%3 != int(run.Seed%3+3)%3 && !(k.BitLen() >= 126 && k.BitLen() <= 138) && i < len(shaped)-shapedAlways {
					continue
				}
				wg.Add(1)
				sem <- struct{}{}
				go func(k *big.Int) {
					defer wg.Done()
					defer func() { <-sem }()
					defer run.Protect("c01 worker")
					sk := skFromInt(k)
					rep := map[string]any{"k": k.Text(16), "bits": k.BitLen()}
					var sig crypto.Signature
					var err error
					if run.Guard("Sign", rep, func() { sig, err = sk.Sign(msg, h) }) {
						return
					}
					want := ref.EncodeG1(ref.E1.Mul(H, k))
					run.Eval(1)
					if err != nil || !bytes.Equal(sig, want) {
						run.Violate("C01:sign-mismatch:shaped-scalar", fmt.Sprintf("Sign with the %d-bit private scalar %s returned %x (err %v), [k]H(m) is %x", k.BitLen(), k.Text(16), []byte(sig), err, want), rep)
						return
					}
					verifyExpect(run, "C01", sk.PublicKey(), cand{b: want, kind: "E"}, msg, h, true, "shaped-scalar")
					// the signature of the scalar with the top bit removed must not verify under this key
					low := new(big.Int).SetBit(new(big.Int).Set(k), k.BitLen()-1, 0)
					if low.Sign() != 0 {
						verifyExpect(run, "C01", sk.PublicKey(), cand{b: ref.EncodeG1(ref.E1.Mul(H, low)), kind: "other-key"}, msg, h, false, "shaped-scalar")
					}
					run.Shape(fmt.Sprintf("shaped-scalar|%d", k.BitLen()))
					run.Count("shaped-scalars", 1)
				}(k)
			}
			wg.Wait()
		}
	}
	c01HashToCurve(run, r)
	c01RelatedExpansions(run, r)
	// dedicated hunt for points whose x fits x+p < 2^381, so that the non-reduced
	// encoding of the *accepted* point itself is always tried
	for i := 0; i < run.Pick(3, 20); i++ {
		k := randScalar(r)
		sk := skFromInt(k)
		h := crypto.NewExpandMsgXOFKMAC128("xp-hunt")
		seenSign := [2]bool{} // one such point per value of the sign bit
		for j := 0; j < 400 && !(seenSign[0] && seenSign[1]); j++ {
			msg := []byte(fmt.Sprintf("xp-hunt-%d-%d", i, j))
			H, err := hashPoint(msg, h, "kmac:xp-hunt")
			if err != nil {
				break
			}
			E := ref.E1.Mul(H, k)
			xp := new(big.Int).Add(E.X, ref.P)
			if xp.BitLen() > 381 {
				continue
			}
			enc := ref.EncodeG1(E)
			if seenSign[(enc[0]>>5)&1] {
				continue
			}
			seenSign[(enc[0]>>5)&1] = true
			c := xp.FillBytes(make([]byte, 48))
			c[0] |= enc[0] & 0xE0
			verifyExpect(run, "C01", sk.PublicKey(), cand{b: enc, kind: "E"}, msg, h, true, "xp-hunt")
			verifyExpect(run, "C01", sk.PublicKey(), cand{b: c, kind: "x-plus-p"}, msg, h, false, "xp-hunt")
			run.Count("xp-hunt.hits", 1)
		}
	}
	run.Require(run.Counter("xp-hunt.hits") > 0, "no point with x+p < 2^381 found")
	// the expand_message hasher itself, for every tag length 0..400: KMAC128 keyed with
	// tag || "BLS_SIG_BLS12381G1_XOF:KMAC128_SSWU_RO_POP_", customizer "H2C", 128 bytes (reference
	// KMAC); and tags sharing a long prefix must still separate signatures
	{
		base := mon.RandBytes(r, 400)
		for i := range base {
			base[i] = 'a' + base[i]%26
		}
		msg := []byte("tag-sweep")
		for l := 0; l <= 400; l++ {
			tag := string(base[:l])
			got := crypto.NewExpandMsgXOFKMAC128(tag).ComputeHash(msg)
			want := ref.KMAC128([]byte(tag+sigSuite), msg, 128, []byte("H2C"))
			run.Eval(1)
			if !bytes.Equal(got, want) {
				run.Violate("C01:expand-message-hasher", fmt.Sprintf("NewExpandMsgXOFKMAC128(tag of %d bytes) does not equal KMAC128(tag||suite, customizer H2C, 128 bytes)", l), map[string]any{"tag": tag})
				break
			}
		}
		run.Shape("tag-sweep")
		k := randScalar(r)
		sk := skFromInt(k)
		for _, l := range []int{1, 100, 200, 211, 212, 213, 214, 220, 250, 254, 255, 256, 300, 399} {
			tagA := string(base[:l]) + "A-tail"
			tagB := string(base[:l]) + "B-tail"
			hA, hB := crypto.NewExpandMsgXOFKMAC128(tagA), crypto.NewExpandMsgXOFKMAC128(tagB)
			sig, err := sk.Sign(msg, hA)
			if err != nil {
				continue
			}
			verifyExpect(run, "C01", sk.PublicKey(), cand{b: sig, kind: "E"}, msg, hA, true, fmt.Sprintf("shared-prefix-%d", l))
			verifyExpect(run, "C01", sk.PublicKey(), cand{b: sig, kind: "other-tag"}, msg, hB, false, fmt.Sprintf("shared-prefix-%d", l))
		}
		run.Shape("shared-prefix-tags")
		// tags of equal length with equal CRC-32 (and equal byte sum): two identifiers that a checksum-keyed
		// table cannot tell apart. Requested one after the other, each hasher equals its reference KMAC and
		// a signature under one tag is not one under the other.
		for i := 0; i < run.Pick(6, 30); i++ {
			tagA := []byte(fmt.Sprintf("Flow-%d-colliding-tag-%s", i, string(base[:5+i])))
			tagB := crc32Twin(tagA, 3+i%7)
			for _, order := range [][2][]byte{{tagA, tagB}, {tagB, tagA}} {
				h1 := crypto.NewExpandMsgXOFKMAC128(string(order[0]))
				h2 := crypto.NewExpandMsgXOFKMAC128(string(order[1]))
				run.Eval(2)
				for j, hh := range []hash.Hasher{h1, h2} {
					if want := ref.KMAC128(append(append([]byte{}, order[j]...), sigSuite...), msg, 128, []byte("H2C")); !bytes.Equal(hh.ComputeHash(msg), want) {
						run.Violate("C01:expand-message-hasher:checksum-colliding-tags", fmt.Sprintf("two tags of %d bytes with equal CRC-32, requested one after the other: the hasher for %x does not equal its reference KMAC128", len(tagA), order[j]), map[string]any{"tag_a": mon.Hex(tagA), "tag_b": mon.Hex(tagB)})
					}
				}
				sig, err := sk.Sign(msg, h1)
				if err == nil {
					verifyExpect(run, "C01", sk.PublicKey(), cand{b: sig, kind: "E"}, msg, h1, true, "crc-colliding-tags")
					verifyExpect(run, "C01", sk.PublicKey(), cand{b: sig, kind: "other-tag"}, msg, h2, false, "crc-colliding-tags")
				}
			}
		}
		run.Shape("checksum-colliding-tags")
	}
	// signatures whose x has its top five bits clear: the header byte carries flags only, so
	// flag handling that looks at the whole first byte is exercised on an *accepted* point
	for i := 0; i < run.Pick(2, 12); i++ {
		k := randScalar(r)
		sk := skFromInt(k)
		h := crypto.NewExpandMsgXOFKMAC128("hdr-hunt")
		// (one accepted point with the sign bit set and one with the sign bit clear per key: which flag
		// combination collides with the canonical encoding depends on it)
		seenSign := [2]bool{}
		for j := 0; j < 4000 && !(seenSign[0] && seenSign[1]); j++ {
			msg := []byte(fmt.Sprintf("hdr-hunt-%d-%d", i, j))
			H, err := hashPoint(msg, h, "kmac:hdr-hunt")
			if err != nil {
				break
			}
			E := ref.E1.Mul(H, k)
			enc := ref.EncodeG1(E)
			if enc[0]&0x1F != 0 || seenSign[(enc[0]>>5)&1] {
				continue
			}
			seenSign[(enc[0]>>5)&1] = true
			for f := 0; f < 8; f++ {
				c := append([]byte{}, enc...)
				c[0] = byte(f << 5)
				verifyExpect(run, "C01", sk.PublicKey(), cand{b: c, kind: "flags"}, msg, h, bytes.Equal(c, enc), "hdr-hunt")
			}
			for bit := 0; bit < 384; bit++ {
				c := flipBit(enc, bit)
				verifyExpect(run, "C01", sk.PublicKey(), cand{b: c, kind: "bitflip"}, msg, h, false, "hdr-hunt")
			}
			run.Count("hdr-hunt.hits", 1)
			run.Count(fmt.Sprintf("hdr-hunt.sign-%d", (enc[0]>>5)&1), 1)
		}
	}
	run.Require(run.Counter("hdr-hunt.sign-0") > 0 && run.Counter("hdr-hunt.sign-1") > 0, "no signature with a flags-only header byte found for both values of the sign bit")
	run.Require(run.Counter("triples") >= int64(nTriples*9/10), "fewer triples completed than planned")
	run.Require(run.Counter("accepted.E") >= run.Counter("triples"), "reference signature accepted fewer times than triples")
	for _, k := range []string{"bitflip", "neg", "plus-T3", "plus-T11", "plus-cofactor", "plus-g1", "x-plus-p", "flags", "infinity", "infinity-garbage", "length", "random", "other-message", "other-key", "other-tag"} {
		run.Require(run.Counter("cand."+k) > 0, "candidate kind never generated: "+k)
	}
	for _, k := range []string{"class.on-curve-not-G1", "class.in-G1", "class.range", "class.offcurve", "class.flags", "class.infinity"} {
		run.Require(run.Counter(k) > 0, "reference class never observed: "+k)
	}
}

// expandMessageXMDSHA256 is expand_message_xmd of RFC 9380 (section 5.3.1) over the reference SHA-256.
func expandMessageXMDSHA256(msg, dst []byte, n int) []byte {
	dstPrime := append(append([]byte{}, dst...), byte(len(dst)))
	ell := (n + 31) / 32
	msgPrime := append(make([]byte, 64), msg...)
	msgPrime = append(msgPrime, byte(n>>8), byte(n), 0)
	msgPrime = append(msgPrime, dstPrime...)
	b0 := ref.SHA256(msgPrime)
	bi := ref.SHA256(append(append(append([]byte{}, b0...), 1), dstPrime...))
	out := append([]byte{}, bi...)
	for i := 2; i <= ell; i++ {
		x := make([]byte, 32)
		for k := range x {
			x[k] = b0[k] ^ bi[k]
		}
		bi = ref.SHA256(append(append(x, byte(i)), dstPrime...))
		out = append(out, bi...)
	}
	return out[:n]
}

// c01HashToCurve anchors the map from the 128 hasher bytes to G1, which every other BLS oracle takes
// from the library itself (as the signature under sk = 1):
//   - absolute: the x-coordinates of the five BLS12381G1_XMD:SHA-256_SSWU_RO_ test vectors of RFC 9380
//     (appendix J.9.1), reached through a hasher that returns expand_message_xmd of the message;
//   - structural (RFC 9380 section 5.2/6.6.2): the image depends only on the two 64-byte halves reduced
//     modulo p, is symmetric in the halves, and negating both field elements negates the point.
//
// c01RelatedExpansions: 128-byte hasher outputs that agree on a prefix, a suffix or everywhere but one
// byte, hashed to the curve one right after the other on one OS thread (A, B, unrelated, B, A): the
// image of an output depends on all of its 128 bytes and on nothing that was hashed before. (A memo, a
// comparison of fewer bytes, a truncated copy of the expansion.)
func c01RelatedExpansions(run *mon.Run, r *rand.Rand) {
	runtime.LockOSThread()
	defer runtime.UnlockOSThread()
	cur := make([]byte, 128)
	h := &fixedHasher{name: "related", size: 128, f: func(_ []byte, _ int) []byte { return append([]byte{}, cur...) }}
	sk := skFromInt(randScalar(r))
	pk := sk.PublicKey()
	img := func(u []byte) []byte {
		copy(cur, u)
		sig, err := sk.Sign([]byte("m"), h)
		if err != nil {
			run.Violate("C01:related-expansions:sign-error", err.Error(), map[string]any{"uniform": mon.Hex(u)})
			return nil
		}
		return sig
	}
	type pair struct {
		kind string
		a, b []byte
	}
	var pairs []pair
	for _, k := range []int{1, 4, 8, 15, 16, 17, 31, 32, 47, 48, 63, 64, 65, 96, 112, 120, 126, 127} {
		a := mon.RandBytes(r, 128)
		a[0], a[64] = a[0]&0x0f, a[64]&0x0f // both field elements below p without reduction
		b := append(append([]byte{}, a[:k]...), mon.RandBytes(r, 128-k)...)
		b[64] &= 0x0f
		if bytes.Equal(a, b) { // (the random tail may reproduce a's: the two outputs must differ)
			b[127] ^= 1
		}
		pairs = append(pairs, pair{fmt.Sprintf("common-prefix-%d", k), a, b})
		c := append(mon.RandBytes(r, 128-k), a[128-k:]...)
		c[0], c[64] = c[0]&0x0f, c[64]&0x0f
		if bytes.Equal(a, c) {
			c[0] ^= 1
		}
		pairs = append(pairs, pair{fmt.Sprintf("common-suffix-%d", k), a, c})
		d := append([]byte{}, a...)
		d[k] ^= 1 << uint(k%8)
		pairs = append(pairs, pair{fmt.Sprintf("one-bit-at-byte-%d", k), a, d})
	}
	unrelated := mon.RandBytes(r, 128)
	for _, pr := range pairs {
		rep := map[string]any{"kind": pr.kind, "a": mon.Hex(pr.a), "b": mon.Hex(pr.b)}
		_ = img(unrelated)
		a1 := img(pr.a)
		b1 := img(pr.b) // right after A
		_ = img(unrelated)
		b2 := img(pr.b) // after something unrelated
		a2 := img(pr.a) // right after B
		if a1 == nil || b1 == nil || b2 == nil || a2 == nil {
			continue
		}
		run.Eval(4)
		run.Count("related-expansions", 1)
		if !bytes.Equal(b1, b2) || !bytes.Equal(a1, a2) {
			run.Violate("C01:related-expansions:depends-on-previous-call", fmt.Sprintf("Sign with a hasher output B (%s with the previous output A) gives %x right after A and %x after an unrelated output; A gives %x / %x", pr.kind, b1, b2, a1, a2), rep)
			continue
		}
		if bytes.Equal(a1, b1) {
			run.Violate("C01:related-expansions:distinct-outputs-same-image", fmt.Sprintf("two different 128-byte hasher outputs (%s) are signed to the same signature %x", pr.kind, a1), rep)
			continue
		}
		// and verification: the signature over A is not a signature over B (same order of calls)
		copy(cur, pr.a)
		okA, _ := pk.Verify(a1, []byte("m"), h)
		copy(cur, pr.b)
		okBA, _ := pk.Verify(a1, []byte("m"), h)
		okB, _ := pk.Verify(b1, []byte("m"), h)
		if !okA || !okB || okBA {
			run.Violate("C01:related-expansions:verify", fmt.Sprintf("hasher outputs A, B (%s): Verify(sig_A | A) = %v, Verify(sig_A | B) = %v, Verify(sig_B | B) = %v", pr.kind, okA, okBA, okB), rep)
		}
		run.Shape("related-expansions|" + pr.kind)
	}
}

func c01HashToCurve(run *mon.Run, r *rand.Rand) {
	dst := []byte("QUUX-V01-CS02-with-BLS12381G1_XMD:SHA-256_SSWU_RO_")
	msgs := []string{"", "abc", "abcdef0123456789", "q128_" + strings.Repeat("q", 128), "a512_" + strings.Repeat("a", 512)}
	wantX := []string{
		"052926add2207b76ca4fa57a8734416c8dc95e24501772c814278700eed6d1e4e8cf62d9c09db0fac349612b759e79a1",
		"03567bc5ef9c690c2ab2ecdf6a96ef1c139cc0b2f284dca0a9a7943388a49a3aee664ba5379a7655d3c68900be2f6903",
		"11e0b079dea29a68f0383ee94fed1b940995272407e3bb916bbf268c263ddd57a6a27200a784cbc248e84f357ce82d98",
		"15f68eaa693b95ccb85215dc65fa81038d69629f70aeee0d0f677cf22285e7bf58d7cb86eefe8f2e9bc3f8cb84fac488",
		"082aabae8b7dedb0e78aeb619ad3bfd9277a2f77ba7fad20ef6aabdc6c31d19ba5a6d12283553294c1825c4b3ca2dcfe",
	}
	pointOf := func(uniform []byte) (ref.G1, bool) {
		h := &fixedHasher{name: "uniform", size: 128, f: func(_ []byte, _ int) []byte { return append([]byte{}, uniform...) }}
		sig, err := sk1().Sign([]byte("m"), h)
		if err != nil {
			run.Violate("C01:hash-to-curve:sign-error", err.Error(), map[string]any{"uniform": mon.Hex(uniform)})
			return ref.G1{}, false
		}
		p, cls := ref.DecodeG1(sig)
		if cls != ref.DecOK || !ref.InG1(p) {
			run.Violate("C01:hash-to-curve:not-in-G1", fmt.Sprintf("the image of %x is not a canonical G1 point: %x", uniform, []byte(sig)), map[string]any{"uniform": mon.Hex(uniform)})
			return ref.G1{}, false
		}
		return p, true
	}
	for i, m := range msgs {
		uniform := expandMessageXMDSHA256([]byte(m), dst, 128)
		p, ok := pointOf(uniform)
		if !ok {
			continue
		}
		run.Eval(1)
		got := fmt.Sprintf("%096x", p.X)
		if got != wantX[i] {
			run.Violate("C01:hash-to-curve:rfc9380-vector", fmt.Sprintf("RFC 9380 J.9.1 vector %d (message %q): the library maps expand_message_xmd to a point with x = %s, the RFC gives x = %s", i, m[:min(len(m), 20)], got, wantX[i]), map[string]any{"vector": i})
		}
		if i == 0 {
			// the y-coordinate of the first vector fixes the sign convention (sgn0) as well
			const wantY0 = "08ba738453bfed09cb546dbb0783dbb3a5f1f566ed67bb6be0e8c67e2e81a4cc68ee29813bb7994998f3eae0c9c6a265"
			if gotY := fmt.Sprintf("%096x", p.Y); gotY != wantY0 {
				run.Violate("C01:hash-to-curve:rfc9380-vector-sign", fmt.Sprintf("RFC 9380 J.9.1 vector 0: y = %s, the RFC gives y = %s", gotY, wantY0), map[string]any{"vector": 0})
			}
		}
		run.Shape(fmt.Sprintf("hash-to-curve|rfc-vector-%d", i))
	}
	// structural relations on random inputs
	be := func(v *big.Int) []byte { return v.FillBytes(make([]byte, 64)) }
	for i := 0; i < run.Pick(12, 200); i++ {
		u0 := new(big.Int).Mod(new(big.Int).SetBytes(mon.RandBytes(r, 64)), ref.P)
		u1 := new(big.Int).Mod(new(big.Int).SetBytes(mon.RandBytes(r, 64)), ref.P)
		if i == 0 {
			u0 = big.NewInt(0)
		}
		if i == 1 {
			u1 = new(big.Int).Set(u0)
		}
		base, ok := pointOf(append(be(u0), be(u1)...))
		if !ok {
			return
		}
		rep := map[string]any{"u0": u0.Text(16), "u1": u1.Text(16)}
		// the same residues written non-reduced (u + k*p still fits in 64 bytes for k < 2^130)
		k0 := new(big.Int).Lsh(big.NewInt(1), uint(r.IntN(128)))
		k1 := big.NewInt(int64(1 + r.IntN(1000)))
		nr, ok := pointOf(append(be(new(big.Int).Add(u0, new(big.Int).Mul(k0, ref.P))), be(new(big.Int).Add(u1, new(big.Int).Mul(k1, ref.P)))...))
		run.Eval(3)
		if ok && !ref.E1.Equal(nr, base) {
			run.Violate("C01:hash-to-curve:reduction", "two 128-byte strings whose halves are congruent modulo p map to different points", rep)
		}
		sw, ok := pointOf(append(be(u1), be(u0)...))
		if ok && !ref.E1.Equal(sw, base) {
			run.Violate("C01:hash-to-curve:halves-not-symmetric", "swapping the two 64-byte halves changes the image (the image is the sum of the two mapped field elements)", rep)
		}
		if u0.Sign() == 0 || u1.Sign() == 0 {
			continue // -0 = 0: the relation needs two non-zero field elements
		}
		ng, ok := pointOf(append(be(ref.Fp.Neg(u0)), be(ref.Fp.Neg(u1))...))
		if ok && !ref.E1.Equal(ng, ref.E1.Neg(base)) {
			run.Violate("C01:hash-to-curve:negation", "negating both field elements does not negate the image (the sign of y follows sgn0(u))", rep)
		}
		run.Shape("hash-to-curve|structure")
	}
}
