//go:build cgo && !no_cgo

package checks

import (
	"bytes"
	"fmt"
	"math/big"
	"math/rand/v2"
	"strings"
	"sync"

	"github.com/onflow/crypto"

	"verif/harness/mon"
	"verif/harness/ref"
	"verif/harness/sim"
)

// recProc records the processor callbacks of one instance.
type recProc struct {
	priv   map[int][]byte
	bcast  [][]byte
	events []string
}

func newRecProc() *recProc { return &recProc{priv: map[int][]byte{}} }
func (p *recProc) PrivateSend(dest int, data []byte) {
	p.priv[dest] = append([]byte{}, data...)
	p.events = append(p.events, fmt.Sprintf("priv(%d,%x)", dest, data))
	sim.Scribble(data) // the transport recycles the buffer it was handed
}
func (p *recProc) Broadcast(data []byte) {
	p.bcast = append(p.bcast, append([]byte{}, data...))
	p.events = append(p.events, fmt.Sprintf("bcast(%x)", data))
	sim.Scribble(data)
}
func (p *recProc) Disqualify(i int, log string) {
	p.events = append(p.events, fmt.Sprintf("disqualify(%d)", i))
}
func (p *recProc) FlagMisbehavior(i int, log string) {
	p.events = append(p.events, fmt.Sprintf("flag(%d)", i))
}

type vssCase struct {
	n, t, dealer, me      int
	vKind, sKind          string
	order                 string // sequence over V S v s (lower case = second copy)
	vec, share            []byte // first copies
	vec2, share2          []byte
	vecPoly, vec2Poly     int // polynomial a valid vector commits to (0 honest, 1 alternative), -1 = invalid vector
	sharePoly, share2Poly int // polynomial a well-formed share belongs to, -1 = malformed or on no polynomial
	allHonest             bool
}

var vssVectorKinds = []string{"non-G2-compensated", "valid", "size-1", "size+1", "size-96", "size+96", "empty", "tag-only", "hdr-E0", "hdr-00", "inf-garbage", "x-ge-p", "x-ge-p-2", "no-sqrt", "non-G2", "non-G2-torsion", "bad-last-point", "bad-point-1", "other-polynomial"}
var vssShareKinds = []string{"matching", "plus1", "matches-partial-parse", "empty", "tag-only", "wrong-tag", "short", "long", "zero", "r", "max"}
var vssOrders = []string{"VS", "SV", "VvS", "VSv", "SVv", "VSs", "SsV", "SVs", "VvSs", "SsVv", "V", "S", ""}

// c08PlainVSS: every delivery order x every invalid-vector kind x share kinds.
func c08PlainVSS(run *mon.Run) {
	r := run.Rand("plain-vss")
	cv := measuredConv()
	var wg sync.WaitGroup
	sem := make(chan struct{}, 16)
	type cfg struct{ n, t int }
	cfgs := []cfg{{2, 1}, {3, 1}, {4, 2}, {5, 2}}
	if !run.Quick() {
		cfgs = append(cfgs, cfg{3, 2}, cfg{4, 1}, cfg{4, 3}, cfg{6, 3}, cfg{7, 1}, cfg{7, 6})
	}
	for ci, c := range cfgs {
		// honest dealing material from a real dealer instance
		dealer := ci % c.n
		dp := newRecProc()
		d, err := crypto.NewFeldmanVSS(c.n, c.t, dealer, dp, dealer)
		if err != nil {
			run.Inconclusive("cannot create dealer: " + err.Error())
			return
		}
		if err := d.Start(mon.RandBytes(r, 32)); err != nil || len(dp.bcast) != 1 {
			run.Inconclusive(fmt.Sprintf("dealer Start failed: %v", err))
			return
		}
		ap := newRecProc()
		a, _ := crypto.NewFeldmanVSS(c.n, c.t, dealer, ap, dealer)
		_ = a.Start(mon.RandBytes(r, 32))
		honestVec := dp.bcast[0]
		// the honest dealer itself ends with keys: its private share is P(dealer+1), the group key and the
		// public key shares are those of the vector it broadcast (a second dealer instance serves this so
		// that `d` stays untouched for the cases below)
		{
			dp2 := newRecProc()
			seed2 := mon.RandBytes(r, 32)
			d2, _ := crypto.NewFeldmanVSS(c.n, c.t, dealer, dp2, dealer)
			_ = d2.Start(seed2)
			sk, gpk, pks, endErr := d2.End()
			run.Eval(1)
			rep := map[string]any{"n": c.n, "t": c.t, "dealer": dealer, "seed": mon.Hex(seed2)}
			disq := 0
			for _, ev := range dp2.events {
				if strings.HasPrefix(ev, "disqualify") || strings.HasPrefix(ev, "flag") {
					disq++
				}
			}
			if endErr != nil || disq != 0 {
				run.Violate("C08:plain-vss:honest-dealer-fails", fmt.Sprintf("the dealer of an all-honest plain Feldman VSS run ends with error %v (%d disqualification / misbehaviour callbacks)", endErr, disq), rep)
			} else if len(dp2.bcast) == 1 && len(pks) == c.n {
				vecPts, why := refVector(dp2.bcast[0], c.t, cv)
				if why == "" {
					if want := ref.EncodeG2(vecPts[0], cv); !bytes.Equal(gpk.Encode(), want) {
						run.Violate("C08:plain-vss:honest-dealer-keys", fmt.Sprintf("the dealer's group key %x is not the constant term %x of the vector it broadcast", gpk.Encode(), want), rep)
					}
					if !sk.PublicKey().Equals(pks[dealer]) {
						run.Violate("C08:plain-vss:honest-dealer-keys", "the dealer's private share does not match its own public key share", rep)
					}
					for j := range pks {
						if j != dealer && len(dp2.priv[j]) == 33 {
							if !skFromInt(new(big.Int).SetBytes(dp2.priv[j][1:])).PublicKey().Equals(pks[j]) {
								run.Violate("C08:plain-vss:honest-dealer-keys", fmt.Sprintf("the dealer's public key share %d does not match the private share it sent to participant %d", j, j), rep)
							}
						}
					}
				}
			}
			run.Count("plain-vss.honest-dealer", 1)
		}
		for me := 0; me < c.n; me++ {
			if me == dealer {
				continue
			}
			honestShare := dp.priv[me]
			// a_0 by interpolation when enough shares are known (for the partial-parse share)
			var a0 []byte
			var xs []int64
			var ys []*big.Int
			for j, sh := range dp.priv {
				xs = append(xs, int64(j+1))
				ys = append(ys, new(big.Int).SetBytes(sh[1:]))
			}
			if len(xs) >= c.t+1 {
				a0 = ref.ScalarBytes(ref.InterpolateAt(xs[:c.t+1], ys[:c.t+1], 0))
			}
			helper := &sim.Sim{Sc: sim.Scenario{N: c.n, T: c.t}, R: rand.New(rand.NewPCG(uint64(ci*100+me), 5))}
			for _, vk := range vssVectorKinds {
				for _, sk := range vssShareKinds {
					for _, ord := range vssOrders {
						if run.Quick() && !(vk == "valid" || sk == "matching" || sk == "matches-partial-parse" || ord == "VS" || ord == "SV") && (len(vk)+len(sk)+len(ord)+me)%4 != 0 {
							continue
						}
						vc := vssCase{n: c.n, t: c.t, dealer: dealer, me: me, vKind: vk, sKind: sk, order: ord}
						// vector
						switch vk {
						case "valid":
							vc.vec, vc.vecPoly = honestVec, 0
						case "other-polynomial":
							vc.vec, vc.vecPoly = ap.bcast[0], 1
						case "non-G2-compensated":
							// A_1 += a*T13, A_2 += T13 with a = -(me+1) mod 13: the order-13 component of Q(me+1)
							// vanishes, so the honest share still matches although two points are outside G2
							if c.t < 2 {
								continue
							}
							t13, ok := ref.TorsionE2(13, []byte("c08"))
							p1, c1 := ref.DecodeG2(honestVec[1+96:1+192], cv)
							p2, c2 := ref.DecodeG2(honestVec[1+192:1+288], cv)
							if !ok || c1 != ref.DecOK || c2 != ref.DecOK {
								continue
							}
							a := big.NewInt(int64((13 - (me+1)%13) % 13))
							v := append([]byte{}, honestVec...)
							copy(v[1+96:], ref.EncodeG2(ref.E2.Add(p1, ref.E2.Mul(t13, a)), cv))
							copy(v[1+192:], ref.EncodeG2(ref.E2.Add(p2, t13), cv))
							vc.vec, vc.vecPoly = v, -1
						case "bad-last-point", "bad-point-1":
							v := append([]byte{}, honestVec...)
							idx := c.t
							if vk == "bad-point-1" {
								idx = 1
							}
							v[1+96*idx] = 0xE0
							vc.vec, vc.vecPoly = v, -1
						default:
							vc.vec, vc.vecPoly = helper.MangleVector(honestVec, vk), -1
						}
						// share
						switch sk {
						case "matching":
							vc.share, vc.sharePoly = honestShare, 0
						case "matches-partial-parse":
							if a0 == nil {
								continue
							}
							vc.share, vc.sharePoly = append([]byte{sim.TagShare}, a0...), -1 // a_0 is P(0), not P(me+1)
						default:
							vc.share, vc.sharePoly = helper.MangleShare(honestShare, sk), -1
						}
						vc.vec2, vc.vec2Poly, vc.share2, vc.share2Poly = honestVec, 0, honestShare, 0
						if vk == "valid" {
							vc.vec2, vc.vec2Poly = ap.bcast[0], 1
						}
						vc.allHonest = vk == "valid" && sk == "matching"
						wg.Add(1)
						sem <- struct{}{}
						go func(vc vssCase) {
							defer wg.Done()
							defer func() { <-sem }()
							defer run.Protect("c08 worker")
							c08RunVSS(run, vc, cv)
						}(vc)
					}
				}
			}
		}
	}
	wg.Wait()
}

func c08RunVSS(run *mon.Run, vc vssCase, cv ref.Conv) {
	rep := map[string]any{"n": vc.n, "t": vc.t, "dealer": vc.dealer, "me": vc.me, "vector_kind": vc.vKind, "share_kind": vc.sKind, "order": vc.order,
		"vector": mon.Hex(vc.vec), "share": mon.Hex(vc.share), "vector2": mon.Hex(vc.vec2), "share2": mon.Hex(vc.share2)}
	p := newRecProc()
	inst, err := crypto.NewFeldmanVSS(vc.n, vc.t, vc.me, p, vc.dealer)
	if err != nil {
		return
	}
	var sk crypto.PrivateKey
	var gpk crypto.PublicKey
	var pks []crypto.PublicKey
	var endErr error
	// expectation from what is delivered: the first vector-tagged broadcast and the first private
	// message are the ones that count (later ones are duplicates)
	firstVecPoly, firstSharePoly := -2, -2 // -2 = none delivered
	if run.Guard("plain-vss-sequence", rep, func() {
		_ = inst.Start(nil)
		for _, ch := range vc.order {
			switch ch {
			case 'V', 'v':
				m, poly := vc.vec, vc.vecPoly
				if ch == 'v' {
					m, poly = vc.vec2, vc.vec2Poly
				}
				_ = inst.HandleBroadcastMsg(vc.dealer, m)
				if firstVecPoly == -2 && len(m) > 0 && m[0] == sim.TagVector {
					firstVecPoly = poly
				}
			case 'S', 's':
				m, poly := vc.share, vc.sharePoly
				if ch == 's' {
					m, poly = vc.share2, vc.share2Poly
				}
				_ = inst.HandlePrivateMsg(vc.dealer, m)
				if firstSharePoly == -2 {
					firstSharePoly = poly
				}
			}
		}
		sk, gpk, pks, endErr = inst.End()
	}) {
		return
	}
	run.Eval(1)
	run.Count("plain-vss.cases", 1)
	run.Shape(fmt.Sprintf("plain-vss|%s|%s|%s", vc.vKind, vc.sKind, vc.order))
	mustFail := firstVecPoly < 0 || firstSharePoly < 0 || firstVecPoly != firstSharePoly
	if mustFail {
		run.Count("plain-vss.must-fail", 1)
		if endErr == nil {
			why := "share-mismatch"
			switch {
			case firstVecPoly == -1:
				why = "invalid-vector"
			case firstVecPoly == -2 || firstSharePoly == -2:
				why = "missing-message"
			case firstSharePoly == -1:
				why = "malformed-or-unrelated-share"
			}
			run.Violate(fmt.Sprintf("C08:plain-vss:keys-after-%s", why), fmt.Sprintf("plain Feldman VSS End() returned keys although %s (vector %s, share %s, order %s, n=%d t=%d)", why, vc.vKind, vc.sKind, vc.order, vc.n, vc.t), rep)
		} else if !crypto.IsDKGFailureError(endErr) {
			run.Violate("C08:plain-vss:error-class", fmt.Sprintf("End() error %v is not a DKG failure", endErr), rep)
		}
		return
	}
	if vc.allHonest && (vc.order == "VS" || vc.order == "SV") {
		// sanity: the honest run succeeds with the dealt keys
		if endErr != nil {
			run.Violate("C08:plain-vss:honest-run-fails", fmt.Sprintf("all-honest plain VSS run failed: %v", endErr), rep)
			return
		}
		if !bytes.Equal(sk.Encode(), vc.share[1:]) || !bytes.Equal(gpk.Encode(), vc.vec[1:97]) || len(pks) != vc.n || !sk.PublicKey().Equals(pks[vc.me]) {
			run.Violate("C08:plain-vss:honest-run-keys", "all-honest plain VSS run returned keys that differ from the dealt material", rep)
		}
		run.Count("plain-vss.honest-ok", 1)
	}
	_ = cv
}

// C08: DKG fairness, converse and plain Feldman VSS.
func C08(run *mon.Run) {
	run.Rule = "same seeded scenario stream as C07 judged by (a) fairness over callback events (reporter, target) and (b) the converse oracle whose ground truth is computed by the reference decoders from what was actually delivered; (c) plain Feldman VSS: vector kind x share kind x delivery order grid on a real receiver instance; shape = scenario feature set or (vector kind, share kind, order)"
	run.Assumptions = []string{"delivery model of DESIGN.md A.1", "ground truth fast path: a landed vector byte-equal to the vector a real dealer instance produced is taken to commit to the shares that instance produced (slow reference path on a sample and whenever bytes differ)", "only the implications the property lists are asserted (vector missing/late/malformed, > t complaints, honest complaint unanswered or wrongly answered)"}
	dkgDrive(run, "C08")
	c08PlainVSS(run)
	dkgTorsionKernelVectors(run)
	dkgRootPolynomials(run)
	dkgInfinityThenJunk(run)
	run.Require(run.Counter("must-disqualify") >= 30 && run.Counter("may-qualify") >= 30, "converse oracle saw too few Byzantine dealers in either class")
	run.Require(run.Counter("plain-vss.must-fail") >= 100 && run.Counter("plain-vss.honest-ok") >= 4, "plain VSS grid too small")
	for _, c := range []string{"cause.vector-missing-or-late", "cause.more-than-t-complaints", "cause.complaint-no-answer", "cause.complaint-wrong-answer"} {
		run.Require(run.Counter(c) >= 3, "converse cause seen fewer than 3 times: "+c)
	}
}

func init() { Registry["C08"] = C08 }
