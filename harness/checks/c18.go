//go:build cgo && !no_cgo

package checks

import (
	"bytes"
	"fmt"
	"math/rand/v2"
	"os"
	"path/filepath"
	"regexp"
	"runtime"
	"sort"
	"strings"
	"sync"
	"sync/atomic"
	"time"

	"github.com/anishathalye/porcupine"
	"github.com/onflow/crypto"

	"verif/harness/mon"
	"verif/harness/ref"
)

// ---- sequential model of the stateful threshold object (Appendix B) --------------------------

type thrIn struct {
	Op    string // TrustedAdd, VerifyAndAdd, HasShare, EnoughShares, VerifyShare, VerifyThresholdSignature, SignShare, ThresholdSignature
	Idx   int
	Cls   string // share class: V, W<id>, M<id>, L<id>; for VerifyThresholdSignature: "E" or "X"
	InRng bool
}

type thrOut struct {
	B1, B2 bool
	Err    string // "", invalid-inputs, duplicated-signer, not-enough-shares, invalid-signature, other:...
	Sig    string // "E" group signature, "own" own share, "" none, "other:<hex>"
}

type thrState struct {
	Shares string // sorted "idx:cls;" list
	Cached bool
}

func (s thrState) parse() map[int]string {
	m := map[int]string{}
	for _, p := range strings.Split(s.Shares, ";") {
		if p == "" {
			continue
		}
		var i int
		var c string
		fmt.Sscanf(p, "%d:%s", &i, &c)
		m[i] = c
	}
	return m
}

func mkThrState(m map[int]string, cached bool) thrState {
	var ks []int
	for k := range m {
		ks = append(ks, k)
	}
	sort.Ints(ks)
	var sb strings.Builder
	for _, k := range ks {
		fmt.Fprintf(&sb, "%d:%s;", k, m[k])
	}
	return thrState{sb.String(), cached}
}

func thrModel(t int) porcupine.Model {
	return porcupine.Model{
		Init: func() interface{} { return thrState{} },
		Step: func(st, in, out interface{}) (bool, interface{}) {
			s, i, o := st.(thrState), in.(thrIn), out.(thrOut)
			m := s.parse()
			enough := len(m) == t+1
			_, has := m[i.Idx]
			same := func(ok bool) (bool, interface{}) { return ok, s }
			switch i.Op {
			case "HasShare":
				if !i.InRng {
					return same(!o.B1 && o.Err == "invalid-inputs")
				}
				return same(o.B1 == has && o.Err == "")
			case "EnoughShares":
				return same(o.B1 == enough)
			case "VerifyShare":
				if !i.InRng {
					return same(!o.B1 && o.Err == "invalid-inputs")
				}
				return same(o.B1 == (i.Cls == "V") && o.Err == "")
			case "VerifyThresholdSignature":
				return same(o.B1 == (i.Cls == "E") && o.Err == "")
			case "SignShare":
				return same(o.Sig == "own" && o.Err == "")
			case "TrustedAdd":
				if !i.InRng {
					return same(!o.B1 && o.Err == "invalid-inputs")
				}
				if has {
					// documented: (true, nil) "if enough signature shares were already collected and no error
					// occurred", (false, duplicatedSignerError) if the index was previously added: an error
					// condition takes precedence
					return same(!o.B1 && o.Err == "duplicated-signer")
				}
				if enough {
					return same(o.B1 && o.Err == "")
				}
				m2 := map[int]string{}
				for k, v := range m {
					m2[k] = v
				}
				m2[i.Idx] = i.Cls
				return o.B1 == (len(m2) == t+1) && o.Err == "", mkThrState(m2, s.Cached)
			case "VerifyAndAdd":
				if !i.InRng {
					return same(!o.B1 && !o.B2 && o.Err == "invalid-inputs")
				}
				v := i.Cls == "V"
				if has {
					return same(!o.B1 && !o.B2 && o.Err == "duplicated-signer")
				}
				if !v || enough {
					return same(o.B1 == v && o.B2 == enough && o.Err == "")
				}
				m2 := map[int]string{}
				for k, v := range m {
					m2[k] = v
				}
				m2[i.Idx] = "V"
				return o.B1 && o.B2 == (len(m2) == t+1) && o.Err == "", mkThrState(m2, s.Cached)
			case "ThresholdSignature":
				if s.Cached {
					return same(o.Sig == "E" && o.Err == "")
				}
				if !enough {
					return same(o.Sig == "" && o.Err == "not-enough-shares")
				}
				hasM, hasL, hasW := false, false, false
				for _, c := range m {
					switch c[0] {
					case 'M':
						hasM = true
					case 'L':
						hasL = true
					case 'W':
						hasW = true
					}
				}
				switch {
				case hasM:
					return same(o.Sig == "" && o.Err == "invalid-signature")
				case hasL:
					return same(o.Sig == "" && (o.Err == "invalid-signature" || o.Err == "invalid-inputs"))
				case hasW:
					return same(o.Sig == "" && o.Err == "invalid-inputs")
				}
				return o.Sig == "E" && o.Err == "", thrState{s.Shares, true}
			}
			return false, s
		},
		DescribeOperation: func(in, out interface{}) string { return fmt.Sprintf("%+v -> %+v", in, out) },
		DescribeState:     func(st interface{}) string { return fmt.Sprintf("%+v", st) },
	}
}

func thrErrClass(err error) string {
	switch {
	case err == nil:
		return ""
	case crypto.IsDuplicatedSignerError(err):
		return "duplicated-signer"
	case crypto.IsNotEnoughSharesError(err):
		return "not-enough-shares"
	case crypto.IsInvalidSignatureError(err):
		return "invalid-signature"
	case crypto.IsInvalidInputsError(err):
		return "invalid-inputs"
	default:
		return "other:" + err.Error()
	}
}

type thrPlanned struct {
	in    thrIn
	share []byte
}

type thrRecorded struct {
	client    int
	in        thrIn
	out       thrOut
	call, ret int64
}

// c18History runs one concurrent history and checks it.
// c18Deadlocked: a history of this process has been found deadlocked (no further histories are started).
var c18Deadlocked atomic.Bool

// curGoroutineID returns the id in the header of the calling goroutine's stack trace.
func curGoroutineID() int64 {
	var b [64]byte
	var id int64
	_, _ = fmt.Sscanf(string(b[:runtime.Stack(b[:], false)]), "goroutine %d ", &id)
	return id
}

// c18WaitOrDeadlock waits for the workers of one history. Calls on the object normally take microseconds
// to milliseconds; if the history is still not finished after 20 s, the goroutine stacks decide (not the
// clock): when no operation of this history has started or returned between two looks 3 s apart, and every
// unfinished worker of THIS history (the only goroutines that know the object) is parked on a sync
// primitive inside a method of the threshold object - none is running, none is in a cgo call - the workers
// wait for each other: a deadlock of the object under concurrent use, reported as a violation with the
// stacks. Otherwise it keeps waiting (the child watchdog ends a run that makes no progress for another
// reason: inconclusive).
func c18WaitOrDeadlock(run *mon.Run, wg *sync.WaitGroup, clock *atomic.Int64, hi int, workers *sync.Map) bool {
	done := make(chan struct{})
	go func() { wg.Wait(); close(done) }()
	select {
	case <-done:
		return true
	case <-time.After(20 * time.Second):
	}
	look := func() (unfinished, parked int, mine string) {
		buf := make([]byte, 8<<20)
		buf = buf[:runtime.Stack(buf, true)]
		for _, g := range strings.Split(string(buf), "\n\n") {
			var id int64
			if _, err := fmt.Sscanf(g, "goroutine %d ", &id); err != nil {
				continue
			}
			fin, ok := workers.Load(id)
			if !ok || fin.(bool) {
				continue
			}
			unfinished++
			mine += g + "\n\n"
			head := g
			if i := strings.IndexByte(g, '\n'); i > 0 {
				head = g[:i]
			}
			onLock := strings.Contains(head, "[sync.RWMutex.") || strings.Contains(head, "[sync.Mutex.") || strings.Contains(head, "[semacquire")
			inObject := strings.Contains(g, "crypto.(*blsThresholdSignatureInspector).") || strings.Contains(g, "crypto.(*blsThresholdSignatureParticipant).")
			if onLock && inObject {
				parked++
			}
		}
		return
	}
	for {
		c1 := clock.Load()
		u1, p1, _ := look()
		select {
		case <-done:
			return true
		case <-time.After(3 * time.Second):
		}
		c2 := clock.Load()
		u2, p2, mine := look()
		if c1 == c2 && u1 > 0 && u1 == p1 && u2 == p2 && u1 == u2 {
			if len(mine) > 8000 {
				mine = mine[:8000]
			}
			c18Deadlocked.Store(true)
			run.Violate("C18:deadlock", fmt.Sprintf("history %d: all %d unfinished workers are inside methods of the threshold-signature object, parked on its lock, and no call has started or returned for 3 s: the object deadlocks under concurrent use (these calls never return, so no sequential order of the calls explains the history)", hi, u2), map[string]any{"history": hi, "stacks": mine})
			return false
		}
		select {
		case <-done:
			return true
		case <-time.After(2 * time.Second):
		}
	}
}

func c18History(run *mon.Run, hi int, r *rand.Rand, statesSeen map[thrState]bool, mu *sync.Mutex) {
	nt := [][2]int{{3, 1}, {5, 2}, {7, 3}, {10, 4}}[hi%4]
	n, t := nt[0], nt[1]
	seed := mon.RandBytes(r, 32)
	sks, pks, gpk, err := crypto.BLSThresholdKeyGen(n, t, seed)
	if err != nil {
		run.Inconclusive("keygen: " + err.Error())
		return
	}
	msg := mon.RandBytes(r, 12)
	tag := "c18"
	hk := crypto.NewExpandMsgXOFKMAC128(tag)
	shares := make([][]byte, n)
	for i := range sks {
		shares[i], _ = sks[i].Sign(msg, hk)
	}
	// expected group signature from a sequential run
	E, err := crypto.BLSReconstructThresholdSignature(n, t, toSigs(shares[:t+1]), seqInts(t+1))
	if err != nil {
		run.Inconclusive("sequential reconstruction: " + err.Error())
		return
	}
	me := r.IntN(n)
	participant := hi%2 == 1
	var ins crypto.ThresholdSignatureInspector
	var part crypto.ThresholdSignatureParticipant
	if participant {
		part, err = crypto.NewBLSThresholdSignatureParticipant(gpk, pks, t, me, sks[me], msg, tag)
		ins = part
	} else {
		ins, err = crypto.NewBLSThresholdSignatureInspector(gpk, pks, t, msg, tag)
	}
	if err != nil {
		run.Inconclusive("constructor: " + err.Error())
		return
	}
	// plan: clients x ops, biased toward the EnoughShares boundary
	nClients := 2 + r.IntN(7)
	uid := 0
	mkShare := func(idx int) ([]byte, string) {
		uid++
		switch x := r.IntN(10); {
		case x < 6:
			return shares[idx], "V"
		case x < 7:
			return ref.EncodeG1(ref.E1.Mul(ref.G1Gen, randScalar(r))), fmt.Sprintf("W%d", uid)
		case x < 8:
			b := mon.RandBytes(r, 48)
			b[0] = 0xE0 | b[0]&0x1f // invalid header
			return b, fmt.Sprintf("M%d", uid)
		case x < 9:
			return mon.RandBytes(r, []int{0, 1, 47, 49, 96}[r.IntN(5)]), fmt.Sprintf("L%d", uid)
		default:
			o := (idx + 1) % n
			return shares[o], fmt.Sprintf("W%d", uid) // another signer's valid share
		}
	}
	plans := make([][]thrPlanned, nClients)
	mostlyValid := r.IntN(3) != 0
	for c := range plans {
		for k := 0; k < 3+r.IntN(4); k++ {
			var p thrPlanned
			idx := r.IntN(n)
			inRng := true
			if r.IntN(12) == 0 {
				idx = []int{-1, n, n + 3, 1 << 20}[r.IntN(4)]
				inRng = false
			}
			switch x := r.IntN(20); {
			case x < 6:
				p.in = thrIn{Op: "TrustedAdd", Idx: idx, InRng: inRng}
			case x < 11:
				p.in = thrIn{Op: "VerifyAndAdd", Idx: idx, InRng: inRng}
			case x < 13:
				p.in = thrIn{Op: "HasShare", Idx: idx, InRng: inRng}
			case x < 15:
				p.in = thrIn{Op: "EnoughShares"}
			case x < 16:
				p.in = thrIn{Op: "VerifyShare", Idx: idx, InRng: inRng}
			case x < 17:
				p.in = thrIn{Op: "VerifyThresholdSignature", Cls: "E"}
				p.share = E
				if r.IntN(2) == 0 {
					p.in.Cls, p.share = "X", shares[0]
				}
			case x < 18 && participant:
				p.in = thrIn{Op: "SignShare"}
			default:
				p.in = thrIn{Op: "ThresholdSignature"}
			}
			if p.in.Op == "TrustedAdd" || p.in.Op == "VerifyAndAdd" || p.in.Op == "VerifyShare" {
				sidx := idx
				if !inRng {
					sidx = 0
				}
				p.share, p.in.Cls = mkShare(sidx)
				if mostlyValid && p.in.Cls[0] != 'V' && r.IntN(3) != 0 {
					p.share, p.in.Cls = shares[sidx], "V"
				}
			}
			plans[c] = append(plans[c], p)
		}
	}
	// boundary storms (a third of the histories): t valid shares are added first, then several
	// goroutines race for the last slot while pollers read EnoughShares/HasShare and others call
	// ThresholdSignature repeatedly
	var prefill []thrPlanned
	if hi%3 == 2 {
		order := r.Perm(n)
		for _, idx := range order[:t] {
			prefill = append(prefill, thrPlanned{in: thrIn{Op: "TrustedAdd", Idx: idx, Cls: "V", InRng: true}, share: shares[idx]})
		}
		rest := order[t:]
		nClients = min(len(rest), 2+r.IntN(4)) + 3
		plans = make([][]thrPlanned, nClients)
		for c := 0; c < nClients-3; c++ {
			idx := rest[c%len(rest)]
			op := []string{"TrustedAdd", "VerifyAndAdd"}[r.IntN(2)]
			sh, cls := shares[idx], "V"
			if r.IntN(6) == 0 {
				sh, cls = mkShare(idx)
			}
			plans[c] = []thrPlanned{{in: thrIn{Op: op, Idx: idx, Cls: cls, InRng: true}, share: sh}, {in: thrIn{Op: "EnoughShares"}}, {in: thrIn{Op: "HasShare", Idx: idx, InRng: true}}}
			if r.IntN(2) == 0 {
				plans[c] = append(plans[c], thrPlanned{in: thrIn{Op: "TrustedAdd", Idx: order[r.IntN(t)], Cls: "V", InRng: true}, share: shares[order[0]]})
			}
		}
		for c := nClients - 3; c < nClients-1; c++ {
			for k := 0; k < 5; k++ {
				plans[c] = append(plans[c], thrPlanned{in: thrIn{Op: []string{"EnoughShares", "EnoughShares", "HasShare"}[r.IntN(3)], Idx: rest[0], InRng: true}})
			}
		}
		for k := 0; k < 3; k++ {
			plans[nClients-1] = append(plans[nClients-1], thrPlanned{in: thrIn{Op: "ThresholdSignature"}})
		}
	}
	// run
	var clock atomic.Int64
	recs := make([][]thrRecorded, nClients)
	var wg sync.WaitGroup
	var workers sync.Map // goroutine id of each worker of this history -> finished
	start := make(chan struct{})
	for c := range plans {
		wg.Add(1)
		jit := rand.New(rand.NewPCG(r.Uint64(), uint64(c)))
		go func(c int) {
			defer wg.Done()
			defer run.Protect("c18 worker")
			gid := curGoroutineID()
			workers.Store(gid, false)
			defer workers.Store(gid, true)
			<-start
			for _, p := range plans[c] {
				for j := jit.IntN(3); j > 0; j-- {
					runtime.Gosched()
				}
				rec := thrRecorded{client: c, in: p.in}
				rec.call = clock.Add(1)
				var o thrOut
				switch p.in.Op {
				case "TrustedAdd":
					b, e := ins.TrustedAdd(p.in.Idx, p.share)
					o = thrOut{B1: b, Err: thrErrClass(e)}
				case "VerifyAndAdd":
					a, b, e := ins.VerifyAndAdd(p.in.Idx, p.share)
					o = thrOut{B1: a, B2: b, Err: thrErrClass(e)}
				case "HasShare":
					b, e := ins.HasShare(p.in.Idx)
					o = thrOut{B1: b, Err: thrErrClass(e)}
				case "EnoughShares":
					o = thrOut{B1: ins.EnoughShares()}
				case "VerifyShare":
					b, e := ins.VerifyShare(p.in.Idx, p.share)
					o = thrOut{B1: b, Err: thrErrClass(e)}
				case "VerifyThresholdSignature":
					b, e := ins.VerifyThresholdSignature(p.share)
					o = thrOut{B1: b, Err: thrErrClass(e)}
				case "SignShare":
					s, e := part.SignShare()
					o = thrOut{Err: thrErrClass(e)}
					if bytes.Equal(s, shares[me]) {
						o.Sig = "own"
					} else {
						o.Sig = "other:" + mon.Hex(s)
					}
				case "ThresholdSignature":
					s, e := ins.ThresholdSignature()
					o = thrOut{Err: thrErrClass(e)}
					switch {
					case s == nil:
					case bytes.Equal(s, E):
						o.Sig = "E"
					default:
						o.Sig = "other:" + mon.Hex(s)
					}
				}
				rec.ret = clock.Add(1)
				rec.out = o
				recs[c] = append(recs[c], rec)
			}
		}(c)
	}
	var pre []thrRecorded
	for _, p := range prefill {
		rec := thrRecorded{client: nClients, in: p.in}
		rec.call = clock.Add(1)
		b, e := ins.TrustedAdd(p.in.Idx, p.share)
		rec.out = thrOut{B1: b, Err: thrErrClass(e)}
		rec.ret = clock.Add(1)
		pre = append(pre, rec)
	}
	close(start)
	if !c18WaitOrDeadlock(run, &wg, &clock, hi, &workers) {
		return
	}
	var all []thrRecorded
	all = append(all, pre...)
	for _, rs := range recs {
		all = append(all, rs...)
	}
	run.Eval(len(all))
	run.Count("histories", 1)
	if len(prefill) > 0 {
		run.Count("boundary-storm-histories", 1)
	}
	run.Count("operations", len(all))
	describe := func() []string {
		sort.Slice(all, func(i, j int) bool { return all[i].call < all[j].call })
		var out []string
		for _, a := range all {
			out = append(out, fmt.Sprintf("c%d [%d,%d] %s(idx=%d,cls=%s) -> %+v", a.client, a.call, a.ret, a.in.Op, a.in.Idx, a.in.Cls, a.out))
		}
		return out
	}
	rep := func() map[string]any {
		return map[string]any{"n": n, "t": t, "participant": participant, "seed": mon.Hex(seed), "history": describe(), "gomaxprocs": runtime.GOMAXPROCS(0)}
	}
	// overlap statistics
	mut := func(op string) bool { return op == "TrustedAdd" || op == "VerifyAndAdd" || op == "ThresholdSignature" }
	overl := 0
	pattern := uint64(14695981039346656037)
	for i := range all {
		for j := i + 1; j < len(all); j++ {
			if all[i].client != all[j].client && all[i].call <= all[j].ret && all[j].call <= all[i].ret {
				pattern = (pattern ^ uint64(len(all[i].in.Op)*31+len(all[j].in.Op))) * 1099511628211
				if mut(all[i].in.Op) && mut(all[j].in.Op) {
					overl++
				}
			}
		}
	}
	if overl >= 1 {
		run.Count("histories-with-overlapping-mutators", 1)
	}
	run.SetAdd("overlap-patterns", fmt.Sprint(pattern))
	// direct monitors
	for _, a := range all {
		if a.out.Sig != "" && strings.HasPrefix(a.out.Sig, "other:") && a.in.Op == "ThresholdSignature" {
			run.Violate("C18:threshold-signature-not-group-signature", "ThresholdSignature returned bytes that are not the group signature", rep())
			return
		}
		for _, b := range all {
			if a.ret < b.call {
				if a.in.Op == "EnoughShares" && b.in.Op == "EnoughShares" && a.out.B1 && !b.out.B1 {
					run.Violate("C18:enough-shares-reverted", "EnoughShares returned true and, strictly later in real time, false", rep())
					return
				}
				if a.in.Op == "ThresholdSignature" && b.in.Op == "ThresholdSignature" && a.out.Sig == "E" && b.out.Sig != "E" {
					run.Violate("C18:threshold-signature-not-stable", "ThresholdSignature succeeded and a strictly later call did not return the same signature", rep())
					return
				}
			}
		}
	}
	retained := 0
	perSigner := true
	for i := 0; i < n; i++ {
		if has, _ := ins.HasShare(i); has {
			retained++
		}
	}
	if retained > t+1 || !perSigner {
		run.Violate("C18:too-many-shares-retained", fmt.Sprintf("%d shares retained at quiescence, t+1 = %d", retained, t+1), rep())
		return
	}
	// linearizability
	ops := make([]porcupine.Operation, len(all))
	for i, a := range all {
		ops[i] = porcupine.Operation{ClientId: a.client, Input: a.in, Call: a.call, Output: a.out, Return: a.ret}
	}
	res := porcupine.CheckOperationsTimeout(thrModel(t), ops, 20*time.Second)
	switch res {
	case porcupine.Ok:
		run.Count("porcupine.ok", 1)
	case porcupine.Unknown:
		run.Count("porcupine.unknown", 1)
	default:
		run.Count("porcupine.illegal", 1)
		// name the pattern by the operation kinds that overlap a mutator
		kinds := map[string]bool{}
		for _, a := range all {
			if a.out.Err == "duplicated-signer" || a.in.Op == "ThresholdSignature" || a.in.Op == "EnoughShares" {
				kinds[a.in.Op] = true
			}
		}
		var ks []string
		for k := range kinds {
			ks = append(ks, k)
		}
		sort.Strings(ks)
		run.Violate("C18:not-linearizable", fmt.Sprintf("history of %d operations by %d clients on (n=%d,t=%d) has no sequential explanation consistent with real time (ops involved: %v)", len(all), nClients, n, t, ks), rep())
		return
	}
	// distinct model states reached (replay in call order on the model for the statistic)
	mu.Lock()
	st := interface{}(thrState{})
	m := thrModel(t)
	sorted := append([]thrRecorded{}, all...)
	sort.Slice(sorted, func(i, j int) bool { return sorted[i].ret < sorted[j].ret })
	for _, a := range sorted {
		if ok, ns := m.Step(st, a.in, a.out); ok {
			st = ns
			statesSeen[ns.(thrState)] = true
		}
	}
	mu.Unlock()
	run.Shape(fmt.Sprintf("n%d|clients%d|ops%d|overlap%d|retained%d", n, nClients, len(all)/4, min(overl, 6), retained))
	if hi < 2 {
		run.Sample(map[string]any{"n": n, "t": t, "clients": nClients, "history": describe()})
	}
}

func toSigs(b [][]byte) []crypto.Signature {
	out := make([]crypto.Signature, len(b))
	for i := range b {
		out[i] = b[i]
	}
	return out
}

func seqInts(n int) []int {
	out := make([]int, n)
	for i := range out {
		out[i] = i
	}
	return out
}

// c18Core runs the histories (in-process in the plain build; as a child in the race build).
func c18Core(run *mon.Run) {
	nHist := run.Pick(1500, 60000)
	if os.Getenv("VERIF_C18_SCALE") != "" {
		var f float64
		fmt.Sscan(os.Getenv("VERIF_C18_SCALE"), &f)
		nHist = int(float64(nHist) * f)
	}
	statesSeen := map[thrState]bool{}
	var mu sync.Mutex
	old := runtime.GOMAXPROCS(0)
	defer runtime.GOMAXPROCS(old)
	procs := []int{1, 2, 4, 16}
	// histories run in batches; inside a batch several histories run concurrently as well (each
	// on its own object) so that the machine is loaded and the scheduler preempts more
	for bi, p := range procs {
		runtime.GOMAXPROCS(p)
		var wg sync.WaitGroup
		sem := make(chan struct{}, 4)
		for hi := bi; hi < nHist && !c18Deadlocked.Load(); hi += len(procs) {
			wg.Add(1)
			sem <- struct{}{}
			go func(hi int) {
				defer wg.Done()
				defer func() { <-sem }()
				defer run.Protect("c18 worker")
				defer func() {
					if e := recover(); e != nil {
						run.Violate("C18:panic:"+mon.PanicSite(), fmt.Sprintf("panic during a concurrent history: %v", e), map[string]any{"history": hi})
					}
				}()
				c18History(run, hi, run.Rand(fmt.Sprintf("hist-%d", hi)), statesSeen, &mu)
			}(hi)
		}
		wg.Wait()
		run.Count(fmt.Sprintf("gomaxprocs.%d", p), 1)
	}
	run.Extra["distinct_model_states"] = len(statesSeen)
	if c18Deadlocked.Load() {
		return // the violation is recorded; the remaining histories were not started
	}
	h := run.Counter("histories")
	run.Require(h >= int64(nHist*9/10), "fewer histories completed than planned")
	run.Require(run.Counter("histories-with-overlapping-mutators")*10 >= h*3, "fewer than 30% of the histories had overlapping mutators")
	run.Require(run.Counter("porcupine.unknown")*100 <= h, "more than 1% of the histories could not be decided by the checker")
}

var raceBlock = regexp.MustCompile(`(?s)WARNING: DATA RACE.*?==================`)
var raceFrame = regexp.MustCompile(`(?m)^  (github\.com/onflow/crypto[^\s(]*|[a-zA-Z0-9_./]*\.[A-Za-z0-9_().*]+)\(`)

// raceChild runs a child in the race build with halt_on_error=0 and turns every distinct data
// race report (deduplicated by the library frames of both stacks) into a violation.
func raceChild(run *mon.Run, name string, timeout time.Duration, env ...string) {
	bin := os.Getenv("VERIF_BIN_RACE")
	if !c09Canary(run, bin, "race", "DATA RACE") {
		return
	}
	dir := mon.WorkDir("race")
	prefix := filepath.Join(dir, fmt.Sprintf("%s-%s-%d", run.ID, name, os.Getpid()))
	old, _ := filepath.Glob(prefix + ".*")
	for _, f := range old {
		_ = os.Remove(f)
	}
	run.RunChild(bin, name, "race", timeout, append(env, "GORACE=halt_on_error=0 log_path="+prefix)...)
	logs, _ := filepath.Glob(prefix + ".*")
	reports := 0
	for _, lf := range logs {
		b, _ := os.ReadFile(lf)
		for _, blk := range raceBlock.FindAll(b, -1) {
			reports++
			var frames []string
			for _, m := range raceFrame.FindAllSubmatch(blk, -1) {
				f := string(m[1])
				if strings.Contains(f, "onflow/crypto") {
					if i := strings.LastIndex(f, "/"); i >= 0 {
						f = f[i+1:]
					}
					frames = append(frames, f)
				}
			}
			if len(frames) > 4 {
				frames = frames[:4]
			}
			sig := strings.Join(frames, "|")
			if sig == "" {
				sig = "no-library-frame"
			}
			txt := string(blk)
			if len(txt) > 3000 {
				txt = txt[:3000]
			}
			run.Violate(fmt.Sprintf("%s:data-race:%s", run.ID, sig), "race detector report:\n"+txt, map[string]any{"log": lf})
		}
		_ = os.Remove(lf)
	}
	run.Extra["race_reports"] = reports
}

// C18: linearizability of the stateful threshold object.
func C18(run *mon.Run) {
	run.Rule = "many short concurrent histories (2-8 goroutines x 3-6 operations over all eight methods, valid / wrong / malformed / wrong-length / duplicate shares, in- and out-of-range indices, biased to the t+1 boundary) on one inspector or participant, recorded with an atomic logical clock and checked by porcupine against the documented sequential semantics; direct monitors for EnoughShares monotonicity, signature stability and <= t+1 retained shares; GOMAXPROCS in {1,2,4,16} with Gosched jitter; the same workload under the race detector; shape = (n, #clients, #ops bucket, #overlapping mutator pairs, #retained)"
	run.Assumptions = []string{"interleavings are those the Go scheduler produced; absence of a bad history is not a proof", "a duplicate signer is reported as duplicatedSignerError also when enough shares were already collected ((true, nil) is documented for enough shares AND no error occurred)"}
	// both legs run in child processes: a missing lock shows as a process-fatal
	// "concurrent map writes" in the plain build and as race reports in the -race build
	run.RunChild(os.Getenv("VERIF_BIN"), "c18core", "default", 120*time.Minute)
	raceChild(run, "c18core", 180*time.Minute, "VERIF_C18_SCALE=0.25")
	run.Require(run.Counter("default.histories") > 0, "default build observed no history")
	run.Require(run.Counter("race.histories") > 0, "race build observed no history")
}

func init() {
	Registry["C18"] = C18
	ChildRuns["c18core"] = c18Core
}
