package checks

import (
	"bufio"
	"bytes"
	"context"
	"crypto/sha256"
	"encoding/hex"
	"fmt"
	"os"
	"os/exec"
	"strconv"
	"strings"
	"time"

	"verif/harness/mon"
	"verif/harness/ref"
)

type c20Config struct {
	name   string
	env    string // environment variable holding the binary path
	allSec bool   // has the BLS sections
}

var c20Configs = []c20Config{
	{"default-adx", "VERIF_TRANSCRIPT_DEFAULT", true},
	{"portable", "VERIF_TRANSCRIPT_PORTABLE", true},
	{"purego", "VERIF_TRANSCRIPT_PUREGO", true},
	{"no_cgo", "VERIF_TRANSCRIPT_NOCGO", false},
}

func c20Run(run *mon.Run, c c20Config) ([]string, bool) {
	bin := os.Getenv(c.env)
	if bin == "" {
		run.Inconclusive("no transcript binary for configuration " + c.name)
		return nil, false
	}
	ctx, cancel := context.WithTimeout(context.Background(), 30*time.Minute)
	defer cancel()
	cmd := exec.CommandContext(ctx, bin, strconv.FormatInt(run.Seed, 10), run.Tier)
	var out, errb bytes.Buffer
	cmd.Stdout, cmd.Stderr = &out, &errb
	if err := cmd.Run(); err != nil {
		tail := errb.String()
		if len(tail) > 1500 {
			tail = tail[len(tail)-1500:]
		}
		if strings.Contains(tail, "SIGILL") || strings.Contains(tail, "requires ADX") {
			run.Inconclusive(fmt.Sprintf("configuration %s cannot run on this CPU: %s", c.name, tail))
		} else {
			run.Violate("C20:transcript-crash:"+c.name, fmt.Sprintf("transcript program in configuration %s failed: %v\n%s", c.name, err, tail), map[string]any{"config": c.name})
		}
		return nil, false
	}
	var lines []string
	sc := bufio.NewScanner(&out)
	sc.Buffer(make([]byte, 1<<20), 1<<26)
	for sc.Scan() {
		lines = append(lines, sc.Text())
	}
	return lines, true
}

func isBLSLine(l string) bool { return strings.HasPrefix(l, "bls") }

// C20: independence from the build configuration.
func C20(run *mon.Run) {
	run.Rule = "one deterministic transcript program (seeded inputs; one line per operation: section|operation|input|output) built from /repo in four configurations {default (ADX), CGO_CFLAGS='-O2 -D__BLST_PORTABLE__', -tags purego, CGO_ENABLED=0 -tags no_cgo} and compared line by line: the three cgo builds on every line, the no_cgo build on all non-BLS lines; shape = (section, operation kind); the first differing line is the witness"
	run.Assumptions = []string{"only configurations runnable on this amd64 host; -D__BLST_NO_ASM__ does not compile on amd64 at this commit (excluded by the property)", "ECDSA signing is randomized and is recorded through verification verdicts only"}
	var base []string
	for ci, c := range c20Configs {
		lines, ok := c20Run(run, c)
		if !ok {
			continue
		}
		run.Builds = append(run.Builds, c.name)
		d := sha256.New()
		sections := map[string]int{}
		for _, l := range lines {
			if c.allSec || !isBLSLine(l) {
				d.Write([]byte(l))
				d.Write([]byte{'\n'})
			}
			sec := strings.SplitN(l, "|", 2)[0]
			sections[sec]++
		}
		run.Extra["lines."+c.name] = sections
		run.Extra["digest."+c.name] = hex.EncodeToString(d.Sum(nil)[:12])
		run.Count("configs-run", 1)
		if ci == 0 {
			base = lines
			for _, l := range lines {
				p := strings.SplitN(l, "|", 3)
				if len(p) >= 2 {
					op := p[1]
					if i := strings.IndexAny(op, "/"); i > 0 && p[0] != "bls-dkg" {
						op = op[:i]
					}
					if p[0] == "kmac" || p[0] == "prg" {
						op = ""
					}
					run.Shape(p[0] + "|" + op)
				}
			}
			for _, sec := range []string{"hash", "kmac", "prg", "ecdsa", "bls", "bls-agg", "bls-thr", "bls-dkg"} {
				run.Require(sections[sec] > 0, "transcript section empty: "+sec)
			}
			if len(lines) > 3 {
				run.Sample(lines[0][:min(len(lines[0]), 300)])
				run.Sample(lines[len(lines)/2][:min(len(lines[len(lines)/2]), 300)])
				run.Sample(lines[len(lines)-1][:min(len(lines[len(lines)-1]), 300)])
			}
			continue
		}
		// compare with the default configuration
		want := base
		if !c.allSec {
			want = nil
			for _, l := range base {
				if !isBLSLine(l) {
					want = append(want, l)
				}
			}
			var got []string
			for _, l := range lines {
				if !isBLSLine(l) {
					got = append(got, l)
				}
			}
			lines = got
		}
		run.Eval(len(lines))
		n := min(len(want), len(lines))
		diff := -1
		for i := 0; i < n; i++ {
			if want[i] != lines[i] {
				diff = i
				break
			}
		}
		if diff < 0 && len(want) != len(lines) {
			diff = n
		}
		if diff >= 0 {
			a, b := "<missing>", "<missing>"
			if diff < len(want) {
				a = want[diff]
			}
			if diff < len(lines) {
				b = lines[diff]
			}
			sec := strings.SplitN(a, "|", 3)
			key := sec[0]
			if len(sec) > 1 {
				key += ":" + strings.SplitN(sec[1], "/", 2)[0]
			}
			run.Violate(fmt.Sprintf("C20:differs:%s:%s", c.name, key), fmt.Sprintf("configuration %s differs from the default build at transcript line %d:\n default: %s\n %s: %s", c.name, diff, trimStr(a, 600), c.name, trimStr(b, 600)),
				map[string]any{"config": c.name, "line": diff, "default": a, "other": b, "seed": run.Seed})
		}
	}
	run.Eval(len(base))
	// the default transcript is also checked line by line against the references where they apply,
	// so that "all four agree" cannot mean "all four wrong in the same way"
	checked := 0
	for _, l := range base {
		p := strings.Split(l, "|")
		if len(p) != 4 {
			continue
		}
		in, err1 := hex.DecodeString(p[2])
		out, err2 := hex.DecodeString(p[3])
		var want []byte
		switch {
		case p[0] == "hash" && err1 == nil && err2 == nil:
			switch p[1] {
			case "sha2-256":
				want = ref.SHA256(in)
			case "sha2-384":
				want = ref.SHA384(in)
			case "sha3-256":
				want = ref.SHA3_256(in)
			case "sha3-384":
				want = ref.SHA3_384(in)
			case "keccak-256":
				want = ref.Keccak256(in)
			}
		case p[0] == "kmac" && err1 == nil && err2 == nil:
			q := strings.Split(p[1], "/")
			if len(q) == 3 {
				key, e1 := hex.DecodeString(q[0])
				cust, e2 := hex.DecodeString(q[1])
				size, e3 := strconv.Atoi(q[2])
				if e1 == nil && e2 == nil && e3 == nil {
					want = ref.KMAC128(key, in, size, cust)
					if size == 0 {
						want = []byte{}
					}
				}
			}
		case p[0] == "prg" && err2 == nil:
			q := strings.Split(p[1], "/")
			if len(q) == 2 {
				seed, e1 := hex.DecodeString(q[0])
				cust, e2 := hex.DecodeString(q[1])
				if e1 == nil && e2 == nil && len(seed) == 32 {
					want = ref.ChaCha20Stream(seed, padNonce(cust), 0, len(out))
					if len(out) == 0 {
						want = []byte{}
					}
				}
			}
		}
		if want != nil {
			checked++
			if !bytes.Equal(want, out) {
				run.Violate("C20:default-differs-from-reference:"+p[0], fmt.Sprintf("default build transcript line disagrees with the reference: %s", trimStr(l, 400)), map[string]any{"line": l})
				break
			}
		}
	}
	run.Count("reference-checked-lines", checked)
	// the reference-oracle checks themselves, re-run inside the portable (non-ADX) build: agreement
	// of the configurations on a transcript is necessary, the oracles make it meaningful
	cores := []string{"c04core", "c06core", "c02core"}
	if !run.Quick() {
		cores = []string{"c04core", "c01core", "c02core", "c03core", "c06core", "c17core"}
	}
	for _, c := range cores {
		run.RunChild(os.Getenv("VERIF_BIN_PORTABLE"), c, "portable-"+c, 60*time.Minute)
	}
	run.Require(run.Counter("configs-run") == 4, "not all four configurations ran")
	run.Require(checked > 100, "too few transcript lines checked against the references")
}

func init() { Registry["C20"] = C20 }
