package checks

import "verif/harness/mon"

// Registry maps property ids to check functions; Children maps child-mode names to
// entry points executed in a separate (possibly sanitizer-instrumented) process.
var Registry = map[string]func(*mon.Run){}
var Children = map[string]func(args []string) int{}
