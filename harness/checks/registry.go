package checks

import "verif/harness/mon"

// Registry maps property ids to check functions; Children maps child-mode names to
// entry points executed in a separate (possibly sanitizer-instrumented) process.
var Registry = map[string]func(*mon.Run){}
var Children = map[string]func(args []string) int{}

// ChildRuns are check bodies runnable as `verif child <name>`; the name starts with the
// property id in lower case (c13core, c18race, ...).
var ChildRuns = map[string]func(*mon.Run){}

// Replays re-run one recorded scenario from a replay file.
var Replays = map[string]func(path string) int{}

func init() {
	Registry["C11"] = C11
}
