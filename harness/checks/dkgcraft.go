//go:build cgo && !no_cgo

package checks

import (
	"bytes"
	"fmt"
	"math/big"
	"math/rand/v2"
	"strings"
	"sync"

	"github.com/onflow/crypto"

	"verif/harness/mon"
	"verif/harness/ref"
	"verif/harness/sim"
)

// Crafted dealings: the dealer's messages are computed by the harness from a polynomial of its own
// choosing and fed to real receiver instances (plain Feldman VSS and Feldman-VSS-Qual). An honest dealer
// draws its polynomial at random, so every polynomial is a legal one; the special shapes below are the
// ones on which the receivers' public-share evaluation (Horner's rule over G2) meets its exceptional
// cases: two equal operands, opposite operands, a running sum at infinity.
//
//   - consistent dealing, special polynomial (C07): every receiver must accept it exactly like any other
//     honest dealing: no complaint, no callback, keys from End(), group key A_0, the n public shares equal
//     to the reference evaluation of the vector, private share matching its public share.
//   - vector whose points carry small-order components that cancel in the receiver's own evaluation and
//     in simple linear combinations of the points (C08): each point is outside G2, so the vector is
//     malformed and every receiver must disqualify the dealer although its own share verifies.

type craftedPoly struct {
	kind string
	a    []*big.Int // a_0 .. a_t
}

func (p craftedPoly) eval(x int64) *big.Int {
	acc := new(big.Int)
	xx := big.NewInt(x)
	for i := len(p.a) - 1; i >= 0; i-- {
		acc = ref.Fr.Add(ref.Fr.Mul(acc, xx), p.a[i])
	}
	return acc
}

func scalar32(v *big.Int) []byte { return v.FillBytes(make([]byte, 32)) }

// vectorBytes: TagVector || enc([a_0]g2) .. enc([a_t]g2), the points computed by the library itself
// from the scalars (public key of the private key a_i), infinity for a_i = 0.
func (p craftedPoly) vectorBytes() []byte {
	out := []byte{sim.TagVector}
	for _, a := range p.a {
		if a.Sign() == 0 {
			inf := make([]byte, 96)
			inf[0] = 0xC0
			out = append(out, inf...)
			continue
		}
		out = append(out, skFromInt(a).PublicKey().Encode()...)
	}
	return out
}

func craftedPolys(r *rand.Rand, n, t int) []craftedPoly {
	rnd := func() []*big.Int {
		a := make([]*big.Int, t+1)
		for i := range a {
			a[i] = randScalar(r)
		}
		return a
	}
	var out []craftedPoly
	add := func(kind string, a []*big.Int) {
		if a[0].Sign() != 0 { // (a zero secret gives the identity group key, which the library refuses by design)
			out = append(out, craftedPoly{kind, a})
		}
	}
	for x := int64(1); x <= int64(n); x++ {
		xx := big.NewInt(x)
		for i := 0; i < t; i++ {
			// a_i = x * a_{i+1}: Horner at x adds two equal points at that step
			a := rnd()
			a[i] = ref.Fr.Mul(xx, a[i+1])
			add(fmt.Sprintf("proportional:x=%d,i=%d", x, i), a)
			// a_i = -x * a_{i+1}: the running sum passes through infinity
			b := rnd()
			b[i] = ref.Fr.Neg(ref.Fr.Mul(xx, b[i+1]))
			add(fmt.Sprintf("opposite:x=%d,i=%d", x, i), b)
		}
		if t >= 1 {
			// P(x) = a_0: the share of participant x-1 equals the secret
			c := rnd()
			s := new(big.Int)
			pw := new(big.Int).Set(xx)
			for i := 2; i <= t; i++ {
				pw = ref.Fr.Mul(pw, xx)
				s = ref.Fr.Add(s, ref.Fr.Mul(c[i], pw))
			}
			c[1] = ref.Fr.Neg(ref.Fr.Mul(s, ref.Fr.Inv(xx)))
			add(fmt.Sprintf("share-equals-secret:x=%d", x), c)
		}
	}
	d := rnd()
	d[t] = new(big.Int) // degree-deficient: the top point is infinity
	add("top-coefficient-zero", d)
	if t >= 2 {
		e := rnd()
		e[t], e[t-1] = new(big.Int), new(big.Int)
		add("two-top-coefficients-zero", e)
		f := rnd()
		f[1] = new(big.Int)
		add("middle-coefficient-zero", f)
	}
	g := rnd()
	for i := range g {
		g[i] = g[0]
	}
	add("all-coefficients-equal", g)
	h := rnd()
	for i := 1; i <= t; i++ {
		h[i] = ref.Fr.Mul(h[i-1], big.NewInt(2))
	}
	add("geometric-2", h)
	k := rnd()
	for i := t - 1; i >= 0; i-- {
		k[i] = ref.Fr.Mul(k[i+1], big.NewInt(2))
	}
	add("geometric-half", k)
	one := make([]*big.Int, t+1)
	for i := range one {
		one[i] = big.NewInt(1)
	}
	add("all-ones", one)
	return out
}

type craftedResult struct {
	events  []string
	bcast   int
	endErr  error
	sk      crypto.PrivateKey
	gpk     crypto.PublicKey
	pks     []crypto.PublicKey
	problem string
}

// feedReceiver runs one receiver instance on (vector, share) in the given order.
func feedReceiver(proto string, n, t, id, dealer int, vector, share []byte, shareFirst bool) (res craftedResult) {
	rp := newRecProc()
	var in crypto.DKGState
	var err error
	if proto == "FeldmanVSS" {
		in, err = crypto.NewFeldmanVSS(n, t, id, rp, dealer)
	} else {
		in, err = crypto.NewFeldmanVSSQual(n, t, id, rp, dealer)
	}
	if err != nil {
		res.problem = "constructor: " + err.Error()
		return
	}
	defer func() {
		if e := recover(); e != nil {
			res.problem = fmt.Sprintf("panic: %v at %s", e, mon.PanicSite())
		}
	}()
	_ = in.Start(bytes.Repeat([]byte{byte(id + 1)}, 32))
	if shareFirst {
		_ = in.HandlePrivateMsg(dealer, share)
		_ = in.HandleBroadcastMsg(dealer, vector)
	} else {
		_ = in.HandleBroadcastMsg(dealer, vector)
		_ = in.HandlePrivateMsg(dealer, share)
	}
	if proto != "FeldmanVSS" {
		_ = in.NextTimeout()
		_ = in.NextTimeout()
	}
	res.sk, res.gpk, res.pks, res.endErr = in.End()
	for _, e := range rp.events {
		if !strings.HasPrefix(e, "priv(") {
			res.events = append(res.events, e)
		}
	}
	res.bcast = len(rp.bcast)
	return
}

// dkgCraftedDealings is the C07 leg.
func dkgCraftedDealings(run *mon.Run) {
	cv := measuredConv()
	grid := [][2]int{{3, 1}, {4, 2}, {5, 2}, {5, 3}, {7, 3}}
	if !run.Quick() {
		grid = append(grid, [2]int{6, 4}, [2]int{7, 5}, [2]int{9, 4}, [2]int{12, 3})
	}
	var wg sync.WaitGroup
	sem := make(chan struct{}, 16)
	for gi, g := range grid {
		n, t := g[0], g[1]
		r := run.Rand(fmt.Sprintf("crafted-%d", gi))
		polys := craftedPolys(r, n, t)
		for pi, p := range polys {
			if run.Quick() && n >= 5 && pi%2 == gi%2 && !strings.HasPrefix(p.kind, "proportional") {
				continue
			}
			wg.Add(1)
			sem <- struct{}{}
			go func(gi, pi int, p craftedPoly) {
				defer wg.Done()
				defer func() { <-sem }()
				defer run.Protect("c07 crafted")
				dealer := (gi + pi) % n
				vec := p.vectorBytes()
				pts, why := refVector(vec, t, cv)
				if pts == nil {
					run.Inconclusive("crafted vector not well formed by the reference: " + why)
					return
				}
				want := make([][]byte, n)
				for j := 0; j < n; j++ {
					want[j] = ref.EncodeG2(evalVector(pts, int64(j+1)), cv)
				}
				var coef []string
				for _, a := range p.a {
					coef = append(coef, a.Text(16))
				}
				for _, proto := range []string{"FeldmanVSS", "FeldmanVSSQual"} {
					for id := 0; id < n; id++ {
						if id == dealer {
							continue
						}
						x := p.eval(int64(id + 1))
						if x.Sign() == 0 {
							continue // a zero share is refused by design
						}
						share := append([]byte{sim.TagShare}, scalar32(x)...)
						shareFirst := (id+pi)%2 == 0
						rep := map[string]any{"protocol": proto, "n": n, "t": t, "dealer": dealer, "receiver": id, "polynomial": p.kind, "coefficients": coef, "share_first": shareFirst}
						res := feedReceiver(proto, n, t, id, dealer, vec, share, shareFirst)
						run.Eval(1)
						run.Count("crafted.receivers", 1)
						kind := strings.SplitN(p.kind, ":", 2)[0]
						if res.problem != "" {
							run.Violate("C07:crafted-dealing:"+kind+":problem", fmt.Sprintf("%s receiver %d (n=%d,t=%d) on a consistent dealing with polynomial %s: %s", proto, id, n, t, p.kind, res.problem), rep)
							return
						}
						if res.endErr != nil || len(res.events) > 0 || res.bcast > 0 {
							run.Violate("C07:crafted-dealing:"+kind+":honest-dealing-refused", fmt.Sprintf("%s receiver %d (n=%d,t=%d) on a consistent dealing with polynomial %s: End error %v, callbacks/broadcasts %v", proto, id, n, t, p.kind, res.endErr, res.events), rep)
							return
						}
						if !bytes.Equal(res.gpk.Encode(), ref.EncodeG2(pts[0], cv)) {
							run.Violate("C07:crafted-dealing:"+kind+":group-key", fmt.Sprintf("%s receiver %d: group key is not A_0 (polynomial %s)", proto, id, p.kind), rep)
							return
						}
						for j := 0; j < n; j++ {
							if !bytes.Equal(res.pks[j].Encode(), want[j]) {
								run.Violate("C07:crafted-dealing:"+kind+":public-share", fmt.Sprintf("%s receiver %d (n=%d,t=%d), polynomial %s: public key share %d differs from the vector evaluated at %d", proto, id, n, t, p.kind, j, j+1), rep)
								return
							}
						}
						if !bytes.Equal(res.sk.Encode(), scalar32(x)) || !bytes.Equal(res.sk.PublicKey().Encode(), want[id]) {
							run.Violate("C07:crafted-dealing:"+kind+":private-share", fmt.Sprintf("%s receiver %d: private share or its public key differ from P(%d) (polynomial %s)", proto, id, id+1, p.kind), rep)
							return
						}
					}
				}
				run.Shape(fmt.Sprintf("crafted|n%d|t%d|%s", n, t, strings.SplitN(p.kind, ",", 2)[0]))
				if gi == 0 && pi < 2 {
					run.Sample(map[string]any{"crafted_polynomial": p.kind, "n": n, "t": t, "coefficients": coef})
				}
			}(gi, pi, p)
		}
	}
	wg.Wait()
	run.Require(run.Counter("crafted.receivers") >= 200, "fewer than 200 receivers of crafted dealings")
}

// kernelVector finds c in [0,q)^(len) \ {0} with sum w_i*c_i = 0 (mod q) for every weight vector.
func kernelVector(r *rand.Rand, q int64, length int, weights [][]int64) []int64 {
	for tries := 0; tries < 200000; tries++ {
		c := make([]int64, length)
		nz := 0
		for i := range c {
			c[i] = int64(r.IntN(int(q)))
			if c[i] != 0 {
				nz++
			}
		}
		if nz < 2 {
			continue
		}
		ok := true
		for _, w := range weights {
			s := int64(0)
			for i := range c {
				s = (s + w[i]%q*c[i]) % q
			}
			if s != 0 {
				ok = false
				break
			}
		}
		if ok {
			return c
		}
	}
	return nil
}

// dkgTorsionKernelVectors is the C08 leg.
func dkgTorsionKernelVectors(run *mon.Run) {
	cv := measuredConv()
	grid := [][2]int{{4, 2}, {5, 3}, {4, 1}, {7, 3}}
	if !run.Quick() {
		grid = append(grid, [2]int{6, 4}, [2]int{9, 5}, [2]int{3, 1}, [2]int{5, 2})
	}
	tors := map[int64]ref.G2{}
	for _, q := range []int64{13, 23} {
		if tp, ok := ref.TorsionE2(q, []byte("kernel")); ok {
			tors[q] = tp
		}
	}
	if len(tors) == 0 {
		run.Inconclusive("no small-order E2 point available for the torsion-kernel vectors")
		return
	}
	var wg sync.WaitGroup
	sem := make(chan struct{}, 16)
	job := 0
	for gi, g := range grid {
		n, t := g[0], g[1]
		for rep := 0; rep < run.Pick(7, 42); rep++ {
			job++
			wg.Add(1)
			sem <- struct{}{}
			go func(gi, rep, job int) {
				defer wg.Done()
				defer func() { <-sem }()
				defer run.Protect("c08 torsion kernel")
				r := run.Rand(fmt.Sprintf("kernel-%d-%d", gi, rep))
				q := []int64{13, 23}[rep%2]
				T, ok := tors[q]
				if !ok {
					q = 13
					T = tors[13]
				}
				dealer := r.IntN(n)
				victim := (dealer + 1 + r.IntN(n-1)) % n
				x := int64(victim + 1)
				// the victim's evaluation always cancels; a second linear form as often as the dimension allows
				wEval := make([]int64, t+1)
				pw := int64(1)
				for i := range wEval {
					wEval[i] = pw
					pw = pw * x % q
				}
				weights := [][]int64{wEval}
				second := "none"
				if t+1 >= 3 {
					w2 := make([]int64, t+1)
					switch rep % 7 {
					case 5:
						second = "linear-ascending"
						for i := range w2 {
							w2[i] = int64(i+1) % q
						}
					case 6:
						second = "linear-descending"
						for i := range w2 {
							w2[i] = int64(t+1-i) % q
						}
					case 0:
						second = "sum"
						for i := range w2 {
							w2[i] = 1
						}
					case 1:
						second = "powers-of-two-descending"
						for i := range w2 {
							w2[i] = int64(1) << uint(t-i) % q
						}
					case 2:
						second = "powers-of-two-ascending"
						for i := range w2 {
							w2[i] = int64(1) << uint(i) % q
						}
					case 3:
						second = "other-evaluation"
						y := int64((victim+1)%n + 1)
						pw := int64(1)
						for i := range w2 {
							w2[i] = pw
							pw = pw * y % q
						}
					default:
						second = "alternating-sum"
						for i := range w2 {
							w2[i] = []int64{1, q - 1}[i%2]
						}
					}
					weights = append(weights, w2)
				}
				c := kernelVector(r, q, t+1, weights)
				if c == nil {
					return
				}
				p := craftedPoly{kind: "random", a: make([]*big.Int, t+1)}
				for i := range p.a {
					p.a[i] = randScalar(r)
				}
				honest := p.vectorBytes()
				pts, why := refVector(honest, t, cv)
				if pts == nil {
					run.Inconclusive("honest crafted vector not well formed by the reference: " + why)
					return
				}
				vec := []byte{sim.TagVector}
				for i := range pts {
					vec = append(vec, ref.EncodeG2(ref.E2.Add(pts[i], ref.E2.Mul(T, big.NewInt(c[i]))), cv)...)
				}
				// sanity of the construction by the reference: points on the curve, at least one outside G2,
				// and the victim's evaluation equal to the honest one
				bad, why2 := refVector(vec, t, cv)
				if bad != nil {
					run.Inconclusive("torsion-kernel vector judged well formed by the reference (construction error)")
					return
				}
				_ = why2
				share := append([]byte{sim.TagShare}, scalar32(p.eval(x))...)
				repm := map[string]any{"n": n, "t": t, "dealer": dealer, "victim": victim, "torsion_order": q, "multiples": c, "second_form": second, "vector": mon.Hex(vec)}
				for _, proto := range []string{"FeldmanVSS", "FeldmanVSSQual"} {
					for _, shareFirst := range []bool{false, true} {
						res := feedReceiver(proto, n, t, victim, dealer, vec, share, shareFirst)
						run.Eval(1)
						run.Count("torsion-kernel.receivers", 1)
						if res.problem != "" {
							run.Violate("C08:torsion-kernel-vector:problem", fmt.Sprintf("%s receiver %d: %s", proto, victim, res.problem), repm)
							return
						}
						if res.endErr == nil {
							run.Violate("C08:torsion-kernel-vector:keys-after-invalid-vector:"+proto, fmt.Sprintf("%s receiver %d (n=%d,t=%d) got a vector whose points are outside G2 (order-%d components %v that cancel in its own evaluation and in the form %q) together with a matching share: End() returned keys", proto, victim, n, t, q, c, second), repm)
							return
						}
						if !crypto.IsDKGFailureError(res.endErr) {
							run.Violate("C08:torsion-kernel-vector:error-class", fmt.Sprintf("%s receiver %d: End() error %v is not a DKG failure", proto, victim, res.endErr), repm)
							return
						}
					}
				}
				run.Shape(fmt.Sprintf("torsion-kernel|n%d|t%d|q%d|%s", n, t, q, second))
				if job <= 2 {
					run.Sample(map[string]any{"torsion_kernel_vector": repm})
				}
			}(gi, rep, job)
		}
	}
	wg.Wait()
	run.Require(run.Counter("torsion-kernel.receivers") >= 40, "fewer than 40 receivers of torsion-kernel vectors")
}

// dkgRootPolynomials is a C08 leg for plain Feldman VSS and Feldman-VSS-Qual: the dealer's polynomial has
// a root at the victim's evaluation point, so the victim's public share is the identity point and its
// true share is the scalar zero, which the share format cannot even express. Whatever private message
// the victim gets (none, malformed in every documented way, a non-zero scalar), it does not hold a share
// matching the vector, so End() must fail with a DKG failure and never return keys.
func dkgRootPolynomials(run *mon.Run) {
	grid := [][2]int{{3, 1}, {4, 2}, {5, 3}}
	if !run.Quick() {
		grid = append(grid, [2]int{6, 2}, [2]int{7, 4}, [2]int{9, 3})
	}
	shareKinds := []string{"none", "empty", "tag-only", "wrong-tag", "short", "long", "zero", "r", "max", "one"}
	var wg sync.WaitGroup
	sem := make(chan struct{}, 16)
	for gi, g := range grid {
		n, t := g[0], g[1]
		for rep := 0; rep < run.Pick(2, 8); rep++ {
			wg.Add(1)
			sem <- struct{}{}
			go func(gi, rep int) {
				defer wg.Done()
				defer func() { <-sem }()
				defer run.Protect("c08 root polynomial")
				r := run.Rand(fmt.Sprintf("root-%d-%d", gi, rep))
				dealer := r.IntN(n)
				victim := (dealer + 1 + r.IntN(n-1)) % n
				x := int64(victim + 1)
				p := craftedPoly{kind: "root-at-victim", a: make([]*big.Int, t+1)}
				for i := range p.a {
					p.a[i] = randScalar(r)
				}
				// a_0 = -(a_1 x + ... + a_t x^t)
				p.a[0] = new(big.Int)
				p.a[0] = ref.Fr.Neg(p.eval(x))
				if p.a[0].Sign() == 0 || p.eval(x).Sign() != 0 {
					return
				}
				vec := p.vectorBytes()
				for _, proto := range []string{"FeldmanVSS", "FeldmanVSSQual"} {
					for _, sk := range shareKinds {
						for _, shareFirst := range []bool{true, false} {
							var share []byte
							switch sk {
							case "none":
								share = nil
							case "empty":
								share = []byte{}
							case "tag-only":
								share = []byte{sim.TagShare}
							case "wrong-tag":
								share = append([]byte{sim.TagAnswer}, scalar32(big.NewInt(5))...)
							case "short":
								share = append([]byte{sim.TagShare}, make([]byte, 31)...)
							case "long":
								share = append([]byte{sim.TagShare}, make([]byte, 33)...)
							case "zero":
								share = append([]byte{sim.TagShare}, make([]byte, 32)...)
							case "r":
								share = append([]byte{sim.TagShare}, scalar32(ref.R)...)
							case "max":
								share = append([]byte{sim.TagShare}, bytes.Repeat([]byte{0xff}, 32)...)
							default:
								share = append([]byte{sim.TagShare}, scalar32(big.NewInt(1))...)
							}
							repm := map[string]any{"protocol": proto, "n": n, "t": t, "dealer": dealer, "victim": victim, "share": sk, "share_first": shareFirst, "vector": mon.Hex(vec)}
							var res craftedResult
							if sk == "none" {
								res = feedReceiverNoShare(proto, n, t, victim, dealer, vec)
							} else {
								res = feedReceiver(proto, n, t, victim, dealer, vec, share, shareFirst)
							}
							run.Eval(1)
							run.Count("root-polynomial.receivers", 1)
							if res.problem != "" {
								run.Violate("C08:root-polynomial:problem", fmt.Sprintf("%s receiver %d: %s", proto, victim, res.problem), repm)
								return
							}
							if res.endErr == nil {
								run.Violate("C08:root-polynomial:keys-without-a-matching-share:"+proto, fmt.Sprintf("%s receiver %d (n=%d,t=%d): the vector gives it the identity as public share (the polynomial has a root at %d), the private message was %q, and End() returned keys (private share %x)", proto, victim, n, t, x, sk, res.sk.Encode()), repm)
								return
							}
							if !crypto.IsDKGFailureError(res.endErr) {
								run.Violate("C08:root-polynomial:error-class", fmt.Sprintf("%s receiver %d: End() error %v is not a DKG failure", proto, victim, res.endErr), repm)
								return
							}
						}
					}
				}
				run.Shape(fmt.Sprintf("root-polynomial|n%d|t%d", n, t))
			}(gi, rep)
		}
	}
	wg.Wait()
	run.Require(run.Counter("root-polynomial.receivers") >= 100, "fewer than 100 receivers of root polynomials")
}

// feedReceiverNoShare: the vector only; in the Qual protocol the receiver complains and nobody answers.
func feedReceiverNoShare(proto string, n, t, id, dealer int, vector []byte) (res craftedResult) {
	rp := newRecProc()
	var in crypto.DKGState
	var err error
	if proto == "FeldmanVSS" {
		in, err = crypto.NewFeldmanVSS(n, t, id, rp, dealer)
	} else {
		in, err = crypto.NewFeldmanVSSQual(n, t, id, rp, dealer)
	}
	if err != nil {
		res.problem = "constructor: " + err.Error()
		return
	}
	defer func() {
		if e := recover(); e != nil {
			res.problem = fmt.Sprintf("panic: %v at %s", e, mon.PanicSite())
		}
	}()
	_ = in.Start(bytes.Repeat([]byte{byte(id + 1)}, 32))
	_ = in.HandleBroadcastMsg(dealer, vector)
	if proto != "FeldmanVSS" {
		_ = in.NextTimeout()
		_ = in.NextTimeout()
	}
	res.sk, res.gpk, res.pks, res.endErr = in.End()
	return
}

// dkgInfinityThenJunk is a C08 leg: a vector of the right length whose point at position i is the
// identity and whose later points are not valid G2 encodings (bad header, off the curve, on the curve
// but outside G2, a copy of an earlier point with a flipped bit), together with the share of the
// polynomial made of the coefficients BEFORE position i. A parser that stops looking after an
// identity point would accept it; the vector is malformed, so End() must never return keys.
func dkgInfinityThenJunk(run *mon.Run) {
	cv := measuredConv()
	grid := [][2]int{{4, 2}, {5, 3}, {7, 4}}
	if !run.Quick() {
		grid = append(grid, [2]int{3, 1}, [2]int{6, 5}, [2]int{9, 3})
	}
	junkKinds := []string{"bad-header", "off-curve", "non-G2", "x-ge-p", "bitflip-of-A0", "zeros", "random"}
	var wg sync.WaitGroup
	sem := make(chan struct{}, 16)
	for gi, g := range grid {
		n, t := g[0], g[1]
		for pos := 0; pos < t; pos++ { // position of the identity point; at least one point follows
			for ji, junk := range junkKinds {
				if run.Quick() && (gi+pos+ji)%2 == 1 {
					continue
				}
				wg.Add(1)
				sem <- struct{}{}
				go func(gi, pos, ji int, junk string) {
					defer wg.Done()
					defer func() { <-sem }()
					defer run.Protect("c08 infinity then junk")
					r := run.Rand(fmt.Sprintf("inf-junk-%d-%d-%d", gi, pos, ji))
					p := craftedPoly{kind: "prefix", a: make([]*big.Int, t+1)}
					for i := range p.a {
						p.a[i] = new(big.Int)
						if i < pos {
							p.a[i] = randScalar(r)
						}
					}
					if pos == 0 {
						// the secret itself is zero: use position >= 1 for the accepted-keys case, but the
						// vector must be refused here too
					}
					vec := p.vectorBytes() // A_0..A_{pos-1}, then identity points
					a0 := skFromInt(randScalar(r)).PublicKey().Encode()
					for i := pos + 1; i <= t; i++ {
						pt := vec[1+96*i : 1+96*(i+1)]
						switch junk {
						case "bad-header":
							copy(pt, a0)
							pt[0] &= 0x1F
						case "off-curve":
							copy(pt, a0)
							for tries := 0; tries < 64; tries++ {
								pt[95] ^= byte(1 + tries)
								if _, cls := ref.DecodeG2(pt, cv); cls == ref.DecOffCurve {
									break
								}
							}
						case "non-G2":
							copy(pt, ref.EncodeG2(ref.NonSubgroupE2([]byte{byte(gi), byte(pos), byte(i)}), cv))
						case "x-ge-p":
							copy(pt, a0)
							copy(pt[:48], ref.P.FillBytes(make([]byte, 48)))
							pt[0] |= 0x80
						case "bitflip-of-A0":
							copy(pt, a0)
							pt[50] ^= 0x10
						case "zeros":
							for k := range pt {
								pt[k] = 0
							}
						default:
							copy(pt, mon.RandBytes(r, 96))
						}
					}
					if good, _ := refVector(vec, t, cv); good != nil {
						return // the junk happened to be a valid point: not a malformed vector
					}
					dealer := r.IntN(n)
					victim := (dealer + 1 + r.IntN(n-1)) % n
					x := p.eval(int64(victim + 1))
					share := append([]byte{sim.TagShare}, scalar32(x)...)
					repm := map[string]any{"n": n, "t": t, "dealer": dealer, "victim": victim, "identity_position": pos, "junk": junk, "vector": mon.Hex(vec)}
					for _, proto := range []string{"FeldmanVSS", "FeldmanVSSQual"} {
						for _, shareFirst := range []bool{false, true} {
							res := feedReceiver(proto, n, t, victim, dealer, vec, share, shareFirst)
							run.Eval(1)
							run.Count("infinity-then-junk.receivers", 1)
							if res.problem != "" {
								run.Violate("C08:infinity-then-junk:problem", fmt.Sprintf("%s receiver %d: %s", proto, victim, res.problem), repm)
								return
							}
							if res.endErr == nil {
								run.Violate("C08:infinity-then-junk:keys-after-invalid-vector:"+proto, fmt.Sprintf("%s receiver %d (n=%d,t=%d): vector with the identity at position %d followed by %s data and the share of the lower-degree polynomial: End() returned keys", proto, victim, n, t, pos, junk), repm)
								return
							}
						}
					}
					run.Shape(fmt.Sprintf("infinity-then-junk|t%d|pos%d|%s", t, pos, junk))
				}(gi, pos, ji, junk)
			}
		}
	}
	wg.Wait()
	run.Require(run.Counter("infinity-then-junk.receivers") >= 40, "fewer than 40 receivers of infinity-then-junk vectors")
}

// dkgRootAnswered is a C07 leg (agreement): Feldman-VSS-Qual, the dealer's polynomial has a root at the
// complainer's point, the complainer P got no usable share and complains, and the dealer answers with
// one of several scalars (32 zero bytes - the "true" share, which the share format excludes -, one, r,
// a random value). P and a bystander B who holds a correct share see exactly the same broadcasts.
// Whatever the library decides about such an answer, P and B must decide the same: both fail with a DKG
// failure or both return keys (and then the same group key and public shares).
func dkgRootAnswered(run *mon.Run) {
	grid := [][2]int{{3, 1}, {4, 2}, {5, 2}}
	if !run.Quick() {
		grid = append(grid, [2]int{6, 3}, [2]int{7, 2})
	}
	answers := []string{"zero", "one", "r", "random", "none"}
	pshares := []string{"none", "zero", "tag-only", "one"}
	for gi, g := range grid {
		n, t := g[0], g[1]
		r := run.Rand(fmt.Sprintf("root-answered-%d", gi))
		for rep := 0; rep < run.Pick(1, 4); rep++ {
			dealer := r.IntN(n)
			P := (dealer + 1 + r.IntN(n-1)) % n
			B := P
			for B == P || B == dealer {
				B = r.IntN(n)
			}
			x := int64(P + 1)
			p := craftedPoly{kind: "root-at-complainer", a: make([]*big.Int, t+1)}
			for i := range p.a {
				p.a[i] = randScalar(r)
			}
			p.a[0] = new(big.Int)
			p.a[0] = ref.Fr.Neg(p.eval(x))
			if p.a[0].Sign() == 0 || p.eval(int64(B+1)).Sign() == 0 {
				continue
			}
			vec := p.vectorBytes()
			shareB := append([]byte{sim.TagShare}, scalar32(p.eval(int64(B+1)))...)
			for _, ak := range answers {
				for _, ps := range pshares {
					var body []byte
					switch ak {
					case "zero":
						body = make([]byte, 32)
					case "one":
						body = scalar32(big.NewInt(1))
					case "r":
						body = scalar32(ref.R)
					case "random":
						body = scalar32(randScalar(r))
					}
					var answer []byte
					if ak != "none" {
						answer = append([]byte{sim.TagAnswer, byte(P)}, body...)
					}
					var shareP []byte
					switch ps {
					case "zero":
						shareP = append([]byte{sim.TagShare}, make([]byte, 32)...)
					case "tag-only":
						shareP = []byte{sim.TagShare}
					case "one":
						shareP = append([]byte{sim.TagShare}, scalar32(big.NewInt(1))...)
					}
					repm := map[string]any{"n": n, "t": t, "dealer": dealer, "complainer": P, "bystander": B, "answer": ak, "complainer_share": ps, "vector": mon.Hex(vec)}
					type node struct {
						in  crypto.DKGState
						rp  *recProc
						err error
						gpk []byte
					}
					mk := func(id int) *node {
						rp := newRecProc()
						in, err := crypto.NewFeldmanVSSQual(n, t, id, rp, dealer)
						if err != nil {
							return nil
						}
						_ = in.Start(bytes.Repeat([]byte{byte(id + 9)}, 32))
						return &node{in: in, rp: rp}
					}
					// nB2: the same bystander seeing the same broadcasts in the other order (answer before complaint)
					nP, nB, nB2 := mk(P), mk(B), mk(B)
					if nP == nil || nB == nil || nB2 == nil {
						continue
					}
					problem := ""
					func() {
						defer func() {
							if e := recover(); e != nil {
								problem = fmt.Sprintf("panic: %v at %s", e, mon.PanicSite())
							}
						}()
						// round 1: vector to both, shares
						_ = nP.in.HandleBroadcastMsg(dealer, vec)
						_ = nB.in.HandleBroadcastMsg(dealer, vec)
						_ = nB.in.HandlePrivateMsg(dealer, shareB)
						_ = nB2.in.HandleBroadcastMsg(dealer, vec)
						_ = nB2.in.HandlePrivateMsg(dealer, shareB)
						if shareP != nil {
							_ = nP.in.HandlePrivateMsg(dealer, shareP)
						}
						_ = nP.in.NextTimeout()
						_ = nB.in.NextTimeout()
						_ = nB2.in.NextTimeout()
						// round 2: P's complaint(s) reach B, the dealer's answer reaches both; B2 sees the
						// answer first and the complaint(s) afterwards
						for _, bc := range nP.rp.bcast {
							_ = nB.in.HandleBroadcastMsg(P, bc)
						}
						if answer != nil {
							_ = nP.in.HandleBroadcastMsg(dealer, answer)
							_ = nB.in.HandleBroadcastMsg(dealer, answer)
							_ = nB2.in.HandleBroadcastMsg(dealer, answer)
						}
						for _, bc := range nP.rp.bcast {
							_ = nB2.in.HandleBroadcastMsg(P, bc)
						}
						_ = nP.in.NextTimeout()
						_ = nB.in.NextTimeout()
						_ = nB2.in.NextTimeout()
						for _, nd := range []*node{nP, nB, nB2} {
							_, gpk, _, err := nd.in.End()
							nd.err = err
							if err == nil {
								nd.gpk = gpk.Encode()
							}
						}
					}()
					run.Eval(1)
					run.Count("root-answered.runs", 1)
					if problem != "" {
						run.Violate("C07:root-polynomial-answered:problem", problem, repm)
						return
					}
					if (nP.err == nil) != (nB.err == nil) || (nP.err == nil && !bytes.Equal(nP.gpk, nB.gpk)) {
						run.Violate("C07:root-polynomial-answered:disagree:answer-"+ak, fmt.Sprintf("Feldman-VSS-Qual (n=%d,t=%d), polynomial with a root at the complainer's point, complainer's private message %q, dealer's answer %q: the complainer ends with %v, a bystander who saw the same broadcasts ends with %v", n, t, ps, ak, nP.err, nB.err), repm)
						return
					}
					if (nB2.err == nil) != (nB.err == nil) || (nB.err == nil && !bytes.Equal(nB2.gpk, nB.gpk)) {
						run.Violate("C07:root-polynomial-answered:disagree:order:answer-"+ak, fmt.Sprintf("Feldman-VSS-Qual (n=%d,t=%d), polynomial with a root at the complainer's point, complainer's private message %q, dealer's answer %q: a bystander who received complaint then answer ends with %v, one who received answer then complaint ends with %v", n, t, ps, ak, nB.err, nB2.err), repm)
						return
					}
					run.Shape(fmt.Sprintf("root-answered|%s|%s|%v", ak, ps, nP.err == nil))
				}
			}
		}
	}
	run.Require(run.Counter("root-answered.runs") >= 40, "fewer than 40 root-polynomial runs with an answered complaint")
}

// ---- a network that delivers synchronously -------------------------------------------------------

// syncNet routes every message straight to its receivers from inside the sender's PrivateSend / Broadcast
// call (an in-process transport): a reply that a message provokes reaches the original sender while its
// own call (NextTimeout, a handler) is still on the stack. Messages emitted during Start are queued and
// delivered once every participant has started. Delivery ORDER is a legal one - every broadcast reaches
// everybody in the round it was sent, per-sender order is kept - only the call nesting is unusual.
type syncNet struct {
	n        int
	nodes    []crypto.DKGState
	procs    []*syncProc
	queueing bool
	queue    []func()
	drop     func(from, to int, data []byte) bool // private messages the (Byzantine) sender withholds
	problem  string
}

type syncProc struct {
	net  *syncNet
	id   int
	disq map[int]bool
	flag int
}

func (p *syncProc) deliver(f func()) {
	if p.net.queueing {
		p.net.queue = append(p.net.queue, f)
		return
	}
	f()
}

func (p *syncProc) PrivateSend(dest int, data []byte) {
	c := append([]byte{}, data...)
	sim.Scribble(data)
	if p.net.drop != nil && p.net.drop(p.id, dest, c) {
		return
	}
	p.deliver(func() { _ = p.net.nodes[dest].HandlePrivateMsg(p.id, append([]byte{}, c...)) })
}

func (p *syncProc) Broadcast(data []byte) {
	c := append([]byte{}, data...)
	sim.Scribble(data)
	for j := 0; j < p.net.n; j++ {
		if j == p.id {
			continue
		}
		j := j
		p.deliver(func() { _ = p.net.nodes[j].HandleBroadcastMsg(p.id, append([]byte{}, c...)) })
	}
}
func (p *syncProc) Disqualify(i int, _ string)      { p.disq[i] = true }
func (p *syncProc) FlagMisbehavior(i int, _ string) { p.flag++ }

// dkgSynchronousNetwork: Feldman-VSS-Qual and Joint-Feldman over syncNet, with one Byzantine dealer that
// withholds the share of one victim and otherwise behaves (so the victim complains and the dealer's real
// instance answers correctly, re-entrantly). All honest participants must agree, the dealer stays qualified.
func dkgSynchronousNetwork(run *mon.Run) {
	grid := [][2]int{{3, 1}, {4, 1}, {5, 2}}
	if !run.Quick() {
		grid = append(grid, [2]int{6, 2}, [2]int{7, 3})
	}
	for gi, g := range grid {
		n, t := g[0], g[1]
		r := run.Rand(fmt.Sprintf("sync-net-%d", gi))
		for _, proto := range []string{"FeldmanVSSQual", "JointFeldman"} {
			for rep := 0; rep < run.Pick(3, 10); rep++ {
				byz := r.IntN(n)
				victim := (byz + 1 + r.IntN(n-1)) % n
				withhold := rep%3 != 2 // every third run is all-honest
				order := r.Perm(n)     // the order in which the participants' timeouts fire
				net := &syncNet{n: n, queueing: true}
				net.drop = func(from, to int, data []byte) bool {
					return withhold && from == byz && to == victim && len(data) > 0 && data[0] == sim.TagShare
				}
				repm := map[string]any{"protocol": proto, "n": n, "t": t, "byzantine_dealer": byz, "victim": victim, "withhold": withhold, "timeout_order": order}
				ok := true
				for id := 0; id < n && ok; id++ {
					p := &syncProc{net: net, id: id, disq: map[int]bool{}}
					var in crypto.DKGState
					var err error
					if proto == "FeldmanVSSQual" {
						in, err = crypto.NewFeldmanVSSQual(n, t, id, p, byz)
					} else {
						in, err = crypto.NewJointFeldman(n, t, id, p)
					}
					if err != nil {
						ok = false
					}
					net.nodes, net.procs = append(net.nodes, in), append(net.procs, p)
				}
				if !ok {
					continue
				}
				type outcome struct {
					err error
					gpk []byte
					pks string
				}
				outs := make([]outcome, n)
				if run.Guard("synchronous-network", repm, func() {
					for id := 0; id < n; id++ {
						_ = net.nodes[id].Start(mon.RandBytes(r, 32))
					}
					net.queueing = false
					q := net.queue
					net.queue = nil
					for _, f := range q {
						f()
					}
					for round := 0; round < 2; round++ {
						for _, id := range order {
							_ = net.nodes[id].NextTimeout()
						}
					}
					for id := 0; id < n; id++ {
						_, gpk, pks, err := net.nodes[id].End()
						outs[id].err = err
						if err == nil {
							outs[id].gpk = gpk.Encode()
							for _, k := range pks {
								outs[id].pks += mon.Hex(k.Encode())
							}
						}
					}
				}) {
					continue
				}
				run.Eval(n)
				run.Count("sync-net.runs", 1)
				ref0 := -1
				for id := 0; id < n; id++ {
					if id == byz && withhold {
						continue
					}
					if proto == "FeldmanVSSQual" && id == byz {
						continue
					}
					if len(net.procs[id].disq) != 0 || outs[id].err != nil {
						run.Violate("C07:synchronous-network:"+proto+":honest-run-disqualifies", fmt.Sprintf("%s (n=%d,t=%d) over a synchronously delivering network: participant %d reported disqualifications %v and End() = %v, although the only deviation was a withheld share that the dealer answered correctly (victim %d, dealer %d)", proto, n, t, id, net.procs[id].disq, outs[id].err, victim, byz), repm)
						ref0 = -2
						break
					}
					if ref0 < 0 {
						ref0 = id
						continue
					}
					if !bytes.Equal(outs[id].gpk, outs[ref0].gpk) || outs[id].pks != outs[ref0].pks {
						run.Violate("C07:synchronous-network:"+proto+":disagree", fmt.Sprintf("%s (n=%d,t=%d) over a synchronously delivering network: participants %d and %d end with different keys", proto, n, t, ref0, id), repm)
						break
					}
				}
				run.Shape(fmt.Sprintf("sync-net|%s|%d|%v", proto, n, withhold))
			}
		}
	}
	run.Require(run.Counter("sync-net.runs") >= 12, "synchronous-network runs not driven")
}
