//go:build cgo && !no_cgo

package checks

import (
	"bytes"
	"encoding/json"
	"fmt"
	"math/big"
	"math/rand/v2"
	"os"
	"sort"
	"strings"
	"sync"

	"github.com/onflow/crypto"

	"verif/harness/mon"
	"verif/harness/ref"
	"verif/harness/sim"
)

func init() {
	sim.MeasuredConv = func() ref.Conv { return measuredConv() }
}

// dkgScenarios enumerates the scenario list for a tier (deterministic in the seed).
func dkgScenarios(run *mon.Run, nQual, nJF int) []sim.Scenario {
	r := run.Rand("scenarios")
	var out []sim.Scenario
	var grid [][2]int
	for n := 2; n <= 7; n++ {
		for t := 1; t < n; t++ {
			grid = append(grid, [2]int{n, t})
		}
	}
	mk := func(p sim.Proto, i int) sim.Scenario {
		g := grid[i%len(grid)]
		n, t := g[0], g[1]
		maxB := min(t, n-1)
		nb := r.IntN(maxB + 1)
		if i%9 == 0 {
			nb = 0
		} else if i%3 == 0 {
			nb = maxB
		}
		byz := r.Perm(n)[:nb]
		sort.Ints(byz)
		sc := sim.Scenario{Seed: uint64(run.Seed)<<32 ^ uint64(i)*2654435761 ^ uint64(p)<<60, Proto: p, N: n, T: t, Byz: byz}
		if p == sim.FVSSQ {
			sc.Dealer = r.IntN(n)
			if nb > 0 && r.IntN(10) < 7 {
				sc.Dealer = byz[r.IntN(nb)]
			}
		}
		return sc
	}
	out = append(out, dkgDirected(run)...)
	out = append(out, dkgTwoByzantine(run)...)
	for i := 0; i < nQual; i++ {
		out = append(out, mk(sim.FVSSQ, i))
	}
	for i := 0; i < nJF; i++ {
		out = append(out, mk(sim.JF, i))
	}
	return out
}

// dkgDirected is the directed grid around one honest victim of one Byzantine dealer: every combination
// of what happens to the victim's share, when the vector is sent, an unsolicited answer, a broadcast that
// disqualifies the dealer afterwards, a late share and the way complaints are answered. Quick runs a
// seed-chosen third of the grid once; thorough runs all of it under four delivery orders.
func dkgDirected(run *mon.Run) []sim.Scenario {
	r := run.Rand("directed")
	shares := []string{"pass", "drop", "delay", "subst", "mangle:plus1", "dup"}
	vectors := []string{"pass", "hold"}
	earlies := []string{"none", "early-answer-valid@1", "early-answer-wrong@1", "early-answer-valid@2"}
	disqs := []string{"none", "empty-bcast@1", "empty-bcast@2", "unknown-tag@3", "second-vector-diff@1"}
	lates := []string{"none", "late-share@2", "late-share-wrong@2", "late-share-wrong@3"}
	answers := []string{"pass", "drop", "mangle:share-plus1"}
	sizes := [][2]int{{3, 1}, {4, 2}, {5, 2}, {4, 1}}
	var out []sim.Scenario
	k := 0
	orders := run.Pick(1, 4)
	for _, p := range []sim.Proto{sim.FVSSQ, sim.JF} {
		for _, sh := range shares {
			for _, ve := range vectors {
				for _, ea := range earlies {
					for _, dq := range disqs {
						for _, la := range lates {
							for _, an := range answers {
								k++
								if run.Quick() && r.IntN(3) != 0 {
									continue
								}
								for o := 0; o < orders; o++ {
									g := sizes[(k+o)%len(sizes)]
									n := g[0]
									b := r.IntN(n)
									victim := (b + 1 + r.IntN(n-1)) % n
									rec := fmt.Sprintf("victim=%d;share=%s;vector=%s;answer=%s;inj=%s,%s,%s", victim, sh, ve, an, ea, dq, la)
									sc := sim.Scenario{Seed: uint64(run.Seed)<<32 ^ uint64(k*8+o)*0x9e3779b97f4a7c15 ^ uint64(p)<<61 ^ 0xd1, Proto: p, N: n, T: g[1], Byz: []int{b}, Dealer: b, Recipe: rec}
									out = append(out, sc)
								}
							}
						}
					}
				}
			}
		}
	}
	return out
}

// dkgTwoByzantine: Joint-Feldman with two cooperating Byzantine participants and a boundary count. B gets
// itself disqualified as a dealer (in round 1 or in round 2) AND complains about D; D deals badly to exactly
// t honest participants and answers their complaints correctly, so that D has exactly t+1 complainers
// counting B - or exactly t without it. Whether a participant's standing as a dealer leaks into its role
// as a complainer (or as an answering dealer) shows as a disagreement or as a missed disqualification.
func dkgTwoByzantine(run *mon.Run) []sim.Scenario {
	r := run.Rand("two-byzantine")
	var out []sim.Scenario
	bDisq := []string{ // how B loses its standing as a dealer
		"vector=mangle:size-1", "vector=mangle:non-G2", "vector=drop", "vector=hold",
		"share=drop;answer=mangle:share-plus1", "share=mangle:plus1;answer=drop", "share=drop;answer=pass;inj=empty-bcast@2",
		"inj=second-vector-diff@1", "inj=unknown-tag@2", "vector=pass", // (the last: B stays qualified)
	}
	dShares := []string{"drop", "mangle:plus1", "subst"}
	k := 0
	for _, g := range [][2]int{{5, 2}, {6, 2}, {7, 3}, {7, 2}} {
		n, t := g[0], g[1]
		for _, bd := range bDisq {
			for _, ds := range dShares {
				for _, victims := range []int{t, t - 1} { // with B's complaint: t+1 (must be disqualified) or t complainers
					k++
					if run.Quick() && (k+int(run.Seed))%2 == 1 {
						continue
					}
					p := r.Perm(n)
					B, D := p[0], p[1]
					honest := p[2:]
					V := honest[len(honest)-1] // B's own victim (not one of D's)
					var vs []string
					for _, h := range honest[:victims] {
						vs = append(vs, fmt.Sprint(h))
					}
					recB := fmt.Sprintf("victim=%d;%s;victim=%d;inj=complaint@2", V, bd, D)
					if strings.Contains(bd, "inj=") { // keep both injections
						recB = fmt.Sprintf("victim=%d;%s;victim=%d;inj=complaint@2", V, strings.Replace(bd, "inj=", "inj=complaint@2,", 1), D)
						recB = fmt.Sprintf("victim=%d;inj=complaint@2;victim=%d;%s", D, V, bd)
					}
					recD := fmt.Sprintf("shares=%s@%s;answer=pass", ds, strings.Join(vs, "."))
					byz, rec := []int{B, D}, recB+" || "+recD
					if D < B {
						byz, rec = []int{D, B}, recD+" || "+recB
					}
					for o := 0; o < run.Pick(2, 6); o++ { // delivery orders
						out = append(out, sim.Scenario{Seed: uint64(run.Seed)<<32 ^ uint64(k*16+o)*0x9e3779b97f4a7c15 ^ 0x2b, Proto: sim.JF, N: n, T: t, Byz: byz, Recipe: rec})
					}
				}
			}
		}
	}
	return out
}

func runSim(sc sim.Scenario) (*sim.Sim, error) {
	s, err := sim.New(sc)
	if err != nil {
		return nil, err
	}
	s.Run()
	return s, nil
}

func scenarioReplay(sc sim.Scenario) map[string]any {
	return map[string]any{"scenario": sc, "how": "bin/check C07 replay <this file> re-runs the scenario bit for bit and prints the annotated log"}
}

// ---- ground truth from delivered messages (Appendix A.3) -----------------------------------

type groundTruth struct {
	vecBad      bool
	vecWhy      string
	complainers map[int]bool
	unanswered  map[int]string
	must        bool
	why         []string
}

func wellFormedScalar(b []byte) bool {
	if len(b) != 32 {
		return false
	}
	v := new(big.Int).SetBytes(b)
	return v.Sign() > 0 && v.Cmp(ref.R) < 0
}

// refVector decodes a landed vector with the reference decoders (slow path).
func refVector(data []byte, t int, cv ref.Conv) ([]ref.G2, string) {
	if len(data) != 1+96*(t+1) {
		return nil, "wrong-size"
	}
	pts := make([]ref.G2, t+1)
	for k := 0; k <= t; k++ {
		p, cls := ref.DecodeG2(data[1+96*k:1+96*(k+1)], cv)
		if cls != ref.DecOK {
			return nil, "point-" + cls.String()
		}
		if !ref.InG2(p) {
			return nil, "point-not-in-G2"
		}
		pts[k] = p
	}
	return pts, ""
}

func evalVector(pts []ref.G2, x int64) ref.G2 {
	acc := ref.E2.Infinity()
	xv := big.NewInt(x)
	for k := len(pts) - 1; k >= 0; k-- {
		acc = ref.E2.Add(ref.E2.Mul(acc, xv), pts[k])
	}
	return acc
}

func dkgGroundTruth(s *sim.Sim, d int, slowAlways bool) *groundTruth {
	gt := &groundTruth{complainers: map[int]bool{}, unanswered: map[int]string{}}
	honest := s.Honest()
	if len(honest) == 0 {
		return gt
	}
	h0 := -1
	for _, h := range honest {
		if h.ID != d {
			h0 = h.ID
			break
		}
	}
	if h0 < 0 {
		return gt
	}
	node := s.Nodes[d]
	hv, av, hs, as := node.Material()
	cv := measuredConv()
	// first vector-tagged broadcast of d as seen by h0
	var vec []byte
	vecRound := 0
	for _, dl := range s.Delivered {
		if dl.To == h0 && dl.From == d && dl.Bcast && len(dl.Data) > 0 && dl.Data[0] == sim.TagVector {
			vec, vecRound = dl.Data, dl.Round
			break
		}
	}
	var matchShare func(j int, scalar []byte) bool
	switch {
	case vec == nil || vecRound != 1:
		gt.vecBad, gt.vecWhy = true, "missing-or-late"
	case !slowAlways && hv != nil && bytes.Equal(vec, hv):
		matchShare = func(j int, sc []byte) bool { return len(hs[j]) == 33 && bytes.Equal(hs[j][1:], sc) }
	case !slowAlways && av != nil && bytes.Equal(vec, av):
		matchShare = func(j int, sc []byte) bool { return len(as[j]) == 33 && bytes.Equal(as[j][1:], sc) }
	default:
		pts, why := refVector(vec, s.Sc.T, cv)
		if why != "" {
			gt.vecBad, gt.vecWhy = true, why
		} else {
			matchShare = func(j int, sc []byte) bool {
				return ref.E2.Equal(ref.E2.Mul(ref.G2Gen, new(big.Int).SetBytes(sc)), evalVector(pts, int64(j+1)))
			}
		}
	}
	// honest complainers
	for _, h := range honest {
		j := h.ID
		if j == d {
			continue
		}
		var first []byte
		found := false
		for _, dl := range s.Delivered {
			if dl.To == j && dl.From == d && !dl.Bcast && dl.Round == 1 {
				first, found = dl.Data, true
				break
			}
		}
		switch {
		case !found:
			gt.complainers[j] = true
		case len(first) != 33 || first[0] != sim.TagShare || !wellFormedScalar(first[1:]):
			gt.complainers[j] = true
		case !gt.vecBad && !matchShare(j, first[1:]):
			gt.complainers[j] = true
		}
	}
	// Byzantine complainers: well-formed complaint [tag, d] landed in round 1 or 2
	for _, dl := range s.Delivered {
		if dl.To == h0 && dl.Bcast && dl.From != d && s.Nodes[dl.From].Byz && dl.Round <= 2 && len(dl.Data) == 2 && dl.Data[0] == sim.TagComplaint && int(dl.Data[1]) == d {
			gt.complainers[dl.From] = true
		}
	}
	// unanswered honest complaints
	if !gt.vecBad {
		for j := range gt.complainers {
			if s.Nodes[j].Byz {
				continue
			}
			state := "no-answer"
			for _, dl := range s.Delivered {
				if dl.To == h0 && dl.From == d && dl.Bcast && dl.Round <= 3 && len(dl.Data) == 34 && dl.Data[0] == sim.TagAnswer && int(dl.Data[1]) == j && wellFormedScalar(dl.Data[2:]) {
					if matchShare(j, dl.Data[2:]) {
						state = ""
					} else {
						state = "wrong-answer"
					}
					break
				}
			}
			if state != "" {
				gt.unanswered[j] = state
			}
		}
	}
	if gt.vecBad {
		gt.why = append(gt.why, "vector-"+gt.vecWhy)
	}
	if len(gt.complainers) > s.Sc.T {
		gt.why = append(gt.why, "more-than-t-complaints")
	}
	if len(gt.unanswered) > 0 {
		kinds := map[string]bool{}
		for _, v := range gt.unanswered {
			kinds[v] = true
		}
		for k := range kinds {
			gt.why = append(gt.why, "complaint-"+k)
		}
	}
	sort.Strings(gt.why)
	gt.must = len(gt.why) > 0
	return gt
}

// ---- oracles -------------------------------------------------------------------------------

func errClass(err error) string {
	switch {
	case err == nil:
		return "ok"
	case crypto.IsDKGFailureError(err):
		return "dkg-failure"
	case crypto.IsDKGInvalidStateTransitionError(err):
		return "state-transition"
	case crypto.IsInvalidInputsError(err):
		return "invalid-inputs"
	default:
		return "other:" + err.Error()
	}
}

// classifyDisagreement names the pattern behind two honest nodes disagreeing about dealer d
// (from the event log; an unknown pattern gets a hash so it is never matched by a known entry).
func classifyDisagreement(s *sim.Sim, d int, nodes ...int) string {
	var pats []string
	for _, x := range nodes {
		ownComplaintSeq := -1
		complaints := 0
		for _, e := range s.Log {
			if e.Kind == "send-bcast" && e.Node == x && len(e.Data) == 2 && e.Data[0] == sim.TagComplaint && int(e.Data[1]) == d {
				if ownComplaintSeq < 0 {
					ownComplaintSeq = e.Seq
				}
				complaints++
			}
		}
		for _, e := range s.Log {
			if e.Kind == "deliver-bcast" && e.Node == x && e.Peer == d && len(e.Data) == 34 && e.Data[0] == sim.TagAnswer && int(e.Data[1]) == x {
				if ownComplaintSeq < 0 || e.Seq < ownComplaintSeq {
					pats = append(pats, "answer-before-own-complaint")
				}
				break
			}
		}
		if complaints > 1 {
			pats = append(pats, "double-complaint")
		}
	}
	if len(pats) == 0 {
		// hash of the message kinds concerning d, in delivery order at the first node
		h := uint64(1469598103934665603)
		for _, e := range s.Log {
			if (e.Kind == "deliver-bcast" || e.Kind == "deliver-priv") && e.Node == nodes[0] && e.Peer == d {
				tag := byte(255)
				if len(e.Data) > 0 {
					tag = e.Data[0]
				}
				h = (h ^ uint64(tag) ^ uint64(len(e.Data))<<8) * 1099511628211
			}
		}
		return fmt.Sprintf("unclassified:%x", h&0xffffffff)
	}
	sort.Strings(pats)
	out := pats[:1]
	for _, p := range pats[1:] {
		if p != out[len(out)-1] {
			out = append(out, p)
		}
	}
	return strings.Join(out, "+")
}

func oracleC07(run *mon.Run, s *sim.Sim, tierT bool, r *rand.Rand) {
	hs := s.Honest()
	if len(hs) == 0 {
		return
	}
	rep := scenarioReplay(s.Sc)
	id := "C07:" + s.Sc.Proto.String()
	for _, p := range s.Problems {
		kind := "handler-error"
		if strings.HasPrefix(p, "PANIC") {
			kind = "honest-panic"
		}
		run.Violate(fmt.Sprintf("%s:%s", id, kind), p, rep)
	}
	for _, h := range hs {
		if !h.Ended {
			return // a panic was already reported
		}
	}
	// (ii) identical outcome class, only ok / dkg-failure
	cls := errClass(hs[0].EndErr)
	for _, h := range hs {
		c := errClass(h.EndErr)
		if c != "ok" && c != "dkg-failure" {
			run.Violate(id+":end-error-class:"+strings.SplitN(c, ":", 2)[0], fmt.Sprintf("End() at honest node %d returned %v", h.ID, h.EndErr), rep)
			return
		}
		if c != cls {
			dd := s.Sc.Dealer
			if s.Sc.Proto == sim.JF {
				dd = -1
				for d := 0; d < s.Sc.N; d++ {
					if h.Disq[d] != hs[0].Disq[d] {
						dd = d
						break
					}
				}
			}
			run.Violate(fmt.Sprintf("%s:disagree:outcome:%s", id, classifyDisagreement(s, dd, hs[0].ID, h.ID)), fmt.Sprintf("honest node %d ends with %s but honest node %d ends with %s", hs[0].ID, cls, h.ID, c), rep)
			return
		}
	}
	// (i) identical disqualified-dealer sets
	if s.Sc.Proto == sim.JF {
		for _, h := range hs[1:] {
			for d := 0; d < s.Sc.N; d++ {
				if h.Disq[d] != hs[0].Disq[d] {
					run.Violate(fmt.Sprintf("%s:disagree:D_sets:%s", id, classifyDisagreement(s, d, hs[0].ID, h.ID)), fmt.Sprintf("dealer %d is disqualified at honest node %d: %v, at honest node %d: %v", d, hs[0].ID, hs[0].Disq[d], h.ID, h.Disq[d]), rep)
					return
				}
			}
		}
	}
	run.Count("end."+cls, 1)
	// (vi) bounded progress: when every participant is honest and every message was delivered, the
	// protocol ends with keys (a DKG that always fails would satisfy "agreement" trivially)
	if len(s.Sc.Byz) == 0 && cls != "ok" {
		run.Violate(id+":all-honest-run-fails", fmt.Sprintf("all %d participants are honest and every message was delivered in its round, yet End() returns %v", s.Sc.N, hs[0].EndErr), rep)
		return
	}
	// (vii) what a node reports and what it returns belong together: a node that reported Disqualify
	// for the (single) dealer must end with a DKG failure
	if s.Sc.Proto == sim.FVSSQ {
		for _, h := range hs {
			if h.ID != s.Sc.Dealer && h.Disq[s.Sc.Dealer] && h.EndErr == nil {
				run.Violate(id+":keys-despite-reported-disqualification", fmt.Sprintf("honest node %d reported Disqualify(%d) and End() still returned keys", h.ID, s.Sc.Dealer), rep)
				return
			}
		}
	}
	// (viii, Joint-Feldman) the documented outcome of End: a DKG failure exactly when more than t dealers were
	// disqualified (or fewer than t+1 remain); with at most t Byzantine participants and nobody else ever
	// disqualified, a node that reported at most t disqualifications ends with keys
	if s.Sc.Proto == sim.JF {
		for _, h := range hs {
			if !h.Ended {
				continue
			}
			nd := 0
			for d := 0; d < s.Sc.N; d++ {
				if h.Disq[d] {
					nd++
				}
			}
			mustFail := nd > s.Sc.T || s.Sc.N-nd <= s.Sc.T
			run.Count(fmt.Sprintf("jf.end-vs-disqualified.%v", mustFail), 1)
			if mustFail && h.EndErr == nil {
				run.Violate(id+":keys-despite-too-many-disqualified", fmt.Sprintf("honest node %d reported %d disqualified dealers (t=%d, n=%d) and End() still returned keys", h.ID, nd, s.Sc.T, s.Sc.N), rep)
				return
			}
			if !mustFail && h.EndErr != nil {
				run.Violate(id+":failure-with-few-disqualified", fmt.Sprintf("honest node %d reported only %d disqualified dealers (t=%d, n=%d; a failure is documented for more than t) and End() returned %v", h.ID, nd, s.Sc.T, s.Sc.N, h.EndErr), rep)
				return
			}
		}
	}
	if cls != "ok" {
		return
	}
	// (vii, Joint-Feldman) the group key is the sum of the secrets' commitments A_0 of exactly the dealers
	// the node did not report as disqualified (A_0 = first point of the first vector the dealer broadcast)
	if s.Sc.Proto == sim.JF {
		h := hs[0]
		var parts []crypto.PublicKey
		okAll := true
		for d := 0; d < s.Sc.N && okAll; d++ {
			if h.Disq[d] {
				continue
			}
			var a0 []byte
			if d == h.ID {
				// own dealing: take it from what the node itself broadcast
				for _, e := range s.Log {
					if e.Kind == "send-bcast" && e.Node == d && len(e.Data) >= 97 && e.Data[0] == sim.TagVector {
						a0 = e.Data[1:97]
						break
					}
				}
			} else {
				for _, dl := range s.Delivered {
					if dl.Bcast && dl.From == d && dl.To == h.ID && len(dl.Data) >= 97 && dl.Data[0] == sim.TagVector {
						a0 = dl.Data[1:97]
						break
					}
				}
			}
			if a0 == nil {
				okAll = false
				break
			}
			k, err := crypto.DecodePublicKey(BLS, a0)
			if err != nil {
				okAll = false
				break
			}
			parts = append(parts, k)
		}
		if okAll && len(parts) > 0 {
			want, err := crypto.AggregateBLSPublicKeys(parts)
			run.Count("group-key-vs-qualified-set", 1)
			if err == nil && !want.Equals(h.GPK) {
				run.Violate(id+":group-key-not-sum-of-qualified-dealers", fmt.Sprintf("honest node %d: the group key is not the sum of A_0 over the dealers it did not report as disqualified (reported: %v)", h.ID, h.Disq), rep)
				return
			}
		}
	}
	// (iii) identical keys
	for _, h := range hs[1:] {
		if !bytes.Equal(h.GPK.Encode(), hs[0].GPK.Encode()) {
			run.Violate(id+":disagree:group-key", fmt.Sprintf("group keys differ between honest nodes %d and %d", hs[0].ID, h.ID), rep)
			return
		}
		for i := range h.PKs {
			if !bytes.Equal(h.PKs[i].Encode(), hs[0].PKs[i].Encode()) {
				run.Violate(id+":disagree:public-shares", fmt.Sprintf("public share %d differs between honest nodes %d and %d", i, hs[0].ID, h.ID), rep)
				return
			}
		}
	}
	// (iv) own private share matches own public share
	for _, h := range hs {
		if len(h.PKs) != s.Sc.N || !h.SK.PublicKey().Equals(h.PKs[h.ID]) {
			run.Violate(id+":private-share-mismatch", fmt.Sprintf("honest node %d: private share does not match public share %d", h.ID, h.ID), rep)
			return
		}
	}
	// (v) operational: (t+1)-subsets of honest nodes reconstruct a signature valid under the group key
	t := s.Sc.T
	if len(hs) >= t+1 {
		msg := []byte(fmt.Sprintf("dkg-%d", s.Sc.Seed))
		hk := crypto.NewExpandMsgXOFKMAC128("dkg-check")
		for trial := 0; trial < 3; trial++ {
			pm := r.Perm(len(hs))[:t+1]
			var shares []crypto.Signature
			var signers []int
			for _, i := range pm {
				sg, err := hs[i].SK.Sign(msg, hk)
				if err != nil {
					return
				}
				shares = append(shares, sg)
				signers = append(signers, hs[i].ID)
			}
			ts, err := crypto.BLSReconstructThresholdSignature(s.Sc.N, t, shares, signers)
			ok := false
			if err == nil {
				ok, err = hs[0].GPK.Verify(ts, msg, hk)
			}
			run.Eval(1)
			if err != nil || !ok {
				run.Violate(id+":threshold-signature-invalid", fmt.Sprintf("signers %v reconstruct a signature that does not verify under the group key (%v)", signers, err), rep)
				return
			}
		}
		run.Count("threshold-checks", 1)
	}
	// (v') in the exponent, by the reference (thorough tier, sampled): all public shares on one
	// polynomial of degree <= t with value at 0 equal to the group key
	if tierT {
		cv := measuredConv()
		pts := make([]ref.G2, s.Sc.N)
		for i, pk := range hs[0].PKs {
			p, c := ref.DecodeG2(pk.Encode(), cv)
			if c != ref.DecOK {
				run.Violate(id+":public-share-undecodable", "public share rejected by the reference decoder", rep)
				return
			}
			pts[i] = p
		}
		g0, _ := ref.DecodeG2(hs[0].GPK.Encode(), cv)
		xs := make([]int64, t+1)
		for i := range xs {
			xs[i] = int64(i + 1)
		}
		interp := func(at int64) ref.G2 {
			acc := ref.E2.Infinity()
			for i := range xs {
				num, den := big.NewInt(1), big.NewInt(1)
				for j := range xs {
					if i != j {
						num = ref.Fr.Mul(num, ref.Fr.FromInt(at-xs[j]))
						den = ref.Fr.Mul(den, ref.Fr.FromInt(xs[i]-xs[j]))
					}
				}
				acc = ref.E2.Add(acc, ref.E2.Mul(pts[i], ref.Fr.Mul(num, ref.Fr.Inv(den))))
			}
			return acc
		}
		if !ref.E2.Equal(interp(0), g0) {
			run.Violate(id+":group-key-not-on-polynomial", "public shares 0..t do not interpolate to the group key", rep)
			return
		}
		for i := t + 1; i < s.Sc.N; i++ {
			if !ref.E2.Equal(interp(int64(i+1)), pts[i]) {
				run.Violate(id+":shares-not-on-polynomial", fmt.Sprintf("public share %d is not on the degree-%d polynomial through shares 0..%d", i, t, t), rep)
				return
			}
		}
		for _, h := range hs {
			if !ref.E2.Equal(ref.E2.Mul(ref.G2Gen, skScalar(h.SK)), pts[h.ID]) {
				run.Violate(id+":private-share-mismatch-reference", "reference [sk_i]g2 differs from public share i", rep)
				return
			}
		}
		run.Count("exponent-checks", 1)
	}
}

func oracleC08(run *mon.Run, s *sim.Sim, slow bool) {
	rep := scenarioReplay(s.Sc)
	id := "C08:" + s.Sc.Proto.String()
	// (a) fairness: no honest reporter blames an honest target
	for _, e := range s.Log {
		if (e.Kind == "disqualify" || e.Kind == "flag") && !s.Nodes[e.Node].Byz && e.Peer >= 0 && e.Peer < s.Sc.N && !s.Nodes[e.Peer].Byz {
			pat := "other"
			switch {
			case strings.Contains(e.Note, "complaint was already received"):
				pat = "duplicate-complaint"
				if s.Features["order.share-before-vector"] > 0 {
					pat += ":share-before-vector"
				}
			case strings.Contains(e.Note, "complaint"):
				pat = "complaint"
			case strings.Contains(e.Note, "vector"):
				pat = "vector"
			case strings.Contains(e.Note, "share"):
				pat = "share"
			}
			run.Violate(fmt.Sprintf("%s:honest-%s:%s", id, map[string]string{"disqualify": "disqualified", "flag": "flagged"}[e.Kind], pat),
				fmt.Sprintf("honest node %d reported honest node %d (%s): %q", e.Node, e.Peer, e.Kind, e.Note), rep)
			return
		}
	}
	// (b) converse: a Byzantine dealer meeting one of the four stated causes is disqualified everywhere
	hs := s.Honest()
	for _, d := range s.Sc.Byz {
		if s.Sc.Proto == sim.FVSSQ && d != s.Sc.Dealer {
			continue
		}
		gt := dkgGroundTruth(s, d, slow)
		run.Eval(1)
		if gt.must {
			run.Count("must-disqualify", 1)
			for _, w := range gt.why {
				run.Count("cause."+w, 1)
			}
		} else {
			run.Count("may-qualify", 1)
		}
		if !gt.must {
			continue
		}
		for _, h := range hs {
			if !h.Ended {
				continue
			}
			disq := h.Disq[d]
			if s.Sc.Proto == sim.FVSSQ {
				disq = crypto.IsDKGFailureError(h.EndErr)
			}
			if !disq {
				run.Violate(fmt.Sprintf("%s:bad-dealer-accepted:%s", id, strings.Join(gt.why, "+")),
					fmt.Sprintf("Byzantine dealer %d must be disqualified (%s) but honest node %d did not disqualify it", d, strings.Join(gt.why, ", "), h.ID), rep)
				return
			}
		}
	}
}

// dkgDrive runs the scenario list on 16 workers and applies one oracle.
func dkgDrive(run *mon.Run, which string) {
	nQual, nJF := run.Pick(2000, 150000), run.Pick(600, 40000)
	if os.Getenv("VERIF_DKG_SCALE") != "" {
		var f float64
		fmt.Sscan(os.Getenv("VERIF_DKG_SCALE"), &f)
		nQual, nJF = int(float64(nQual)*f), int(float64(nJF)*f)
	}
	scs := dkgScenarios(run, nQual, nJF)
	var wg sync.WaitGroup
	sem := make(chan struct{}, 16)
	var mu sync.Mutex
	feat := map[string]int{}
	for i, sc := range scs {
		wg.Add(1)
		sem <- struct{}{}
		go func(i int, sc sim.Scenario) {
			defer wg.Done()
			defer func() { <-sem }()
			defer run.Protect("c07 worker")
			defer func() {
				if e := recover(); e != nil {
					run.Inconclusive(fmt.Sprintf("simulator panic on scenario %d: %v at %s", i, e, mon.PanicSite()))
				}
			}()
			s, err := runSim(sc)
			if err != nil {
				run.Inconclusive("cannot build scenario: " + err.Error())
				return
			}
			run.Eval(1)
			r := rand.New(rand.NewPCG(sc.Seed, 77))
			tierT := !run.Quick() && i%10 == 0 || run.Quick() && i%100 == 0
			if which == "C07" {
				oracleC07(run, s, tierT, r)
			} else {
				oracleC08(run, s, tierT)
			}
			run.Shape(s.FeatureKey())
			run.SetAdd("delivery-orders", fmt.Sprint(s.OrderHash()))
			run.Count("runs."+sc.Proto.String(), 1)
			run.Count(fmt.Sprintf("byzantine-count.%d", len(sc.Byz)), 1)
			mu.Lock()
			for k, v := range s.Features {
				if v > 0 {
					feat[k]++
				}
			}
			for _, e := range s.Log {
				if e.Kind == "disqualify" || e.Kind == "flag" || e.Kind == "puppet-panic" {
					feat["callback."+e.Kind]++
				}
			}
			mu.Unlock()
			if i < 2 || i == len(scs)-1 {
				run.Sample(map[string]any{"scenario": sc, "events": len(s.Log), "delivered": len(s.Delivered), "features": s.Features})
			}
		}(i, sc)
	}
	wg.Wait()
	run.Extra["scenarios_with_feature"] = feat
	for _, k := range []string{"order.share-before-vector", "order.vector-before-share", "order.answer-before-complaint", "order.answer-after-complaint", "complaint.round-1", "complaint.round-2", "complaint.byzantine", "complaint.honest", "order.duplicate-complaint", "late.vector"} {
		run.Require(feat[k] >= 10, fmt.Sprintf("order feature %s seen in %d scenarios (< 10)", k, feat[k]))
	}
	run.Require(run.SetLen("delivery-orders") >= len(scs)/2, "too few distinct delivery orders")
}

// dkgLargeGroups: honest dealings in groups up to the maximum size (participant indices up to 253, far
// beyond the simulator's n <= 7): each sampled receiver's End() must return the group key A_0, every one
// of the n public key shares equal to the reference evaluation of the broadcast vector at that index,
// and a private share matching its public share; (so receivers agree with each other).
func dkgLargeGroups(run *mon.Run) {
	r := run.Rand("large-groups")
	cv := measuredConv()
	groups := [][2]int{{254, 1}, {254, 2}, {200, 3}, {129, 2}}
	if !run.Quick() {
		groups = append(groups, [2]int{254, 7}, [2]int{253, 4}, [2]int{172, 5}, [2]int{171, 1}, [2]int{255 - 1, 126})
	}
	for _, g := range groups {
		n, t := g[0], g[1]
		for _, proto := range []string{"FeldmanVSS", "FeldmanVSSQual"} {
			dealerIdx := []int{0, n - 1, r.IntN(n)}[r.IntN(3)]
			mk := func(id int, pr crypto.DKGProcessor) (crypto.DKGState, error) {
				if proto == "FeldmanVSS" {
					return crypto.NewFeldmanVSS(n, t, id, pr, dealerIdx)
				}
				return crypto.NewFeldmanVSSQual(n, t, id, pr, dealerIdx)
			}
			rep := map[string]any{"n": n, "t": t, "protocol": proto, "dealer": dealerIdx}
			dp := newLgProc()
			dealer, err := mk(dealerIdx, dp)
			if err != nil {
				run.Violate("C07:large-group:constructor", err.Error(), rep)
				continue
			}
			if err := dealer.Start(mon.RandBytes(r, 32)); err != nil || len(dp.bcast) == 0 {
				run.Violate("C07:large-group:start", fmt.Sprintf("dealer Start: %v, %d broadcasts", err, len(dp.bcast)), rep)
				continue
			}
			pts, why := refVector(dp.bcast[0], t, cv)
			if pts == nil {
				run.Violate("C07:large-group:vector", "the honest dealer's vector is not well formed: "+why, rep)
				continue
			}
			want := make([][]byte, n)
			for j := 0; j < n; j++ {
				want[j] = ref.EncodeG2(evalVector(pts, int64(j+1)), cv)
			}
			recv := map[int]bool{(dealerIdx + 1) % n: true, 127 % n: true, 128 % n: true, 169 % n: true, 170 % n: true, 171 % n: true, n - 1: true, r.IntN(n): true}
			delete(recv, dealerIdx)
			for id := range recv {
				rp := newLgProc()
				in, err := mk(id, rp)
				if err != nil {
					continue
				}
				var sk crypto.PrivateKey
				var gpk crypto.PublicKey
				var pks []crypto.PublicKey
				var endErr error
				if run.Guard("large-group receiver", rep, func() {
					_ = in.Start(mon.RandBytes(r, 32))
					_ = in.HandleBroadcastMsg(dealerIdx, dp.bcast[0])
					_ = in.HandlePrivateMsg(dealerIdx, dp.shares[id])
					if proto != "FeldmanVSS" {
						_ = in.NextTimeout()
						_ = in.NextTimeout()
					}
					sk, gpk, pks, endErr = in.End()
				}) {
					continue
				}
				run.Eval(1)
				run.Count("large-group.receivers", 1)
				if endErr != nil || len(rp.ev) > 0 || len(rp.bcast) > 0 {
					run.Violate("C07:large-group:honest-dealing-refused", fmt.Sprintf("receiver %d of n=%d: End error %v, callbacks %v, %d broadcasts", id, n, endErr, rp.ev, len(rp.bcast)), rep)
					continue
				}
				if !bytes.Equal(gpk.Encode(), ref.EncodeG2(pts[0], cv)) {
					run.Violate("C07:large-group:group-key", fmt.Sprintf("receiver %d: group key is not A_0", id), rep)
				}
				for j := 0; j < n; j++ {
					if !bytes.Equal(pks[j].Encode(), want[j]) {
						run.Violate(fmt.Sprintf("C07:large-group:public-share:index-%s", idxClass(j)), fmt.Sprintf("receiver %d of n=%d t=%d: public key share %d differs from the vector evaluated at %d", id, n, t, j, j+1), rep)
						break
					}
				}
				if !sk.PublicKey().Equals(pks[id]) || !bytes.Equal(sk.PublicKey().Encode(), want[id]) {
					run.Violate("C07:large-group:private-share-mismatch", fmt.Sprintf("receiver %d: private share does not match its public share", id), rep)
				}
				run.Shape(fmt.Sprintf("large-group|%s|n%d|t%d|recv-%s", proto, n, t, idxClass(id)))
			}
		}
	}
	run.Require(run.Counter("large-group.receivers") >= 20, "fewer than 20 large-group receivers completed")
}

// lgProc records what one instance of a large-group run sends and reports.
type lgProc struct {
	shares map[int][]byte
	bcast  [][]byte
	ev     []string
}

func newLgProc() *lgProc { return &lgProc{shares: map[int][]byte{}} }
func (p *lgProc) PrivateSend(dest int, data []byte) {
	p.shares[dest] = append([]byte{}, data...)
	sim.Scribble(data)
}
func (p *lgProc) Broadcast(data []byte) {
	p.bcast = append(p.bcast, append([]byte{}, data...))
	sim.Scribble(data)
}
func (p *lgProc) Disqualify(i int, l string) {
	p.ev = append(p.ev, fmt.Sprintf("disqualify %d: %s", i, l))
}
func (p *lgProc) FlagMisbehavior(i int, l string) {
	p.ev = append(p.ev, fmt.Sprintf("flag %d: %s", i, l))
}

func idxClass(j int) string {
	switch {
	case j < 8:
		return "lt8"
	case j < 128:
		return "lt128"
	case j < 170:
		return "lt170"
	default:
		return "ge170"
	}
}

// C07: DKG agreement.
func C07(run *mon.Run) {
	run.Rule = "seeded scenarios (protocol, n<=7, t, <=t Byzantine puppets with scripts from the message grammar, scheduler coins) executed on real instances under the round-synchronous delivery model; shape = (protocol, n, t, #Byzantine, set of order/behaviour features the schedule actually exercised); distinct delivery orders counted by hash"
	run.Assumptions = []string{"delivery model of DESIGN.md A.1: every broadcast lands in the same round at every honest receiver, FIFO per sender; messages emitted at a round's first instant land in that round, reactive ones in that round or the next", "at most t Byzantine participants; liveness is not claimed"}
	dkgDrive(run, "C07")
	dkgLargeGroups(run)
	dkgCraftedDealings(run)
	dkgRootAnswered(run)
	dkgSynchronousNetwork(run)
	run.Require(run.Counter("end.ok") >= 50 && run.Counter("end.dkg-failure") >= 50, "both honest outcomes (keys / DKG failure) not seen at least 50 times")
}

// C07Replay re-runs one scenario from a replay file and prints the annotated log.
func C07Replay(path string) int {
	b, err := os.ReadFile(path)
	if err != nil {
		fmt.Println(err)
		return 2
	}
	var rec struct {
		Replay struct {
			Scenario sim.Scenario `json:"scenario"`
		} `json:"replay"`
	}
	if err := json.Unmarshal(b, &rec); err != nil {
		fmt.Println(err)
		return 2
	}
	s, err := runSim(rec.Replay.Scenario)
	if err != nil {
		fmt.Println(err)
		return 2
	}
	fmt.Print(s.DumpLog())
	for _, h := range s.Honest() {
		var dq []int
		for d, v := range h.Disq {
			if v {
				dq = append(dq, d)
			}
		}
		sort.Ints(dq)
		fmt.Printf("honest node %d: End=%s disqualified=%v\n", h.ID, errClass(h.EndErr), dq)
	}
	return 0
}

func init() {
	Registry["C07"] = C07
	Replays["C07"] = C07Replay
	Replays["C08"] = C07Replay
}
