//go:build cgo && !no_cgo

package checks

import (
	"bytes"
	"fmt"
	"math/big"
	"math/rand/v2"
	"sync"
	"sync/atomic"

	"github.com/onflow/crypto"

	"verif/harness/mon"
	"verif/harness/ref"
)

type bcase struct {
	b    []byte
	kind string
}

func flipBit(b []byte, i int) []byte {
	c := append([]byte{}, b...)
	c[i/8] ^= 0x80 >> (i % 8)
	return c
}

var boundaryFp = sync.OnceValue(func() []*big.Int {
	p := ref.P
	return []*big.Int{big.NewInt(0), big.NewInt(1), new(big.Int).Sub(p, big.NewInt(1)), new(big.Int).Set(p), new(big.Int).Add(p, big.NewInt(1)),
		new(big.Int).Sub(new(big.Int).Lsh(big.NewInt(1), 381), big.NewInt(1))}
})

// lengthCases: every length 0..200 in three fillings.
func lengthCases(valid []byte, r *rand.Rand, skip int) []bcase {
	var cs []bcase
	for l := 0; l <= 200; l++ {
		if l == skip {
			continue
		}
		var b []byte
		if l <= len(valid) {
			b = append([]byte{}, valid[:l]...)
		} else {
			b = append(append([]byte{}, valid...), mon.RandBytes(r, l-len(valid))...)
		}
		cs = append(cs, bcase{b, "length"})
		if l%9 == 0 {
			cs = append(cs, bcase{make([]byte, l), "length-zeros"})
		}
	}
	cs = append(cs, bcase{nil, "length"})
	return cs
}

// ---------------------------------------------------------------------------------------

func c05G1Cases(r *rand.Rand, nFlipEnc int) []bcase {
	var cs []bcase
	valid := ref.EncodeG1(ref.E1.Mul(ref.G1Gen, randScalar(r)))
	cs = append(cs, lengthCases(valid, r, 48)...)
	for f := 0; f < 8; f++ {
		v := append([]byte{}, valid...)
		v[0] = v[0]&0x1F | byte(f<<5)
		z := make([]byte, 48)
		z[0] = byte(f << 5)
		cs = append(cs, bcase{v, "flags-valid-body"}, bcase{z, "flags-zero-body"})
	}
	for _, x := range boundaryFp() {
		for _, hdr := range []byte{0x80, 0xA0} {
			b := x.FillBytes(make([]byte, 48))
			b[0] |= hdr
			cs = append(cs, bcase{b, "boundary-x"})
		}
	}
	inf := make([]byte, 48)
	inf[0] = 0xC0
	cs = append(cs, bcase{append([]byte{}, inf...), "infinity"})
	for i := 1; i < 48; i++ {
		for _, v := range []byte{0x01, 0x80, byte(1 + r.IntN(255))} {
			c := append([]byte{}, inf...)
			c[i] = v
			cs = append(cs, bcase{c, "infinity-nonzero-byte"})
		}
	}
	for bit := 3; bit < 8; bit++ {
		c := append([]byte{}, inf...)
		c[0] |= 0x80 >> bit
		cs = append(cs, bcase{c, "infinity-nonzero-byte"})
	}
	for rep := 0; rep < 3; rep++ {
		for _, g := range cancellingGarbage(r, 48) {
			c := append([]byte{}, inf...)
			for i, v := range g {
				c[i] |= v
			}
			cs = append(cs, bcase{c, "infinity-cancelling-garbage"})
		}
	}
	// on-curve points outside G1, incl. small-order components
	for i := 0; i < 12; i++ {
		g := ref.E1.Mul(ref.G1Gen, randScalar(r))
		cs = append(cs, bcase{ref.EncodeG1(ref.E1.Add(g, tor3())), "non-subgroup"}, bcase{ref.EncodeG1(ref.E1.Add(g, tor11())), "non-subgroup"},
			bcase{ref.EncodeG1(ref.NonSubgroupE1(mon.RandBytes(r, 8))), "non-subgroup"})
	}
	cs = append(cs, bcase{ref.EncodeG1(tor3()), "non-subgroup"})
	for e := 0; e < nFlipEnc; e++ {
		v := ref.EncodeG1(ref.E1.Mul(ref.G1Gen, randScalar(r)))
		cs = append(cs, bcase{v, "valid"})
		for i := 0; i < 384; i++ {
			cs = append(cs, bcase{flipBit(v, i), "bitflip"})
		}
	}
	// points with a tiny x coordinate (first bytes all zero): every flag combination over them
	for x, found := int64(0), 0; x < 200 && found < 8; x++ {
		b := big.NewInt(x).FillBytes(make([]byte, 48))
		b[0] |= 0x80
		if _, cls := ref.DecodeG1(b); cls != ref.DecOK {
			continue
		}
		found++
		for f := 0; f < 8; f++ {
			c := append([]byte{}, b...)
			c[0] = c[0]&0x1F | byte(f<<5)
			cs = append(cs, bcase{c, "small-x-flags"})
		}
	}
	for i := 0; i < 300; i++ {
		b := mon.RandBytes(r, 48)
		if i%3 != 0 {
			b[0] = 0x80 | b[0]&0x3F
		}
		cs = append(cs, bcase{b, "random"})
	}
	// non-reduced x of valid points
	for tries, found := 0, 0; tries < 400 && found < 6; tries++ {
		p := ref.E1.Mul(ref.G1Gen, randScalar(r))
		xp := new(big.Int).Add(p.X, ref.P)
		if xp.BitLen() <= 381 {
			enc := ref.EncodeG1(p)
			b := xp.FillBytes(make([]byte, 48))
			b[0] |= enc[0] & 0xE0
			cs = append(cs, bcase{b, "x-plus-p"})
			found++
		}
	}
	// valid points whose x is just below p (the largest canonical values): must be accepted and re-encoded
	// unchanged; and x just above a power of two / just below 2^380 likewise
	for _, start := range []*big.Int{new(big.Int).Sub(ref.P, big.NewInt(1)), new(big.Int).Sub(ref.P, new(big.Int).Lsh(big.NewInt(1), 64)), new(big.Int).Sub(ref.P, new(big.Int).Lsh(big.NewInt(1), 200)), new(big.Int).Sub(ref.P, new(big.Int).Lsh(big.NewInt(1), 359)), new(big.Int).Lsh(big.NewInt(0x1a0111), 357), new(big.Int).Lsh(big.NewInt(0x1a01), 365), new(big.Int).Lsh(big.NewInt(1), 380)} {
		found := 0
		for d := int64(0); d < 400 && found < 2; d++ {
			x := new(big.Int).Sub(start, big.NewInt(d))
			if x.Sign() <= 0 || x.Cmp(ref.P) >= 0 {
				continue
			}
			y := ref.Fp.Sqrt(ref.Fp.Add(ref.Fp.Mul(ref.Fp.Mul(x, x), x), big.NewInt(4)))
			if y == nil {
				continue
			}
			pt := ref.G1{X: x, Y: y}
			if !ref.E1.IsOnCurve(pt) {
				continue
			}
			cs = append(cs, bcase{ref.EncodeG1(pt), "x-near-p"}, bcase{ref.EncodeG1(ref.E1.Neg(pt)), "x-near-p"})
			found++
		}
	}
	// on-curve points whose x has its top bit at a 64-bit limb boundary (x = 2^(64j+63) + d), canonical and
	// with x + p: the two encodings agree with p on the upper limbs and differ from it by >= 2^63 in one limb
	for j := uint(0); j < 5; j++ {
		for _, off := range []uint{63, 62, 64} {
			base := new(big.Int).Lsh(big.NewInt(1), 64*j+off)
			for d := int64(0); d < 200; d++ {
				x := new(big.Int).Add(base, big.NewInt(d))
				y2 := ref.Fp.Add(ref.Fp.Mul(ref.Fp.Mul(x, x), x), big.NewInt(4))
				y := ref.Fp.Sqrt(y2)
				if y == nil {
					continue
				}
				pt := ref.G1{X: x, Y: y}
				if !ref.E1.IsOnCurve(pt) {
					continue
				}
				enc := ref.EncodeG1(pt)
				cs = append(cs, bcase{append([]byte{}, enc...), "limb-shaped-x"})
				b := new(big.Int).Add(x, ref.P).FillBytes(make([]byte, 48))
				b[0] |= enc[0] & 0xE0
				cs = append(cs, bcase{b, "limb-shaped-x-plus-p"})
				break
			}
		}
	}
	return cs
}

func c05G2Cases(r *rand.Rand, cv ref.Conv, nFlipEnc int) []bcase {
	var cs []bcase
	enc := func(p ref.G2) []byte { return ref.EncodeG2(p, cv) }
	valid := enc(ref.E2.Mul(ref.G2Gen, randScalar(r)))
	cs = append(cs, lengthCases(valid, r, 96)...)
	for f := 0; f < 8; f++ {
		v := append([]byte{}, valid...)
		v[0] = v[0]&0x1F | byte(f<<5)
		z := make([]byte, 96)
		z[0] = byte(f << 5)
		cs = append(cs, bcase{v, "flags-valid-body"}, bcase{z, "flags-zero-body"})
	}
	for _, a := range boundaryFp() {
		for _, b2 := range boundaryFp() {
			for _, hdr := range []byte{0x80, 0xA0} {
				b := make([]byte, 96)
				a.FillBytes(b[:48])
				b2.FillBytes(b[48:])
				b[0] |= hdr
				cs = append(cs, bcase{b, "boundary-x"})
			}
		}
	}
	inf := make([]byte, 96)
	inf[0] = 0xC0
	cs = append(cs, bcase{append([]byte{}, inf...), "infinity"})
	for i := 1; i < 96; i++ {
		for _, v := range []byte{0x01, byte(1 + r.IntN(255))} {
			c := append([]byte{}, inf...)
			c[i] = v
			cs = append(cs, bcase{c, "infinity-nonzero-byte"})
		}
	}
	for bit := 3; bit < 8; bit++ {
		c := append([]byte{}, inf...)
		c[0] |= 0x80 >> bit
		cs = append(cs, bcase{c, "infinity-nonzero-byte"})
	}
	for rep := 0; rep < 3; rep++ {
		for _, g := range cancellingGarbage(r, 96) {
			c := append([]byte{}, inf...)
			for i, v := range g {
				c[i] |= v
			}
			cs = append(cs, bcase{c, "infinity-cancelling-garbage"})
		}
	}
	for _, q := range []int64{13, 23, 2713} {
		if t, ok := ref.TorsionE2(q, []byte("c05")); ok {
			g := ref.E2.Mul(ref.G2Gen, randScalar(r))
			cs = append(cs, bcase{enc(t), "non-subgroup"}, bcase{enc(ref.E2.Add(g, t)), "non-subgroup"})
		}
	}
	for i := 0; i < 6; i++ {
		cs = append(cs, bcase{enc(ref.NonSubgroupE2(mon.RandBytes(r, 8))), "non-subgroup"})
	}
	for e := 0; e < nFlipEnc; e++ {
		v := enc(ref.E2.Mul(ref.G2Gen, randScalar(r)))
		cs = append(cs, bcase{v, "valid"})
		for i := 0; i < 768; i++ {
			cs = append(cs, bcase{flipBit(v, i), "bitflip"})
		}
	}
	// tiny first coefficient (leading bytes zero): every flag combination
	for x, found := int64(0), 0; x < 400 && found < 6; x++ {
		b := make([]byte, 96)
		big.NewInt(x).FillBytes(b[:48])
		big.NewInt(x/3 + 1).FillBytes(b[48:])
		b[0] |= 0x80
		if _, cls := ref.DecodeG2(b, cv); cls != ref.DecOK {
			continue
		}
		found++
		for f := 0; f < 8; f++ {
			c := append([]byte{}, b...)
			c[0] = c[0]&0x1F | byte(f<<5)
			cs = append(cs, bcase{c, "small-x-flags"})
		}
	}
	for i := 0; i < 200; i++ {
		b := mon.RandBytes(r, 96)
		if i%3 != 0 {
			b[0] = 0x80 | b[0]&0x3F
		}
		cs = append(cs, bcase{b, "random"})
	}
	// non-reduced coefficient (either half) of valid points
	for tries, found := 0, 0; tries < 200 && found < 6; tries++ {
		p := ref.E2.Mul(ref.G2Gen, randScalar(r))
		e := enc(p)
		for half := 0; half < 2; half++ {
			t := append([]byte{}, e...)
			t[0] &= 0x1F
			v := new(big.Int).SetBytes(t[48*half : 48*half+48])
			vp := new(big.Int).Add(v, ref.P)
			if vp.BitLen() <= 381 {
				vp.FillBytes(t[48*half : 48*half+48])
				t[0] |= e[0] & 0xE0
				cs = append(cs, bcase{t, "x-plus-p"})
				found++
			}
		}
	}
	// the coefficient that carries no flag bits has all 384 bits: c + k*p for every k that fits
	for i := 0; i < 3; i++ {
		p := ref.E2.Mul(ref.G2Gen, randScalar(r))
		e := enc(p)
		v := new(big.Int).SetBytes(e[48:96])
		for k := int64(1); k <= 9; k++ {
			vk := new(big.Int).Add(v, new(big.Int).Mul(big.NewInt(k), ref.P))
			if vk.BitLen() > 384 {
				break
			}
			t := append([]byte{}, e...)
			vk.FillBytes(t[48:96])
			cs = append(cs, bcase{t, fmt.Sprintf("second-coefficient-plus-%dp", k)})
		}
	}
	return cs
}

func scalarCases(r *rand.Rand, n *big.Int) []bcase {
	var cs []bcase
	valid := new(big.Int).Mod(new(big.Int).SetBytes(mon.RandBytes(r, 40)), n).FillBytes(make([]byte, 32))
	cs = append(cs, lengthCases(valid, r, 32)...)
	two256 := new(big.Int).Lsh(big.NewInt(1), 256)
	for _, v := range []*big.Int{big.NewInt(0), big.NewInt(1), big.NewInt(2), new(big.Int).Sub(n, big.NewInt(2)), new(big.Int).Sub(n, big.NewInt(1)), n,
		new(big.Int).Add(n, big.NewInt(1)), new(big.Int).Sub(two256, big.NewInt(1)), new(big.Int).Lsh(big.NewInt(1), 255), new(big.Int).Lsh(n, 0)} {
		cs = append(cs, bcase{v.FillBytes(make([]byte, 32)), "boundary"})
	}
	for i := 0; i < 256; i++ {
		cs = append(cs, bcase{flipBit(valid, i), "bitflip"})
	}
	nb := new(big.Int).Sub(n, big.NewInt(1)).FillBytes(make([]byte, 32))
	for i := 0; i < 256; i++ {
		cs = append(cs, bcase{flipBit(nb, i), "bitflip-n-1"})
	}
	for i := 0; i < 200; i++ {
		b := mon.RandBytes(r, 32)
		if i%4 == 0 {
			b[0] = 0
		}
		cs = append(cs, bcase{b, "random"})
	}
	return cs
}

func ecRawCases(r *rand.Rand, c *ref.ECCurve) []bcase {
	var cs []bcase
	pt := c.Pub(new(big.Int).Mod(new(big.Int).SetBytes(mon.RandBytes(r, 40)), c.N))
	valid := c.EncodeRaw(pt)
	cs = append(cs, lengthCases(valid, r, 64)...)
	p := c.Fld.M
	two256 := new(big.Int).Lsh(big.NewInt(1), 256)
	bvals := []*big.Int{big.NewInt(0), big.NewInt(1), new(big.Int).Sub(p, big.NewInt(1)), p, new(big.Int).Add(p, big.NewInt(1)), new(big.Int).Sub(two256, big.NewInt(1))}
	for _, x := range bvals {
		for _, y := range bvals {
			b := make([]byte, 64)
			x.FillBytes(b[:32])
			y.FillBytes(b[32:])
			cs = append(cs, bcase{b, "boundary"})
		}
		b := make([]byte, 64)
		x.FillBytes(b[:32])
		copy(b[32:], valid[32:])
		cs = append(cs, bcase{b, "boundary"})
	}
	// valid points whose x is just below p, or just below/above 2^255, 2^192, 2^128 (raw and, via the
	// compressed cases, compressed): the largest canonical coordinates must be accepted
	for _, start := range []*big.Int{new(big.Int).Sub(p, big.NewInt(1)), new(big.Int).Sub(p, new(big.Int).Lsh(big.NewInt(1), 33)), new(big.Int).Lsh(big.NewInt(1), 255), new(big.Int).Lsh(big.NewInt(1), 192), new(big.Int).Lsh(big.NewInt(1), 128)} {
		got := 0
		for d := int64(0); d < 400 && got < 2; d++ {
			x := new(big.Int).Sub(start, big.NewInt(d))
			comp := append([]byte{2}, x.FillBytes(make([]byte, 32))...)
			q, ok := c.DecodeCompressed(comp)
			if !ok {
				continue
			}
			cs = append(cs, bcase{c.EncodeRaw(q), "x-near-boundary"})
			got++
		}
	}
	// small x with x+p < 2^256: valid point, then non-reduced x or y
	found := 0
	for xi := int64(0); xi < 5000 && found < 6; xi++ {
		comp := append([]byte{2}, big.NewInt(xi).FillBytes(make([]byte, 32))...)
		q, ok := c.DecodeCompressed(comp)
		if !ok {
			continue
		}
		xp := new(big.Int).Add(q.X, p)
		if xp.BitLen() <= 256 {
			b := c.EncodeRaw(q)
			cs = append(cs, bcase{append([]byte{}, b...), "valid-small-x"})
			xp.FillBytes(b[:32])
			cs = append(cs, bcase{b, "x-plus-p"})
			found++
		}
	}
	for tries, foundY := 0, 0; tries < 200000 && foundY < 3; tries++ {
		q := c.Pub(big.NewInt(int64(tries + 1)))
		yp := new(big.Int).Add(q.Y, p)
		if yp.BitLen() <= 256 {
			b := c.EncodeRaw(q)
			yp.FillBytes(b[32:])
			cs = append(cs, bcase{b, "y-plus-p"})
			foundY++
		}
		if tries > 300 {
			break
		}
	}
	// points with a tiny y (curves with a = 0 and p = 7 mod 9: cube root by one exponentiation):
	// the non-reduced encoding (x, y+p) fits in 32 bytes
	if c.C.A.Sign() == 0 && new(big.Int).Mod(p, big.NewInt(9)).Int64() == 7 {
		e9 := new(big.Int).Add(p, big.NewInt(2))
		e9.Div(e9, big.NewInt(9))
		for yv, found := int64(1), 0; yv < 400 && found < 5; yv++ {
			y := big.NewInt(yv)
			v := c.Fld.Sub(c.Fld.Mul(y, y), c.C.B)
			x := c.Fld.Exp(v, e9)
			if c.Fld.Mul(c.Fld.Mul(x, x), x).Cmp(v) != 0 {
				continue
			}
			q := ref.Pt[*big.Int]{X: x, Y: y}
			if !c.C.IsOnCurve(q) {
				continue
			}
			found++
			b := c.EncodeRaw(q)
			cs = append(cs, bcase{append([]byte{}, b...), "valid-small-y"})
			new(big.Int).Add(y, p).FillBytes(b[32:])
			cs = append(cs, bcase{b, "y-plus-p"})
		}
	}
	for e := 0; e < 2; e++ {
		v := c.EncodeRaw(c.Pub(new(big.Int).Mod(new(big.Int).SetBytes(mon.RandBytes(r, 40)), c.N)))
		cs = append(cs, bcase{v, "valid"})
		for i := 0; i < 512; i++ {
			cs = append(cs, bcase{flipBit(v, i), "bitflip"})
		}
	}
	// other standard encodings of the same point given to the raw decoder
	cs = append(cs, bcase{append([]byte{4}, valid...), "sec1-uncompressed"}, bcase{c.EncodeCompressed(pt), "compressed-33"},
		bcase{append(c.EncodeCompressed(pt), make([]byte, 31)...), "compressed-padded-64"}, bcase{append([]byte{4}, valid[:63]...), "sec1-uncompressed-truncated-64"})
	// (x, -y) is valid; (x, y+1) is not
	neg := c.EncodeRaw(c.C.Neg(pt))
	cs = append(cs, bcase{neg, "valid-neg"})
	for i := 0; i < 200; i++ {
		cs = append(cs, bcase{mon.RandBytes(r, 64), "random"})
	}
	return cs
}

func ecCompressedCases(r *rand.Rand, c *ref.ECCurve) []bcase {
	var cs []bcase
	pt := c.Pub(new(big.Int).Mod(new(big.Int).SetBytes(mon.RandBytes(r, 40)), c.N))
	valid := c.EncodeCompressed(pt)
	cs = append(cs, lengthCases(valid, r, 33)...)
	// an x that is not on the curve
	var offX []byte
	for {
		x := mon.RandBytes(r, 32)
		if _, ok := c.DecodeCompressed(append([]byte{2}, x...)); !ok && new(big.Int).SetBytes(x).Cmp(c.Fld.M) < 0 {
			offX = x
			break
		}
	}
	for pf := 0; pf < 256; pf++ {
		cs = append(cs, bcase{append([]byte{byte(pf)}, valid[1:]...), "prefix-valid-x"})
		cs = append(cs, bcase{append([]byte{byte(pf)}, offX...), "prefix-off-curve-x"})
	}
	p := c.Fld.M
	two256 := new(big.Int).Lsh(big.NewInt(1), 256)
	for _, x := range []*big.Int{big.NewInt(0), big.NewInt(1), new(big.Int).Sub(p, big.NewInt(1)), p, new(big.Int).Add(p, big.NewInt(1)), new(big.Int).Sub(two256, big.NewInt(1))} {
		for _, pf := range []byte{2, 3} {
			cs = append(cs, bcase{append([]byte{pf}, x.FillBytes(make([]byte, 32))...), "boundary"})
		}
	}
	found := 0
	for xi := int64(0); xi < 5000 && found < 6; xi++ {
		comp := append([]byte{2}, big.NewInt(xi).FillBytes(make([]byte, 32))...)
		q, ok := c.DecodeCompressed(comp)
		if !ok {
			continue
		}
		xp := new(big.Int).Add(q.X, p)
		if xp.BitLen() <= 256 {
			cs = append(cs, bcase{comp, "valid-small-x"})
			cs = append(cs, bcase{append([]byte{3}, xp.FillBytes(make([]byte, 32))...), "x-plus-p"})
			found++
		}
	}
	// other standard encodings of valid points: SEC1 uncompressed 04||X||Y, hybrid 06/07||X||Y,
	// raw X||Y, and the compressed form padded to other lengths
	for e := 0; e < 4; e++ {
		q := c.Pub(new(big.Int).Mod(new(big.Int).SetBytes(mon.RandBytes(r, 40)), c.N))
		raw := c.EncodeRaw(q)
		par := byte(q.Y.Bit(0))
		cs = append(cs, bcase{append([]byte{4}, raw...), "sec1-uncompressed"}, bcase{append([]byte{6 + par}, raw...), "sec1-hybrid"},
			bcase{append([]byte{7 - par}, raw...), "sec1-hybrid-wrong-parity"}, bcase{raw, "raw-64"}, bcase{append([]byte{0}, raw...), "prefix00-raw"},
			bcase{append(c.EncodeCompressed(q), raw[32:]...), "compressed-plus-y"})
	}
	for e := 0; e < 2; e++ {
		v := c.EncodeCompressed(c.Pub(new(big.Int).Mod(new(big.Int).SetBytes(mon.RandBytes(r, 40)), c.N)))
		cs = append(cs, bcase{v, "valid"})
		for i := 0; i < 264; i++ {
			cs = append(cs, bcase{flipBit(v, i), "bitflip"})
		}
	}
	for i := 0; i < 200; i++ {
		b := mon.RandBytes(r, 33)
		b[0] = 2 + b[0]&1
		cs = append(cs, bcase{b, "random"})
	}
	return cs
}

// consumeArg is called right after a decoder accepted `arg` (a withSpare copy of orig): the decoder must
// not have written to the caller's buffer, and the caller now reuses the buffer - whatever the decoded
// object returns afterwards must not depend on it.
func consumeArg(arg, orig []byte) string {
	if !spareIntact(arg, orig) {
		return "decoder-modified-its-input-buffer"
	}
	for i := range arg {
		arg[i] ^= 0x5A
	}
	return ""
}

// decJudge compares one decoder call with the reference verdict.
func decJudge(run *mon.Run, label string, c bcase, refOK bool, refWhy string, call func() (enc []byte, enc2 []byte, err error), wantEnc []byte) {
	var enc, enc2 []byte
	var err error
	rep := map[string]any{"decoder": label, "input": mon.Hex(c.b), "kind": c.kind, "reference": refWhy}
	if run.Guard(label, rep, func() { enc, enc2, err = call() }) {
		return
	}
	run.Eval(1)
	run.Shape(label + "|" + c.kind + "|" + refWhy)
	if err == nil {
		run.Count(label+".accepted", 1)
	} else {
		run.Count(label+".rejected", 1)
	}
	switch {
	case err == nil && !refOK:
		run.Violate(fmt.Sprintf("C05:%s:accepts:%s", label, refWhy), fmt.Sprintf("%s accepted %x (kind %s) which the reference rejects: %s", label, c.b, c.kind, refWhy), rep)
	case err != nil && refOK:
		run.Violate(fmt.Sprintf("C05:%s:rejects-valid", label), fmt.Sprintf("%s rejected %x (kind %s) which the reference accepts: %v", label, c.b, c.kind, err), rep)
	case err != nil && !crypto.IsInvalidInputsError(err):
		run.Violate(fmt.Sprintf("C05:%s:error-class", label), fmt.Sprintf("%s rejected %x with an error that is not invalid-inputs: %v", label, c.b, err), rep)
	case err == nil:
		if !bytes.Equal(enc, wantEnc) {
			run.Violate(fmt.Sprintf("C05:%s:reencode-differs", label), fmt.Sprintf("%s accepted %x but re-encodes to %x", label, c.b, enc), rep)
		}
		_ = enc2
	}
}

// C05: canonical, validating serialization.
func C05(run *mon.Run) {
	run.Rule = "byte strings per (algorithm, decoder) from the classes {length 0..200, flag combinations, boundary coordinates, infinity with a non-zero byte at each position, non-subgroup points, non-reduced coordinates, every single-bit flip of valid encodings, every compressed prefix byte, random}; shape = (decoder, class, reference verdict); distinct = distinct shapes"
	run.Assumptions = []string{"reference codecs written from the ZCash format text / SEC1, self-tested against the draft's generator encodings", "accept/reject for BLS public keys is judged under the measured Fp2 coefficient order; the order itself is judged separately against the cited ZCash format"}
	r := run.Rand("main")
	cv := measuredConv()
	run.Extra["g2_coefficient_order"] = cv.String()
	if cv != ref.ZCash {
		run.Violate("C05:g2-fp2-coefficient-order:c0||c1",
			fmt.Sprintf("BLS public keys are encoded with the Fp2 coefficients in the order c0||c1; the ZCash format cited by the documentation is c1||c0. Encode(pk of sk=1) = %x, ZCash encoding of the G2 generator = %x", sk1().PublicKey().Encode(), ref.EncodeG2(ref.G2Gen, ref.ZCash)),
			map[string]any{"sk": 1})
		// the ZCash generator encoding must then be what the library rejects or mis-decodes
		if pk, err := crypto.DecodePublicKey(BLS, ref.EncodeG2(ref.G2Gen, ref.ZCash)); err == nil && pk.Equals(sk1().PublicKey()) {
			run.Violate("C05:g2-both-orders-accepted", "both coefficient orders decode to the generator", nil)
		}
	}
	nFlip := run.Pick(2, 48)

	var wg sync.WaitGroup
	sem := make(chan struct{}, 16)
	par := func(cs []bcase, f func(c bcase)) {
		for _, c := range cs {
			wg.Add(1)
			sem <- struct{}{}
			go func(c bcase) {
				defer wg.Done()
				defer func() { <-sem }()
				defer run.Protect("c05 worker")
				f(c)
			}(c)
		}
	}

	// ---- BLS private keys
	par(scalarCases(r, ref.R), func(c bcase) {
		v := new(big.Int).SetBytes(c.b)
		ok := len(c.b) == 32 && v.Sign() > 0 && v.Cmp(ref.R) < 0
		why := "ok"
		if !ok {
			why = "not-32-bytes-in-[1,r-1]"
		}
		decJudge(run, "bls:DecodePrivateKey", c, ok, why, func() ([]byte, []byte, error) {
			arg := withSpare(c.b)
			sk, err := crypto.DecodePrivateKey(BLS, arg)
			if err != nil {
				return nil, nil, err
			}
			if msg := consumeArg(arg, c.b); msg != "" {
				return []byte(msg), nil, nil
			}
			return sk.Encode(), nil, nil
		}, c.b)
	})
	// ---- BLS public keys (both decoder entry points)
	g2cases := c05G2Cases(r, cv, nFlip)
	par(g2cases, func(c bcase) {
		p, cls := ref.DecodeG2(c.b, cv)
		ok := cls == ref.DecOK && ref.InG2(p)
		why := cls.String()
		if cls == ref.DecOK && !ok {
			why = "on-curve-not-G2"
		}
		for _, d := range []struct {
			name string
			f    func(crypto.SigningAlgorithm, []byte) (crypto.PublicKey, error)
		}{{"bls:DecodePublicKey", crypto.DecodePublicKey}, {"bls:DecodePublicKeyCompressed", crypto.DecodePublicKeyCompressed}} {
			decJudge(run, d.name, c, ok, why, func() ([]byte, []byte, error) {
				arg := withSpare(c.b)
				pk, err := d.f(BLS, arg)
				if err != nil {
					return nil, nil, err
				}
				if msg := consumeArg(arg, c.b); msg != "" {
					return []byte(msg), nil, nil
				}
				if !bytes.Equal(pk.Encode(), pk.EncodeCompressed()) {
					return nil, nil, fmt.Errorf("Encode != EncodeCompressed")
				}
				pk2, err := crypto.DecodePublicKey(BLS, pk.Encode())
				if err != nil || !pk2.Equals(pk) || !pk.Equals(pk2) {
					return []byte("round-trip-not-equal"), nil, nil
				}
				return pk.Encode(), nil, nil
			}, c.b)
		}
	})
	// ---- BLS signatures through the three parsers
	g1cases := c05G1Cases(r, nFlip)
	h := crypto.NewExpandMsgXOFKMAC128("c05")
	helperK := randScalar(r)
	helper := ref.E1.Mul(ref.G1Gen, helperK)
	helperEnc := ref.EncodeG1(helper)
	par(g1cases, func(c bcase) {
		p, cls := ref.DecodeG1(c.b)
		onCurve := cls == ref.DecOK
		why := cls.String()
		rep := map[string]any{"input": mon.Hex(c.b), "kind": c.kind, "reference": why}
		// (1) AggregateBLSSignatures([b]) == b iff b is a canonical E1 encoding
		var out crypto.Signature
		var err error
		if !run.Guard("AggregateBLSSignatures", rep, func() { out, err = crypto.AggregateBLSSignatures([]crypto.Signature{c.b}) }) {
			run.Eval(1)
			run.Shape("bls:sig-aggregate|" + c.kind + "|" + why)
			switch {
			case err == nil && !onCurve:
				run.Violate("C05:bls:sig-aggregate:accepts:"+why, fmt.Sprintf("AggregateBLSSignatures accepted %x (%s)", c.b, why), rep)
			case err != nil && onCurve:
				run.Violate("C05:bls:sig-aggregate:rejects-valid", fmt.Sprintf("AggregateBLSSignatures rejected canonical %x: %v", c.b, err), rep)
			case err != nil && !crypto.IsInvalidSignatureError(err):
				run.Violate("C05:bls:sig-aggregate:error-class", fmt.Sprintf("error %v is not invalid-signature", err), rep)
			case err == nil && !bytes.Equal(out, c.b):
				run.Violate("C05:bls:sig-aggregate:reencode-differs", fmt.Sprintf("aggregate of [%x] = %x", c.b, []byte(out)), rep)
			}
		}
		// (2) stateless reconstruction with (b, helper) at indices 0, 1: 2*P - helper; and with b as the
		// last of the t+1 shares: (helper, b) at indices 1, 0 gives the same value
		for pos := 0; pos < 2 && (len(c.b) <= 50 || len(c.b) == 96); pos++ {
			var ts crypto.Signature
			if !run.Guard("BLSReconstructThresholdSignature", rep, func() {
				if pos == 0 {
					ts, err = crypto.BLSReconstructThresholdSignature(2, 1, []crypto.Signature{c.b, helperEnc}, []int{0, 1})
				} else {
					ts, err = crypto.BLSReconstructThresholdSignature(2, 1, []crypto.Signature{helperEnc, c.b}, []int{1, 0})
				}
			}) {
				run.Eval(1)
				run.Shape("bls:sig-reconstruct|" + c.kind + "|" + why)
				switch {
				case err == nil && !onCurve:
					run.Violate("C05:bls:sig-reconstruct:accepts:"+why, fmt.Sprintf("BLSReconstructThresholdSignature accepted share %x (%s)", c.b, why), rep)
				case err != nil && onCurve:
					run.Violate("C05:bls:sig-reconstruct:rejects-valid", fmt.Sprintf("reconstruction rejected canonical share %x: %v", c.b, err), rep)
				case err != nil && !crypto.IsInvalidSignatureError(err) && !crypto.IsInvalidInputsError(err):
					run.Violate("C05:bls:sig-reconstruct:error-class", fmt.Sprintf("error %v is neither invalid-signature nor invalid-inputs", err), rep)
				case err == nil && (p.Inf || !ref.InG1(p)):
					// The identity point and E1 points outside G1 parse (canonical), which is all C05
					// states. They can never be valid signature shares, and the properties promise
					// nothing about the value reconstructed from invalid shares, so the value is
					// recorded, not judged.
					if !bytes.Equal(ts, ref.EncodeG1(ref.E1.Sub(ref.E1.Double(p), helper))) {
						run.Count("observation.reconstruct-with-identity-or-non-G1-share-not-lagrange", 1)
					}
				case err == nil:
					want := ref.EncodeG1(ref.E1.Sub(ref.E1.Double(p), helper))
					if !bytes.Equal(ts, want) {
						run.Violate("C05:bls:sig-reconstruct:value", fmt.Sprintf("reconstruction from (%x, helper) = %x, reference 2P-Q = %x", c.b, []byte(ts), want), rep)
					}
				}
			}
		}
		// (3) Verify: a string the reference does not decode into G1 is never accepted
		// (full acceptance-set exactness is C01's job; here: key = helperK... the signature
		// of a known message is accepted iff bytes equal)
		pk := skFromInt(helperK).PublicKey()
		ok, err := pk.Verify(c.b, []byte("c05"), h)
		run.Eval(1)
		if err != nil {
			run.Violate("C05:bls:sig-verify:error", fmt.Sprintf("Verify(%x) error %v", c.b, err), rep)
		} else if ok && !(onCurve && ref.InG1(p)) {
			run.Violate("C05:bls:sig-verify:accepts:"+why, fmt.Sprintf("Verify accepted %x (%s)", c.b, why), rep)
		}
	})
	// ---- ECDSA
	for _, ec := range []struct {
		alg crypto.SigningAlgorithm
		c   *ref.ECCurve
		n   string
	}{{crypto.ECDSAP256, ref.P256, "p256"}, {crypto.ECDSASecp256k1, ref.Secp256k1, "secp256k1"}} {
		ec := ec
		par(scalarCases(r, ec.c.N), func(c bcase) {
			v := new(big.Int).SetBytes(c.b)
			ok := len(c.b) == 32 && v.Sign() > 0 && v.Cmp(ec.c.N) < 0
			why := "ok"
			if !ok {
				why = "not-32-bytes-in-[1,n-1]"
			}
			decJudge(run, ec.n+":DecodePrivateKey", c, ok, why, func() ([]byte, []byte, error) {
				arg := withSpare(c.b)
				sk, err := crypto.DecodePrivateKey(ec.alg, arg)
				if err != nil {
					return nil, nil, err
				}
				if msg := consumeArg(arg, c.b); msg != "" {
					return []byte(msg), nil, nil
				}
				return sk.Encode(), nil, nil
			}, c.b)
		})
		par(ecRawCases(r, ec.c), func(c bcase) {
			q, ok := ec.c.DecodeRaw(c.b)
			why := "ok"
			if !ok {
				why = "not-a-reduced-on-curve-point"
			}
			want := c.b
			decJudge(run, ec.n+":DecodePublicKey", c, ok, why, func() ([]byte, []byte, error) {
				arg := withSpare(c.b)
				pk, err := crypto.DecodePublicKey(ec.alg, arg)
				if err != nil {
					return nil, nil, err
				}
				if msg := consumeArg(arg, c.b); msg != "" {
					return []byte(msg), nil, nil
				}
				if !ok {
					return pk.Encode(), nil, nil // accepted although the reference rejects: judged by the caller
				}
				if !bytes.Equal(pk.EncodeCompressed(), ec.c.EncodeCompressed(q)) {
					return []byte("compressed-encoding-differs"), nil, nil
				}
				pk2, err := crypto.DecodePublicKeyCompressed(ec.alg, pk.EncodeCompressed())
				if err != nil || !pk2.Equals(pk) || !pk.Equals(pk2) {
					return []byte("round-trip-not-equal"), nil, nil
				}
				return pk.Encode(), nil, nil
			}, want)
		})
		par(ecCompressedCases(r, ec.c), func(c bcase) {
			q, ok := ec.c.DecodeCompressed(c.b)
			why := "ok"
			if !ok {
				why = "not-x962-compressed"
			}
			decJudge(run, ec.n+":DecodePublicKeyCompressed", c, ok, why, func() ([]byte, []byte, error) {
				arg := withSpare(c.b)
				pk, err := crypto.DecodePublicKeyCompressed(ec.alg, arg)
				if err != nil {
					return nil, nil, err
				}
				if msg := consumeArg(arg, c.b); msg != "" {
					return []byte(msg), nil, nil
				}
				if !ok {
					return pk.EncodeCompressed(), nil, nil
				}
				if !bytes.Equal(pk.Encode(), ec.c.EncodeRaw(q)) {
					return []byte("raw-encoding-differs"), nil, nil
				}
				return pk.EncodeCompressed(), nil, nil
			}, c.b)
		})
	}
	wg.Wait()
	// ---- unsupported algorithm values
	for _, alg := range []crypto.SigningAlgorithm{crypto.UnknownSigningAlgorithm, 4, 7, -1, 1 << 30} {
		for name, f := range map[string]func() error{
			"DecodePrivateKey":          func() error { _, e := crypto.DecodePrivateKey(alg, make([]byte, 32)); return e },
			"DecodePublicKey":           func() error { _, e := crypto.DecodePublicKey(alg, make([]byte, 64)); return e },
			"DecodePublicKeyCompressed": func() error { _, e := crypto.DecodePublicKeyCompressed(alg, make([]byte, 33)); return e },
		} {
			var err error
			if run.Guard(name+"(undefined algo)", int(alg), func() { err = f() }) {
				continue
			}
			run.Eval(1)
			if !crypto.IsInvalidInputsError(err) {
				run.Violate("C05:unknown-algo:"+name, fmt.Sprintf("%s(algo=%d) error %v", name, int(alg), err), nil)
			}
		}
	}
	// ---- produced objects round-trip
	c05RoundTrips(run, r, cv)
	// ---- the decoders as pure functions under parallel use
	c05Concurrent(run, r)
	for _, d := range []string{"bls:DecodePrivateKey", "bls:DecodePublicKey", "bls:DecodePublicKeyCompressed", "p256:DecodePrivateKey", "p256:DecodePublicKey", "p256:DecodePublicKeyCompressed", "secp256k1:DecodePrivateKey", "secp256k1:DecodePublicKey", "secp256k1:DecodePublicKeyCompressed"} {
		run.Require(run.Counter(d+".accepted") > 0 && run.Counter(d+".rejected") > 0, "decoder did not both accept and reject: "+d)
	}
	run.Sample(map[string]any{"g1_cases": len(g1cases), "g2_cases": len(g2cases), "example_g2": mon.Hex(g2cases[len(g2cases)/2].b), "example_kind": g2cases[len(g2cases)/2].kind})
}

// c05Concurrent: decoders share no object with their caller, so servers call them from many goroutines
// at once. A table of accepted and rejected inputs per (algorithm, decoder), with the verdict and the
// re-encoding each one gets when decoded alone, is replayed by 16 goroutines in tight loops: every
// verdict and re-encoding must be what the sequential pass gave (the sequential verdicts themselves
// are judged against the reference by the legs above).
func c05Concurrent(run *mon.Run, r *rand.Rand) {
	type entry struct {
		dec  int // 0 private, 1 public, 2 public compressed
		alg  crypto.SigningAlgorithm
		in   []byte
		ok   bool
		back []byte
	}
	decode := func(e *entry) (bool, []byte) {
		switch e.dec {
		case 0:
			k, err := crypto.DecodePrivateKey(e.alg, e.in)
			if err != nil {
				return false, nil
			}
			return true, k.Encode()
		case 1:
			k, err := crypto.DecodePublicKey(e.alg, e.in)
			if err != nil {
				return false, nil
			}
			return true, k.Encode()
		default:
			k, err := crypto.DecodePublicKeyCompressed(e.alg, e.in)
			if err != nil {
				return false, nil
			}
			return true, k.EncodeCompressed()
		}
	}
	var table []*entry
	for _, alg := range []crypto.SigningAlgorithm{crypto.ECDSAP256, crypto.ECDSASecp256k1, BLS} {
		for i := 0; i < 6; i++ {
			sk, err := crypto.GeneratePrivateKey(alg, mon.RandBytes(r, 32))
			if err != nil {
				continue
			}
			pk := sk.PublicKey()
			variants := func(b []byte) [][]byte {
				out := [][]byte{append([]byte{}, b...)}
				for j := 0; j < 3; j++ {
					out = append(out, flipBit(b, r.IntN(8*len(b))))
				}
				out = append(out, mon.RandBytes(r, len(b)), b[:len(b)-1], make([]byte, len(b)))
				return out
			}
			for _, v := range variants(sk.Encode()) {
				table = append(table, &entry{dec: 0, alg: alg, in: v})
			}
			for _, v := range variants(pk.Encode()) {
				table = append(table, &entry{dec: 1, alg: alg, in: v})
			}
			for _, v := range variants(pk.EncodeCompressed()) {
				table = append(table, &entry{dec: 2, alg: alg, in: v})
			}
		}
	}
	nOK := 0
	for _, e := range table {
		e.ok, e.back = decode(e)
		if e.ok {
			nOK++
		}
	}
	// first, sequentially: all inputs of one (algorithm, decoder) pass through ONE buffer that is overwritten
	// from call to call (a reader decoding key after key from its receive buffer); a decoder that
	// remembers its argument by reference answers for the previous content
	for dec := 0; dec < 3; dec++ {
		for _, alg := range []crypto.SigningAlgorithm{crypto.ECDSAP256, crypto.ECDSASecp256k1, BLS} {
			var group []*entry
			for _, e := range table {
				if e.dec == dec && e.alg == alg {
					group = append(group, e)
				}
			}
			buf := make([]byte, 0, 256)
			var kept []func() bool // objects decoded earlier must keep encoding to what they were decoded from
			for pass := 0; pass < 3; pass++ {
				for _, gi := range r.Perm(len(group)) {
					e := group[gi]
					buf = append(buf[:0], e.in...)
					view := &entry{dec: e.dec, alg: e.alg, in: buf}
					ok, back := decode(view)
					run.Eval(1)
					if ok != e.ok || !bytes.Equal(back, e.back) {
						run.Violate("C05:reused-buffer-decoding-differs", fmt.Sprintf("decoder %d of algorithm %s on input %x read from a buffer that held other inputs before: (accepted=%v, re-encoding %x), from a fresh slice it gives (accepted=%v, re-encoding %x)", e.dec, e.alg, e.in, ok, back, e.ok, e.back), map[string]any{"decoder": e.dec, "alg": e.alg.String(), "input": mon.Hex(e.in)})
						return
					}
					if ok && e.dec != 0 && len(kept) < 8 {
						want := append([]byte{}, e.back...)
						var pk crypto.PublicKey
						if e.dec == 1 {
							pk, _ = crypto.DecodePublicKey(e.alg, buf)
						} else {
							pk, _ = crypto.DecodePublicKeyCompressed(e.alg, buf)
						}
						dd := e.dec
						if pk != nil {
							kept = append(kept, func() bool {
								if dd == 1 {
									return bytes.Equal(pk.Encode(), want)
								}
								return bytes.Equal(pk.EncodeCompressed(), want)
							})
						}
					}
				}
			}
			for _, f := range kept {
				if !f() {
					run.Violate("C05:decoded-key-follows-callers-buffer", fmt.Sprintf("a %s public key decoded from a buffer no longer encodes to the bytes it was decoded from after the buffer was reused", alg), nil)
					return
				}
			}
		}
	}
	run.Shape("reused-buffer-decoding")
	iters := run.Pick(4000, 60000)
	var wg sync.WaitGroup
	var bad atomic.Int64
	var first atomic.Value
	for g := 0; g < 16; g++ {
		wg.Add(1)
		go func(g int) {
			defer wg.Done()
			defer run.Protect("c05 concurrent")
			rr := run.Rand(fmt.Sprintf("concurrent-%d", g))
			// half of the goroutines stay on one (algorithm, decoder) so that equal code paths overlap
			var mine []*entry
			for _, e := range table {
				if g%2 == 0 || (e.dec == g/2%3 && e.alg == []crypto.SigningAlgorithm{crypto.ECDSAP256, crypto.ECDSASecp256k1, BLS}[g/6%3]) {
					mine = append(mine, e)
				}
			}
			if len(mine) == 0 {
				mine = table
			}
			for i := 0; i < iters && bad.Load() == 0; i++ {
				e := mine[rr.IntN(len(mine))]
				if e.alg == BLS && e.dec != 0 && i%8 != 0 {
					continue // BLS public key decoding costs a subgroup check: fewer of them
				}
				ok, back := decode(e)
				if ok != e.ok || !bytes.Equal(back, e.back) {
					bad.Add(1)
					first.CompareAndSwap(nil, fmt.Sprintf("decoder %d of algorithm %s on input %x: alone it gives (accepted=%v, re-encoding %x), among 16 goroutines decoding in parallel it gave (accepted=%v, re-encoding %x)", e.dec, e.alg, e.in, e.ok, e.back, ok, back))
				}
			}
			run.Eval(iters)
		}(g)
	}
	wg.Wait()
	if bad.Load() > 0 {
		m, _ := first.Load().(string)
		run.Violate("C05:concurrent-decoding-differs", m, map[string]any{"table": len(table)})
	}
	run.Count("concurrent.table-entries", len(table))
	run.Count("concurrent.table-accepted", nOK)
	run.Shape("concurrent-decoding")
}

func c05RoundTrips(run *mon.Run, r *rand.Rand, cv ref.Conv) {
	type obj struct {
		name string
		sk   crypto.PrivateKey
		pk   crypto.PublicKey
		alg  crypto.SigningAlgorithm
	}
	var objs []obj
	algs := []crypto.SigningAlgorithm{BLS, crypto.ECDSAP256, crypto.ECDSASecp256k1}
	for i := 0; i < run.Pick(30, 300); i++ {
		alg := algs[i%3]
		sk, err := crypto.GeneratePrivateKey(alg, mon.RandBytes(r, 32+r.IntN(200)))
		if err != nil {
			run.Violate("C05:keygen", err.Error(), nil)
			continue
		}
		objs = append(objs, obj{"generated", sk, sk.PublicKey(), alg})
	}
	// keys with leading zero bytes (padding slips): search seeds
	for _, alg := range algs {
		found := 0
		for s := 0; s < 6000 && found < 3; s++ {
			seed := make([]byte, 32)
			copy(seed, fmt.Sprintf("lz-%d-%d", alg, s))
			sk, err := crypto.GeneratePrivateKey(alg, seed)
			if err != nil {
				break
			}
			e := sk.Encode()
			pe := sk.PublicKey().Encode()
			if e[0] == 0 || (alg != BLS && (pe[0] == 0 || pe[32] == 0)) {
				objs = append(objs, obj{"leading-zero", sk, sk.PublicKey(), alg})
				found++
			}
		}
		run.Count(fmt.Sprintf("leading-zero.%s", alg), found)
	}
	// aggregated and threshold keys
	a, b := skFromInt(randScalar(r)), skFromInt(randScalar(r))
	agg, _ := crypto.AggregateBLSPrivateKeys([]crypto.PrivateKey{a, b})
	aggPk, _ := crypto.AggregateBLSPublicKeys([]crypto.PublicKey{a.PublicKey(), b.PublicKey()})
	objs = append(objs, obj{"aggregated", agg, aggPk, BLS})
	rem, _ := crypto.RemoveBLSPublicKeys(aggPk, []crypto.PublicKey{b.PublicKey()})
	objs = append(objs, obj{"removed", nil, rem, BLS})
	objs = append(objs, obj{"identity", nil, crypto.IdentityBLSPublicKey(), BLS})
	// identity keys from every other producer (their internal coordinates differ)
	if k, e := crypto.RemoveBLSPublicKeys(a.PublicKey(), []crypto.PublicKey{a.PublicKey()}); e == nil {
		objs = append(objs, obj{"identity-removed-from-itself", nil, k, BLS})
	}
	if k, e := crypto.RemoveBLSPublicKeys(aggPk, []crypto.PublicKey{a.PublicKey(), b.PublicKey()}); e == nil {
		objs = append(objs, obj{"identity-all-removed", nil, k, BLS})
	}
	if k, e := crypto.RemoveBLSPublicKeys(aggPk, []crypto.PublicKey{aggPk}); e == nil {
		objs = append(objs, obj{"identity-aggregate-removed", nil, k, BLS})
	}
	if neg, e := crypto.DecodePrivateKey(BLS, ref.ScalarBytes(ref.Fr.Neg(skScalar(a)))); e == nil {
		if k, e := crypto.AggregateBLSPublicKeys([]crypto.PublicKey{a.PublicKey(), neg.PublicKey()}); e == nil {
			objs = append(objs, obj{"identity-opposite-keys", nil, k, BLS})
		}
		if z, e := crypto.AggregateBLSPrivateKeys([]crypto.PrivateKey{a, neg}); e == nil {
			objs = append(objs, obj{"identity-zero-private-key", nil, z.PublicKey(), BLS})
		}
	}
	if infK, e := crypto.DecodePublicKey(BLS, append([]byte{0xC0}, make([]byte, 95)...)); e == nil {
		objs = append(objs, obj{"identity-decoded", nil, infK, BLS})
	}
	sks, pks, gpk, err := crypto.BLSThresholdKeyGen(5, 2, mon.RandBytes(r, 32))
	if err == nil {
		for i := range sks {
			objs = append(objs, obj{"threshold-share", sks[i], pks[i], BLS})
		}
		objs = append(objs, obj{"threshold-group", nil, gpk, BLS})
	}
	for _, o := range objs {
		rep := map[string]any{"object": o.name, "alg": o.alg.String()}
		// what an object says about itself agrees with its encoding: Algorithm(), Size() = length of Encode(),
		// String() = "0x" + hex of Encode(); the same for the re-decoded twin
		meta := func(kind string, alg crypto.SigningAlgorithm, size int, str string, enc []byte) {
			run.Eval(1)
			if alg != o.alg || size != len(enc) || str != "0x"+mon.Hex(enc) {
				run.Violate("C05:self-description:"+kind+":"+o.name, fmt.Sprintf("%s key (%s): Algorithm() = %v, Size() = %d, String() = %q, while Encode() is the %d bytes %x", kind, o.name, alg, size, str, len(enc), enc), rep)
			}
		}
		if o.sk != nil {
			meta("private", o.sk.Algorithm(), o.sk.Size(), o.sk.String(), o.sk.Encode())
			if pk := o.sk.PublicKey(); pk != nil {
				meta("derived-public", pk.Algorithm(), pk.Size(), pk.String(), pk.Encode())
			}
		}
		if o.pk != nil {
			meta("public", o.pk.Algorithm(), o.pk.Size(), o.pk.String(), o.pk.Encode())
		}
		if o.sk != nil {
			e := o.sk.Encode()
			d, err := crypto.DecodePrivateKey(o.alg, e)
			run.Eval(1)
			if err != nil || !d.Equals(o.sk) || !o.sk.Equals(d) || !bytes.Equal(d.Encode(), e) {
				run.Violate("C05:roundtrip:private:"+o.name, fmt.Sprintf("private key %x does not round-trip: %v", e, err), rep)
			}
		}
		if o.pk != nil {
			e := o.pk.Encode()
			d, err := crypto.DecodePublicKey(o.alg, e)
			run.Eval(1)
			if err != nil || !d.Equals(o.pk) || !o.pk.Equals(d) || !bytes.Equal(d.Encode(), e) {
				run.Violate("C05:roundtrip:public:"+o.name, fmt.Sprintf("public key %x does not round-trip: %v", e, err), rep)
			}
			ce := o.pk.EncodeCompressed()
			d2, err := crypto.DecodePublicKeyCompressed(o.alg, ce)
			run.Eval(1)
			if err != nil || !d2.Equals(o.pk) || !bytes.Equal(d2.EncodeCompressed(), ce) {
				run.Violate("C05:roundtrip:public-compressed:"+o.name, fmt.Sprintf("compressed public key %x does not round-trip: %v", ce, err), rep)
			}
			if o.alg == BLS {
				if p, cls := ref.DecodeG2(e, cv); cls != ref.DecOK || !ref.InG2(p) {
					run.Violate("C05:produced-key-not-G2:"+o.name, fmt.Sprintf("produced public key %x is not a canonical G2 encoding", e), rep)
				}
			}
		}
		// the slices returned by the encoders are the caller's: modifying them must not change the object
		if o.pk != nil {
			want := append([]byte{}, o.pk.Encode()...)
			wantC := append([]byte{}, o.pk.EncodeCompressed()...)
			for _, sl := range [][]byte{o.pk.Encode(), o.pk.EncodeCompressed()} {
				for i := range sl {
					sl[i] ^= 0x5A
				}
			}
			if !bytes.Equal(o.pk.Encode(), want) || !bytes.Equal(o.pk.EncodeCompressed(), wantC) {
				run.Violate("C05:encode-aliases-internal-state:public", "modifying the slice returned by Encode()/EncodeCompressed() changed what the key encodes to", rep)
			}
		}
		if o.sk != nil {
			want := append([]byte{}, o.sk.Encode()...)
			sl := o.sk.Encode()
			for i := range sl {
				sl[i] ^= 0x5A
			}
			if !bytes.Equal(o.sk.Encode(), want) {
				run.Violate("C05:encode-aliases-internal-state:private", "modifying the slice returned by Encode() changed what the private key encodes to", rep)
			}
		}
		run.Shape("roundtrip|" + o.name + "|" + o.alg.String())
	}
	// Equals over every pair of produced objects (and their re-decoded twins): true exactly when the
	// algorithm and the canonical encoding agree, in both directions, whatever produced the objects
	type eqObj struct {
		alg  crypto.SigningAlgorithm
		pk   crypto.PublicKey
		sk   crypto.PrivateKey
		encP []byte
		encS []byte
		name string
	}
	var eo []eqObj
	for i, o := range objs {
		if i > 40 && i%5 != 0 {
			continue
		}
		e := eqObj{alg: o.alg, pk: o.pk, sk: o.sk, name: o.name}
		if o.pk != nil {
			e.encP = o.pk.Encode()
			if d, err := crypto.DecodePublicKey(o.alg, e.encP); err == nil {
				eo = append(eo, eqObj{alg: o.alg, pk: d, encP: e.encP, name: o.name + "/re-decoded"})
			}
			if o.alg == BLS {
				eo = append(eo, eqObj{alg: o.alg, pk: jacobianForm(o.pk, r), encP: e.encP, name: o.name + "/jacobian"})
			}
		}
		if o.sk != nil {
			e.encS = o.sk.Encode()
			if d, err := crypto.DecodePrivateKey(o.alg, e.encS); err == nil {
				eo = append(eo, eqObj{alg: o.alg, sk: d, encS: e.encS, name: o.name + "/re-decoded"})
			}
		}
		eo = append(eo, e)
	}
	for i := range eo {
		for j := range eo {
			a, b := eo[i], eo[j]
			if a.pk != nil && b.pk != nil {
				want := a.alg == b.alg && bytes.Equal(a.encP, b.encP)
				var got bool
				if run.Guard("PublicKey.Equals", map[string]any{"a": a.name, "b": b.name}, func() { got = a.pk.Equals(b.pk) }) {
					continue
				}
				run.Eval(1)
				if got != want {
					run.Violate("C05:equals:public", fmt.Sprintf("PublicKey.Equals(%s %s, %s %s) = %v, expected %v (encodings %x / %x)", a.alg, a.name, b.alg, b.name, got, want, trunc(a.encP, 16), trunc(b.encP, 16)), map[string]any{"a": a.name, "b": b.name})
				}
			}
			if a.sk != nil && b.sk != nil {
				want := a.alg == b.alg && bytes.Equal(a.encS, b.encS)
				var got bool
				if run.Guard("PrivateKey.Equals", map[string]any{"a": a.name, "b": b.name}, func() { got = a.sk.Equals(b.sk) }) {
					continue
				}
				run.Eval(1)
				if got != want {
					run.Violate("C05:equals:private", fmt.Sprintf("PrivateKey.Equals(%s %s, %s %s) = %v, expected %v", a.alg, a.name, b.alg, b.name, got, want), map[string]any{"a": a.name, "b": b.name})
				}
			}
		}
	}
	run.Shape("equals-matrix")
}
