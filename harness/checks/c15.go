//go:build verif

package checks

import (
	"bytes"
	"crypto/sha256"
	"encoding/binary"
	"fmt"
	"math"
	"math/big"
	"math/bits"
	"slices"
	"sort"
	"strings"
	"sync"
	"sync/atomic"

	"github.com/onflow/crypto/random"

	"verif/harness/mon"
)

// tape is the byte source fed to the real sampling code through the verif hook.
type tape struct {
	data  []byte
	pos   int
	reads int
	sizes [16]int // sizes of the first Read calls
}

type tapeEnd struct{}

func (t *tape) Read(p []byte) {
	if t.pos+len(p) > len(t.data) {
		panic(tapeEnd{})
	}
	copy(p, t.data[t.pos:])
	t.pos += len(p)
	if t.reads < len(t.sizes) {
		t.sizes[t.reads] = len(p)
	}
	t.reads++
}

func (t *tape) reset(n int) {
	t.pos, t.reads = 0, 0
	t.data = t.data[:n]
}

// tryRun runs f; done=false when the tape ran out.
func tryRun(f func()) (done bool) {
	defer func() {
		if e := recover(); e != nil {
			if _, ok := e.(tapeEnd); ok {
				done = false
				return
			}
			panic(e)
		}
	}()
	f()
	return true
}

func byteSize(max uint64) int {
	s := 0
	for ; max != 0; max >>= 8 {
		s++
	}
	return s
}

// primeStale leaves 0xFF.. in the generator's 8-byte scratch so that stale high bytes would
// show through any mask that is too wide.
func primeStale(g random.Rand, t *tape) {
	t.data = t.data[:8]
	t.data[0] = 0xFE
	for i := 1; i < 8; i++ {
		t.data[i] = 0xFF
	}
	t.pos, t.reads = 0, 0
	g.UintN(^uint64(0))
}

// uintnExhaustive runs the real UintN(n) on every first-draw tape. Returns a violation string.
func uintnExhaustive(run *mon.Run, n uint64, depth2 int) (evals int64) {
	var cur uint64
	if !tryRun(func() { evals = uintnExhaustiveBody(run, n, depth2, &cur) }) {
		run.Violate("C15:uintn:rejection-behaviour", fmt.Sprintf("UintN(%d): on first-draw tape value %#x followed by all-zero bytes the call kept drawing until the tape ran out (it never accepts the value 0)", n, cur), map[string]any{"n": n, "tape_le": cur})
	}
	return
}

func uintnExhaustiveBody(run *mon.Run, n uint64, depth2 int, cur *uint64) (evals int64) {
	t := &tape{data: make([]byte, 0, 64)}
	g := random.NewVerifRand(t)
	primeStale(g, t)
	size := byteSize(n - 1)
	total := uint64(1) << (8 * uint(size))
	counts := make([]uint32, n)
	first := make([]int32, 0) // per first-draw tape: value or -1 (only kept for depth-2)
	keep := depth2 > 0 && size == 1
	var rejected uint64
	bad := func(sig, what string, v uint64) {
		run.Violate("C15:uintn:"+sig, fmt.Sprintf("UintN(%d): %s (first-draw tape value %#x)", n, what, v), map[string]any{"n": n, "tape_le": v, "size": size})
	}
	for v := uint64(0); v < total; v++ {
		*cur = v
		t.reset(2*size + 8)
		for i := 0; i < size; i++ {
			t.data[i] = byte(v >> (8 * uint(i)))
		}
		for i := size; i < len(t.data); i++ {
			t.data[i] = 0
		}
		out := g.UintN(n)
		evals++
		if out >= n {
			bad("out-of-range", fmt.Sprintf("returned %d", out), v)
			return
		}
		if size == 0 {
			counts[out]++
			continue
		}
		if t.sizes[0] != size {
			bad("draw-size", fmt.Sprintf("first Read asked for %d bytes, expected %d", t.sizes[0], size), v)
			return
		}
		if t.reads == 1 {
			counts[out]++
			if keep {
				first = append(first, int32(out))
			}
		} else {
			rejected++
			// a rejected draw must consume exactly `size` bytes and then behave like a fresh call:
			// the continuation is all zeros, which a fresh call maps to 0 after one more draw
			if t.reads != 2 || t.pos != 2*size || out != 0 || t.sizes[1] != size {
				bad("rejection-behaviour", fmt.Sprintf("after a rejected draw: %d reads, %d bytes consumed, returned %d on an all-zero continuation", t.reads, t.pos, out), v)
				return
			}
			if keep {
				first = append(first, -1)
			}
		}
	}
	// exact uniformity: every value equally often among the accepting tapes
	c0 := counts[0]
	for val, c := range counts {
		if c != c0 {
			run.Violate("C15:uintn:non-uniform", fmt.Sprintf("UintN(%d): over all %d first-draw tapes value 0 occurs %d times but value %d occurs %d times", n, total, c0, val, c), map[string]any{"n": n, "count0": c0, "value": val, "count": c})
			return
		}
	}
	if c0 == 0 || uint64(c0)*n+rejected != total {
		run.Violate("C15:uintn:counts", fmt.Sprintf("UintN(%d): accepted %d x %d + rejected %d != %d tapes", n, c0, n, rejected, total), map[string]any{"n": n})
		return
	}
	// depth 2: after a rejecting first byte the second byte must map exactly like a first byte
	if keep && rejected > 0 {
		done := 0
		for b1 := 0; b1 < 256 && done < depth2; b1++ {
			if first[b1] != -1 {
				continue
			}
			done++
			for b2 := 0; b2 < 256; b2++ {
				t.reset(16)
				t.data[0], t.data[1] = byte(b1), byte(b2)
				for i := 2; i < 16; i++ {
					t.data[i] = 0
				}
				out := g.UintN(n)
				evals++
				want := uint64(0)
				wantReads := 3
				if first[b2] >= 0 {
					want, wantReads = uint64(first[b2]), 2
				}
				if out != want || t.reads != wantReads {
					bad("second-draw", fmt.Sprintf("tape %02x %02x: returned %d after %d reads; a fresh call on %02x gives %d", b1, b2, out, t.reads, b2, want), uint64(b1)|uint64(b2)<<8)
					return
				}
			}
		}
	}
	return
}

// uintnLongRejections: first-draw table, then tapes of k rejected draws + one accepted draw.
func uintnLongRejections(run *mon.Run, n uint64) (evals int64) {
	t := &tape{data: make([]byte, 0, 8192)}
	g := random.NewVerifRand(t)
	primeStale(g, t)
	size := byteSize(n - 1)
	total := 1 << (8 * uint(size))
	first := make([]int64, total) // value or -1
	var rej []int
	for v := 0; v < total; v++ {
		t.reset(2*size + 8)
		for i := range t.data {
			t.data[i] = 0
		}
		for i := 0; i < size; i++ {
			t.data[i] = byte(v >> (8 * uint(i)))
		}
		out := g.UintN(n)
		if t.reads == 1 {
			first[v] = int64(out)
		} else {
			first[v] = -1
			rej = append(rej, v)
		}
	}
	if len(rej) == 0 {
		return
	}
	r := run.Rand(fmt.Sprintf("longrej-%d", n))
	for _, k := range []int{1, 2, 3, 7, 8, 15, 16, 31, 32, 33, 63, 64, 65, 100, 127, 128, 129, 200, 255, 256, 257, 300, 511, 512, 513, 1000, 1023, 1024, 1025} {
		for trial := 0; trial < 24; trial++ {
			last := r.IntN(total)
			for first[last] < 0 {
				last = r.IntN(total)
			}
			t.reset((k + 1) * size)
			for d := 0; d <= k; d++ {
				v := rej[r.IntN(len(rej))]
				if d == k {
					v = last
				}
				for i := 0; i < size; i++ {
					t.data[d*size+i] = byte(v >> (8 * uint(i)))
				}
			}
			var out uint64
			done := tryRun(func() { out = g.UintN(n) })
			evals++
			if !done || int64(out) != first[last] || t.reads != k+1 {
				run.Violate("C15:uintn:long-rejection-run", fmt.Sprintf("UintN(%d): after %d rejected draws the accepted draw %#x gives %d after %d reads (completed=%v); a fresh call on that draw gives %d", n, k, last, out, t.reads, done, first[last]), map[string]any{"n": n, "rejections": k, "last_draw": last})
				return
			}
		}
	}
	return
}

// uintnSampled: large n. Range on random tapes; equal multiplicity of outputs over two-byte
// slices of the tape with the other bytes fixed.
func uintnSampled(run *mon.Run, n uint64, label string, samples int) (evals int64) {
	r := run.Rand("uintn-" + label)
	t := &tape{data: make([]byte, 0, 1100)}
	g := random.NewVerifRand(t)
	primeStale(g, t)
	size := byteSize(n - 1)
	// bit balance: for a value uniform on [0,n) every bit below the top two is 1 with probability
	// 1/2 up to 2^-(gap); a stuck or correlated bit shows as a deviation far beyond 6 sigma
	nbits := bits.Len64(n-1) - 2
	ones := make([]int, 64)
	accepted := 0
	for i := 0; i < samples; i++ {
		t.reset(1024)
		copy(t.data, mon.RandBytes(r, 1024))
		var out uint64
		if !tryRun(func() { out = g.UintN(n) }) {
			run.Count("uintn.sampled-tape-exhausted", 1) // > 128 consecutive rejections: not judged
			continue
		}
		evals++
		if out >= n {
			run.Violate("C15:uintn:out-of-range", fmt.Sprintf("UintN(%d) returned %d", n, out), map[string]any{"n": n})
			return
		}
		if t.pos%size != 0 || t.sizes[0] != size {
			run.Violate("C15:uintn:draw-size", fmt.Sprintf("UintN(%d) consumed %d bytes in reads of %d (size %d)", n, t.pos, t.sizes[0], size), map[string]any{"n": n})
			return
		}
		accepted++
		for b := 0; b < nbits; b++ {
			if out>>uint(b)&1 == 1 {
				ones[b]++
			}
		}
	}
	if accepted >= 1000 {
		lim := 6 * math.Sqrt(float64(accepted)/4)
		for b := 0; b < nbits; b++ {
			if d := math.Abs(float64(ones[b]) - float64(accepted)/2); d > lim {
				run.Violate("C15:uintn:bit-imbalance", fmt.Sprintf("UintN(%d): over %d sampled tapes bit %d of the result is set %d times (expected %d +- %.0f at 6 sigma)", n, accepted, b, ones[b], accepted/2, lim), map[string]any{"n": n, "bit": b, "ones": ones[b], "samples": accepted})
				return
			}
		}
	}
	if size < 2 {
		return
	}
	base := mon.RandBytes(r, size)
	for _, lo := range []int{0, size - 2} {
		mult := map[uint64]int{}
		acc := 0
		for v := 0; v < 65536; v++ {
			t.reset(size + 64)
			copy(t.data, base)
			t.data[lo], t.data[lo+1] = byte(v), byte(v>>8)
			for i := size; i < len(t.data); i++ {
				t.data[i] = 0
			}
			out := g.UintN(n)
			evals++
			if t.reads == 1 {
				mult[out]++
				acc++
			}
		}
		m0 := -1
		for _, c := range mult {
			if m0 == -1 {
				m0 = c
			}
			if c != m0 {
				run.Violate("C15:uintn:slice-multiplicity", fmt.Sprintf("UintN(%d): over the 65536 settings of tape bytes %d,%d (others fixed) accepted outputs do not all have the same number of preimages (%d vs %d)", n, lo, lo+1, m0, c), map[string]any{"n": n, "base": mon.Hex(base), "slice": lo})
				return
			}
		}
		run.Count("uintn.slice-accepted", acc)
	}
	return
}

// ---- tape-tree walk for permutations and samples ------------------------------------

type walkResult struct {
	mass   map[int]map[string]*big.Rat // consumed length -> outcome -> mass
	leaves int64
	bad    string
}

// walker explores the tape tree of one sampling call. branch = number of low-bit patterns per
// byte (256 = byte-exhaustive; a smaller power of two 2^k = the low k bits with pseudo-random high bits,
// valid when every draw of the call has a bound <= 2^k).
type walker struct {
	run      *mon.Run
	call     func(g random.Rand) (string, string) // returns outcome key, violation text
	branch   int
	maxDepth int
	res      walkResult
	t        *tape
	g        random.Rand
	hiSeed   uint64
	verify   int // every verify-th leaf is re-run with other high bits
}

func (w *walker) hi(depth int, salt uint64) byte {
	if w.branch == 256 {
		return 0
	}
	x := (uint64(depth)+1)*0x9E3779B97F4A7C15 ^ w.hiSeed ^ salt*0xD1B54A32D192ED03
	x ^= x >> 29
	return byte(x>>7) &^ byte(w.branch-1)
}

func (w *walker) runOn(prefix []byte) (done bool, outcome, viol string, consumed int) {
	w.t.data = append(w.t.data[:0], prefix...)
	w.t.pos, w.t.reads = 0, 0
	done = tryRun(func() { outcome, viol = w.call(w.g) })
	return done, outcome, viol, w.t.pos
}

func (w *walker) walk(prefix []byte) {
	if w.res.bad != "" {
		return
	}
	done, outcome, viol, consumed := w.runOn(prefix)
	if done {
		if viol != "" {
			w.res.bad = viol
			return
		}
		if consumed != len(prefix) {
			w.res.bad = fmt.Sprintf("call consumed %d of %d supplied bytes", consumed, len(prefix))
			return
		}
		w.res.leaves++
		// identical outcome under other settings of the high bits (licenses the low-bit weighting)
		if w.branch != 256 && w.verify > 0 && w.res.leaves%int64(w.verify) == 0 {
			for salt := uint64(1); salt <= 2; salt++ {
				alt := make([]byte, len(prefix))
				for i, b := range prefix {
					alt[i] = b&byte(w.branch-1) | w.hi(i, salt+uint64(w.res.leaves))
				}
				d2, o2, _, c2 := w.runOn(alt)
				if !d2 || o2 != outcome || c2 != consumed {
					w.res.bad = fmt.Sprintf("outcome depends on the high bits of the source bytes: tape %x gives %s, tape %x gives %s", prefix, outcome, alt, o2)
					return
				}
			}
		}
		m := w.res.mass[consumed]
		if m == nil {
			m = map[string]*big.Rat{}
			w.res.mass[consumed] = m
		}
		mass := new(big.Rat).SetFrac(big.NewInt(1), new(big.Int).Exp(big.NewInt(int64(w.branch)), big.NewInt(int64(consumed)), nil))
		if old, ok := m[outcome]; ok {
			old.Add(old, mass)
		} else {
			m[outcome] = mass
		}
		return
	}
	if len(prefix) >= w.maxDepth {
		return // unresolved: more rejections than the depth bound allows
	}
	for v := 0; v < w.branch; v++ {
		b := byte(v)
		if w.branch != 256 {
			b = byte(v) | w.hi(len(prefix), uint64(v))
		}
		w.walk(append(prefix, b))
	}
}

func fact(n int) int {
	f := 1
	for i := 2; i <= n; i++ {
		f *= i
	}
	return f
}

// judgeWalk: every outcome equally likely at every consumed length; all outcomes present.
func judgeWalk(run *mon.Run, name string, n, m int, res *walkResult, wantOutcomes int, rep map[string]any) {
	if res.bad != "" {
		run.Violate(fmt.Sprintf("C15:%s:invalid", name), fmt.Sprintf("%s(n=%d,m=%d): %s", name, n, m, res.bad), rep)
		return
	}
	var lens []int
	for l := range res.mass {
		lens = append(lens, l)
	}
	sort.Ints(lens)
	if len(lens) == 0 {
		run.Violate(fmt.Sprintf("C15:%s:no-outcome", name), fmt.Sprintf("%s(n=%d,m=%d) never completed within the depth bound", name, n, m), rep)
		return
	}
	for _, l := range lens {
		mm := res.mass[l]
		if len(mm) != wantOutcomes {
			run.Violate(fmt.Sprintf("C15:%s:missing-outcomes", name), fmt.Sprintf("%s(n=%d,m=%d): among tapes of %d bytes only %d of the %d outcomes occur", name, n, m, l, len(mm), wantOutcomes), rep)
			return
		}
		var first *big.Rat
		var firstKey string
		for k, v := range mm {
			if first == nil {
				first, firstKey = v, k
				continue
			}
			if v.Cmp(first) != 0 {
				run.Violate(fmt.Sprintf("C15:%s:non-uniform", name), fmt.Sprintf("%s(n=%d,m=%d): among tapes of %d bytes outcome %s has probability mass %s but outcome %s has %s", name, n, m, l, firstKey, first.RatString(), k, v.RatString()), rep)
				return
			}
		}
	}
}

func validPerm(p []int, n int) bool {
	if len(p) != n {
		return false
	}
	seen := make([]bool, n)
	for _, x := range p {
		if x < 0 || x >= n || seen[x] {
			return false
		}
		seen[x] = true
	}
	return true
}

func c15Calls(n, m int) map[string]func(g random.Rand) (string, string) {
	return map[string]func(g random.Rand) (string, string){
		"Permutation": func(g random.Rand) (string, string) {
			p, err := g.Permutation(n)
			if err != nil || !validPerm(p, n) {
				return "", fmt.Sprintf("returned %v, %v: not a permutation of 0..%d", p, err, n-1)
			}
			return fmt.Sprint(p), ""
		},
		"SubPermutation": func(g random.Rand) (string, string) {
			p, err := g.SubPermutation(n, m)
			if err != nil || len(p) != m {
				return "", fmt.Sprintf("returned %v, %v", p, err)
			}
			seen := map[int]bool{}
			for _, x := range p {
				if x < 0 || x >= n || seen[x] {
					return "", fmt.Sprintf("returned %v: not %d distinct elements of 0..%d", p, m, n-1)
				}
				seen[x] = true
			}
			return fmt.Sprint(p), ""
		},
		"Samples": func(g random.Rand) (string, string) {
			return swapOutcome(n, m, func(sw func(i, j int)) error { return g.Samples(n, m, sw) })
		},
		"Shuffle": func(g random.Rand) (string, string) {
			return swapOutcome(n, n, func(sw func(i, j int)) error { return g.Shuffle(n, sw) })
		},
	}
}

// swapOutcome observes the swap(i,j) callback log: i = 0,1,..,m-1 in order, i <= j < n; the
// swaps are applied to a tagged array whose first m positions are the ordered sample.
func swapOutcome(n, m int, f func(func(i, j int)) error) (string, string) {
	a := make([]int, n)
	for i := range a {
		a[i] = i
	}
	next := 0
	viol := ""
	err := f(func(i, j int) {
		if i != next || j < i || j >= n {
			if viol == "" {
				viol = fmt.Sprintf("swap(%d,%d) called when swap(%d, j) with %d <= j < %d was expected", i, j, next, next, n)
			}
			return
		}
		next++
		a[i], a[j] = a[j], a[i]
	})
	if viol != "" {
		return "", viol
	}
	if err != nil {
		return "", "error " + err.Error()
	}
	if next != m {
		return "", fmt.Sprintf("%d swaps applied, expected %d", next, m)
	}
	if !validPerm(a, n) {
		return "", fmt.Sprintf("array after swaps %v is not a permutation", a)
	}
	return fmt.Sprint(a[:m]), ""
}

// C15: sampling helpers.
func C15(run *mon.Run) {
	run.Rule = "UintN(n): the real function run on ALL 256^size first-draw tapes for every n in the exhaustive range (values must be equally frequent; rejections must re-draw like a fresh call), sampled tapes and two-byte-slice multiplicities for n = 2^k, 2^k+-1 up to 2^64-1; Permutation/SubPermutation/Shuffle/Samples: depth-first walk of the tape tree with exact rational mass per outcome; shape = (function, n[, m])"
	run.Assumptions = []string{"the real genericPRG code is fed from an enumerated tape through the verif-tag hook random.NewVerifRand", "for n > 3 the permutation walks branch over the low three bits of each source byte (mass 1/8 each) with pseudo-random high bits; sampled leaves are re-run under other high bits and must agree, and the byte-exhaustive UintN result covers the per-draw mapping", "exact uniformity is not enumerated for n > 2^16 nor permutation sizes > 8"}
	var evals atomic.Int64
	var wg sync.WaitGroup
	sem := make(chan struct{}, 16)
	// ---- UintN exhaustive
	var ns []uint64
	seen := map[uint64]bool{}
	addN := func(n uint64) {
		if n >= 1 && !seen[n] {
			seen[n] = true
			ns = append(ns, n)
		}
	}
	exLimit := uint64(run.Pick(1<<10, 1<<16))
	for n := uint64(1); n <= exLimit; n++ {
		addN(n)
	}
	for k := uint(1); k <= 16; k++ {
		addN(1<<k - 1)
		addN(1 << k)
		if k < 16 {
			addN(1<<k + 1)
		}
	}
	run.Extra["uintn_exhaustive_upto"] = exLimit
	chunk := 64
	for lo := 0; lo < len(ns); lo += chunk {
		hi := min(lo+chunk, len(ns))
		wg.Add(1)
		sem <- struct{}{}
		go func(part []uint64) {
			defer wg.Done()
			defer func() { <-sem }()
			defer run.Protect("c15 worker")
			var e int64
			for _, n := range part {
				d2 := 0
				if n <= 256 {
					d2 = run.Pick(4, 256)
				}
				e += uintnExhaustive(run, n, d2)
				run.Count("uintn.exhaustive-n", 1)
				if n <= 300 || n&(n-1) == 0 {
					run.Shape(fmt.Sprintf("UintN|%d", n))
				}
			}
			evals.Add(e)
		}(ns[lo:hi])
	}
	// ---- long rejection runs: k rejected draws followed by an accepted one must give exactly what a
	// fresh call gives on that last draw, whatever k is (re-draws are i.i.d.)
	for _, n := range []uint64{3, 5, 129, 200, 255, 257, 300, 1000, 40000} {
		wg.Add(1)
		sem <- struct{}{}
		go func(n uint64) {
			defer wg.Done()
			defer func() { <-sem }()
			defer run.Protect("c15 worker")
			evals.Add(uintnLongRejections(run, n))
			run.Shape(fmt.Sprintf("UintN|long-rejections|%d", n))
		}(n)
	}
	// ---- UintN large n
	for k := uint(17); k <= 64; k++ {
		var list []uint64
		if k < 64 {
			list = []uint64{1<<k - 1, 1 << k, 1<<k + 1}
		} else {
			list = []uint64{1<<63 + 1, ^uint64(0), ^uint64(0) - 1}
		}
		for _, n := range list {
			wg.Add(1)
			sem <- struct{}{}
			go func(n uint64) {
				defer wg.Done()
				defer func() { <-sem }()
				defer run.Protect("c15 worker")
				evals.Add(uintnSampled(run, n, fmt.Sprint(n), run.Pick(2000, 100000)))
				run.Count("uintn.sampled-n", 1)
				run.Shape(fmt.Sprintf("UintN|big|%d", bits.Len64(n)))
			}(n)
		}
	}
	wg.Wait()
	// ---- permutations and samples
	maxN := run.Pick(7, 8)
	type job struct {
		name           string
		n, m           int
		branch, extras int
	}
	var jobs []job
	for n := 0; n <= maxN; n++ {
		extras := 1
		if n >= 7 {
			extras = run.Pick(0, 1)
		}
		jobs = append(jobs, job{"Permutation", n, n, 8, extras}, job{"Shuffle", n, n, 8, extras})
		for m := 0; m <= n; m++ {
			jobs = append(jobs, job{"Samples", n, m, 8, extras})
			if n <= 6 || m == n/2 || !run.Quick() {
				jobs = append(jobs, job{"SubPermutation", n, m, 8, extras})
			}
		}
	}
	// byte-exhaustive for n <= 3
	for n := 1; n <= 3; n++ {
		ex := run.Pick(1, 2)
		jobs = append(jobs, job{"Permutation", n, n, 256, ex}, job{"Shuffle", n, n, 256, ex})
		for m := 1; m <= n; m++ {
			jobs = append(jobs, job{"Samples", n, m, 256, ex}, job{"SubPermutation", n, m, 256, ex})
		}
	}
	// mid-size populations through Samples (m draws, so the tree stays small): n up to 64 (128 in
	// thorough) with the low log2 bits of each byte enumerated
	for _, c := range [][3]int{{9, 4, 16}, {12, 3, 16}, {16, 4, 16}, {17, 3, 32}, {31, 2, 32}, {32, 3, 32}, {33, 3, 64}, {48, 3, 64}, {63, 2, 64}, {64, 3, 64}} {
		if run.Quick() && c[2] == 64 && c[1] == 3 && c[0] != 48 {
			continue
		}
		jobs = append(jobs, job{"Samples", c[0], c[1], c[2], 0})
	}
	if !run.Quick() {
		jobs = append(jobs, job{"Samples", 65, 2, 128, 0}, job{"Samples", 100, 2, 128, 0}, job{"Samples", 128, 2, 128, 0}, job{"Samples", 24, 4, 32, 0}, job{"Samples", 16, 5, 16, 0})
	}
	for ji, j := range jobs {
		wg.Add(1)
		sem <- struct{}{}
		go func(ji int, j job) {
			defer wg.Done()
			defer func() { <-sem }()
			defer run.Protect("c15 worker")
			t := &tape{data: make([]byte, 0, 64)}
			g := random.NewVerifRand(t)
			primeStale(g, t)
			// minimum number of bytes: one per draw whose bound is > 1
			minBytes := 0
			switch j.name {
			case "Permutation", "SubPermutation":
				minBytes = max(0, j.n-1)
			case "Shuffle":
				minBytes = max(0, j.n-1)
			case "Samples":
				minBytes = j.m
				if j.m == j.n && j.n > 0 {
					minBytes = j.n - 1
				}
			}
			w := &walker{run: run, call: c15Calls(j.n, j.m)[j.name], branch: j.branch, maxDepth: minBytes + j.extras, t: t, g: g,
				hiSeed: uint64(run.Seed)*1000003 + uint64(ji), verify: run.Pick(16, 4)}
			w.res.mass = map[int]map[string]*big.Rat{}
			w.walk(nil)
			want := 1
			for i := 0; i < j.m; i++ {
				want *= j.n - i
			}
			rep := map[string]any{"function": j.name, "n": j.n, "m": j.m, "branch": j.branch, "max_depth": w.maxDepth}
			judgeWalk(run, j.name, j.n, j.m, &w.res, want, rep)
			evals.Add(w.res.leaves)
			run.Count("walk.leaves", int(w.res.leaves))
			run.Count("walk.jobs", 1)
			run.Shape(fmt.Sprintf("%s|%d|%d|b%d", j.name, j.n, j.m, j.branch))
			if ji%40 == 0 {
				run.Sample(map[string]any{"function": j.name, "n": j.n, "m": j.m, "branch": j.branch, "leaves": w.res.leaves, "outcomes": want})
			}
		}(ji, j)
	}
	wg.Wait()
	run.Eval(int(evals.Load()))
	// ---- error behaviour; equal seeds give equal outputs
	t := &tape{data: make([]byte, 64, 64)}
	g := random.NewVerifRand(t)
	for _, c := range []struct {
		name string
		f    func() error
	}{
		{"Permutation(-1)", func() error { _, e := g.Permutation(-1); return e }},
		{"SubPermutation(5,-1)", func() error { _, e := g.SubPermutation(5, -1); return e }},
		{"SubPermutation(3,4)", func() error { _, e := g.SubPermutation(3, 4); return e }},
		{"SubPermutation(-2,-3)", func() error { _, e := g.SubPermutation(-2, -3); return e }},
		{"Shuffle(-1)", func() error { return g.Shuffle(-1, func(i, j int) {}) }},
		{"Samples(5,-1)", func() error { return g.Samples(5, -1, func(i, j int) {}) }},
		{"Samples(3,4)", func() error { return g.Samples(3, 4, func(i, j int) {}) }},
		{"Samples(-1,-2)", func() error { return g.Samples(-1, -2, func(i, j int) {}) }},
		// a negative population with an empty sample (nothing would be drawn, the sizes are still inconsistent)
		{"Samples(-1,0)", func() error { return g.Samples(-1, 0, func(i, j int) {}) }},
		{"Samples(-7,0)", func() error { return g.Samples(-7, 0, func(i, j int) {}) }},
		{"Samples(MinInt,0)", func() error { return g.Samples(math.MinInt, 0, func(i, j int) {}) }},
		{"SubPermutation(-1,0)", func() error { _, e := g.SubPermutation(-1, 0); return e }},
		{"SubPermutation(-7,0)", func() error { _, e := g.SubPermutation(-7, 0); return e }},
		{"SubPermutation(MinInt,0)", func() error { _, e := g.SubPermutation(math.MinInt, 0); return e }},
		{"Shuffle(-7)", func() error { return g.Shuffle(-7, func(i, j int) {}) }},
		{"Permutation(-7)", func() error { _, e := g.Permutation(-7); return e }},
		// sizes at the ends of the int range (differences such as n-m wrap there)
		{"Samples(MinInt,1)", func() error { return g.Samples(math.MinInt, 1, func(i, j int) {}) }},
		{"Samples(MinInt+5,6)", func() error { return g.Samples(math.MinInt+5, 6, func(i, j int) {}) }},
		{"Samples(MinInt,MaxInt)", func() error { return g.Samples(math.MinInt, math.MaxInt, func(i, j int) {}) }},
		{"Samples(-1,MaxInt)", func() error { return g.Samples(-1, math.MaxInt, func(i, j int) {}) }},
		{"Samples(5,MinInt)", func() error { return g.Samples(5, math.MinInt, func(i, j int) {}) }},
		{"Samples(3,MaxInt)", func() error { return g.Samples(3, math.MaxInt, func(i, j int) {}) }},
		{"Shuffle(MinInt)", func() error { return g.Shuffle(math.MinInt, func(i, j int) {}) }},
		{"Shuffle(MinInt+1)", func() error { return g.Shuffle(math.MinInt+1, func(i, j int) {}) }},
		{"Permutation(MinInt)", func() error { _, e := g.Permutation(math.MinInt); return e }},
		{"SubPermutation(MinInt,1)", func() error { _, e := g.SubPermutation(math.MinInt, 1); return e }},
		{"SubPermutation(MinInt+5,6)", func() error { _, e := g.SubPermutation(math.MinInt+5, 6); return e }},
		{"SubPermutation(5,MinInt)", func() error { _, e := g.SubPermutation(5, math.MinInt); return e }},
		{"SubPermutation(3,MaxInt)", func() error { _, e := g.SubPermutation(3, math.MaxInt); return e }},
		{"SubPermutation(-1,MaxInt)", func() error { _, e := g.SubPermutation(-1, math.MaxInt); return e }},
	} {
		var err error
		t.pos = 0
		if run.Guard(c.name, nil, func() { err = c.f() }) {
			continue
		}
		run.Eval(1)
		if err == nil {
			run.Violate("C15:error-expected:"+c.name, c.name+" returned no error", nil)
		}
		run.Shape("error|" + c.name)
	}
	r := run.Rand("seeds")
	// (skipped when the tape monitors already reported: a sampler that never accepts would hang here)
	for i := 0; i < 30 && run.ViolationCount() == 0; i++ {
		seed := mon.RandBytes(r, 32)
		a, _ := random.NewChacha20PRG(seed, nil)
		b, _ := random.NewChacha20PRG(seed, nil)
		if string(prgScript(a, uint64(i), 50)) != string(prgScript(b, uint64(i), 50)) {
			run.Violate("C15:equal-seeds-differ", "equal ChaCha seeds give different sampling outputs", nil)
		}
		run.Eval(1)
	}
	if run.ViolationCount() == 0 {
		c15HistoryIndependence(run)
	}
	if run.ViolationCount() == 0 {
		c15Volume(run)
	}
	run.Exhaustive = false
	run.Extra["uintn_exhaustive_complete"] = run.Counter("uintn.exhaustive-n") == int64(len(ns))
	run.Require(run.Counter("uintn.exhaustive-n") == int64(len(ns)), "UintN exhaustive range incomplete")
	run.Require(run.Counter("walk.jobs") == int64(len(jobs)), "permutation/sample walks incomplete")
}

// c15Volume: validity of the four helpers over a grid of population and sample sizes far beyond the
// exhaustive range (sparse m << n, dense m ~ n, sizes around 2^8 and 2^16), driven by ChaCha20, plus a
// 6-sigma test of the first position's value counts for n <= 64.
func c15Volume(run *mon.Run) {
	type cell struct{ n, m, trials int }
	var cells []cell
	for _, n := range []int{9, 16, 17, 48, 64, 100, 200, 255, 256, 257, 300, 1000, 4096, 65537} {
		for _, m := range []int{0, 1, 2, 3, 5, n / 16, n / 3, n - 1, n} {
			if m < 0 || m > n {
				continue
			}
			tr := run.Pick(600, 6000)
			if n >= 1000 {
				tr = run.Pick(20, 200)
				if m <= 5 {
					tr = run.Pick(300, 3000)
				}
			}
			cells = append(cells, cell{n, m, tr})
		}
	}
	var wg sync.WaitGroup
	sem := make(chan struct{}, 16)
	for ci, c := range cells {
		wg.Add(1)
		sem <- struct{}{}
		go func(ci int, c cell) {
			defer wg.Done()
			defer func() { <-sem }()
			defer run.Protect("c15 volume")
			r := run.Rand(fmt.Sprintf("volume-%d", ci))
			g, err := random.NewChacha20PRG(mon.RandBytes(r, 32), nil)
			if err != nil {
				return
			}
			calls := c15Calls(c.n, c.m)
			names := []string{"SubPermutation", "Samples"}
			if c.m == c.n {
				names = []string{"Permutation", "Shuffle", "SubPermutation", "Samples"}
			}
			for _, name := range names {
				first := make([]int, c.n)
				for i := 0; i < c.trials; i++ {
					var viol string
					var p []int
					switch name {
					case "SubPermutation":
						// (decoded here rather than through the string key: the volume is large)
						var e error
						p, e = g.SubPermutation(c.n, c.m)
						if e != nil || len(p) != c.m {
							viol = fmt.Sprintf("returned %d elements, error %v", len(p), e)
						} else {
							seen := map[int]bool{}
							for _, x := range p {
								if x < 0 || x >= c.n || seen[x] {
									viol = fmt.Sprintf("returned %v: not %d distinct elements of 0..%d", p[:min(len(p), 24)], c.m, c.n-1)
									break
								}
								seen[x] = true
							}
						}
					case "Permutation":
						var e error
						p, e = g.Permutation(c.n)
						if e != nil || !validPerm(p, c.n) {
							viol = fmt.Sprintf("not a permutation of 0..%d (error %v)", c.n-1, e)
						}
					default:
						var out string
						out, viol = calls[name](g)
						if viol == "" && c.m > 0 {
							var f0 int
							fmt.Sscanf(out, "[%d", &f0)
							p = []int{f0}
						}
					}
					if viol != "" {
						run.Violate(fmt.Sprintf("C15:%s:invalid", name), fmt.Sprintf("%s(n=%d,m=%d) driven by ChaCha20, trial %d: %s", name, c.n, c.m, i, viol), map[string]any{"function": name, "n": c.n, "m": c.m, "trial": i})
						return
					}
					if len(p) > 0 && p[0] >= 0 && p[0] < c.n {
						first[p[0]]++
					}
				}
				run.Eval(c.trials)
				run.Count("volume.calls", c.trials)
				if c.m > 0 && c.n <= 64 && c.trials >= 500 {
					exp := float64(c.trials) / float64(c.n)
					lim := 6 * math.Sqrt(exp)
					for v, cnt := range first {
						if math.Abs(float64(cnt)-exp) > lim {
							run.Violate(fmt.Sprintf("C15:%s:first-position-bias", name), fmt.Sprintf("%s(n=%d,m=%d): over %d ChaCha20-driven calls value %d is first %d times (expected %.0f +- %.0f at 6 sigma)", name, c.n, c.m, c.trials, v, cnt, exp, lim), map[string]any{"function": name, "n": c.n, "m": c.m})
							break
						}
					}
				}
				run.Shape(fmt.Sprintf("volume|%s|n%d|m%d", name, c.n, c.m))
			}
		}(ci, c)
	}
	wg.Wait()
}

// c15HistoryIndependence: every sampling call is a function of the source bytes that follow the
// current position and of nothing else. One generator runs a sequence of calls with bounds of all
// byte sizes (in particular large bounds followed by small ones); each call is mirrored on a fresh
// generator positioned at the same point of the same source (a copy of the tape from that offset, or a
// ChaCha20 generator restored from Store()). Outputs, consumed bytes and resulting states must agree,
// and every UintN result must be below its bound.
func c15HistoryIndependence(run *mon.Run) {
	bounds := []uint64{1 << 8, 1 << 16, 1 << 24, 1 << 32, 1 << 40, 1 << 48, 1 << 56, 1<<8 + 1, 1<<16 + 1, 1<<16 - 1, 1<<32 + 1, 1<<24 - 1, 1 << 63, ^uint64(0), 1, 2, 3, 7, 100, 200, 255, 257, 1000, 65535, 70000, 1 << 20, 1 << 12, 1 << 4, 1 << 36}
	nSeq := run.Pick(320, 6000)
	var wg sync.WaitGroup
	sem := make(chan struct{}, 16)
	for si := 0; si < nSeq; si++ {
		wg.Add(1)
		sem <- struct{}{}
		go func(si int) {
			defer wg.Done()
			defer func() { <-sem }()
			defer run.Protect("c15 history")
			r := run.Rand(fmt.Sprintf("hist-%d", si))
			useTape := si%2 == 0
			tapeLen := 1 << 16
			bigPerm := si%40 == 6
			if bigPerm {
				tapeLen = 1 << 20
			}
			var data []byte
			var t *tape
			var g random.Rand
			if useTape {
				data = mon.RandBytes(r, tapeLen)
				t = &tape{data: data}
				g = random.NewVerifRand(t)
			} else {
				var err error
				g, err = random.NewChacha20PRG(mon.RandBytes(r, 32), mon.RandBytes(r, si%13))
				if err != nil {
					return
				}
			}
			steps := 6 + r.IntN(26)
			var trace []string
			// slices the original generator returned earlier in the sequence: later calls must not change them
			var keep, keepCopy [][]int
			var retained, retainedCopy *[][]int
			descending := si%4 < 2 // half of the sequences favour a large bound right before a smaller one
			lastSize := 0
			for st := 0; st < steps; st++ {
				var name string
				var call func(random.Rand) string
				switch x := r.IntN(10); {
				case x < 6:
					n := bounds[r.IntN(len(bounds))]
					if descending && lastSize > 1 && r.IntN(3) > 0 {
						// a bound whose byte size is smaller than the previous one's
						for tries := 0; tries < 20 && byteSize(n-1) >= lastSize; tries++ {
							n = bounds[r.IntN(len(bounds))]
						}
					}
					lastSize = byteSize(n - 1)
					name = fmt.Sprintf("UintN(%d)", n)
					call = func(g random.Rand) string {
						v := g.UintN(n)
						if v >= n {
							return fmt.Sprintf("OUT-OF-RANGE:%d", v)
						}
						return fmt.Sprint(v)
					}
				case x < 8:
					k := []int{0, 1, 2, 5, 10, 255, 256, 257, 300, 700}[r.IntN(10)]
					if bigPerm && st == 1 {
						k = 66000
					}
					lastSize = byteSize(uint64(max(k, 1) - 1))
					name = fmt.Sprintf("Permutation(%d)", k)
					sub := st%2 == 1 // SubPermutation(k, m) with m = k (the whole permutation) or a part of it
					m := k
					if sub && k > 1 && r.IntN(2) == 0 {
						m = 1 + r.IntN(k)
					}
					if sub {
						name = fmt.Sprintf("SubPermutation(%d,%d)", k, m)
					}
					call = func(g random.Rand) string {
						var p []int
						var err error
						if sub {
							p, err = g.SubPermutation(k, m)
						} else {
							p, err = g.Permutation(k)
						}
						if err != nil || len(p) != m || (m == k && !validPerm(p, k)) {
							return fmt.Sprintf("INVALID:%v", err)
						}
						if retained != nil {
							*retained = append(*retained, p)
							*retainedCopy = append(*retainedCopy, append([]int{}, p...))
						}
						h := sha256.New()
						for _, v := range p {
							var b [4]byte
							binary.LittleEndian.PutUint32(b[:], uint32(v))
							h.Write(b[:])
						}
						return fmt.Sprintf("%x", h.Sum(nil)[:8])
					}
				case x < 9:
					n := []int{1, 2, 9, 256, 257, 300, 5000}[r.IntN(7)]
					m := []int{0, 1, n / 2, n}[r.IntN(4)]
					lastSize = byteSize(uint64(n - 1))
					name = fmt.Sprintf("Samples(%d,%d)", n, m)
					call = func(g random.Rand) string {
						out, viol := swapOutcome(n, m, func(sw func(i, j int)) error { return g.Samples(n, m, sw) })
						if viol != "" {
							return "INVALID:" + viol
						}
						return fmt.Sprintf("%x", sha256.Sum256([]byte(out)))[:16]
					}
				default:
					n := []int{0, 1, 7, 8, 9, 64, 65}[r.IntN(7)]
					name = fmt.Sprintf("Read(%d)", n)
					call = func(g random.Rand) string {
						b := make([]byte, n)
						g.Read(b)
						return mon.Hex(b)
					}
				}
				trace = append(trace, name)
				rep := map[string]any{"sequence": trace, "source": map[bool]string{true: "tape", false: "chacha20"}[useTape], "index": si}
				var fresh random.Rand
				var t2 *tape
				var state []byte
				if useTape {
					t2 = &tape{data: data, pos: t.pos}
					fresh = random.NewVerifRand(t2)
				} else {
					state = g.Store()
					var err error
					fresh, err = random.RestoreChacha20PRG(state)
					if err != nil {
						run.Violate("C15:history:restore-refused", err.Error(), rep)
						return
					}
				}
				var a, b string
				retained, retainedCopy = &keep, &keepCopy
				okA := tryRun(func() { a = call(g) })
				retained, retainedCopy = nil, nil
				okB := tryRun(func() { b = call(fresh) })
				run.Eval(1)
				if !okA && !okB {
					break // tape exhausted on both
				}
				if okA != okB || a != b {
					run.Violate("C15:history-dependence:"+strings.SplitN(name, "(", 2)[0], fmt.Sprintf("after the calls %v the call %s returns %s (completed=%v) on the generator with that history and %s (completed=%v) on a fresh generator at the same source position", trace[:len(trace)-1], name, a, okA, b, okB), rep)
					return
				}
				if strings.HasPrefix(a, "OUT-OF-RANGE") || strings.HasPrefix(a, "INVALID") {
					run.Violate("C15:history:"+strings.SplitN(a, ":", 2)[0], fmt.Sprintf("after the calls %v the call %s gives %s", trace[:len(trace)-1], name, a), rep)
					return
				}
				if useTape {
					if t.pos != t2.pos {
						run.Violate("C15:history-dependence:consumed", fmt.Sprintf("after the calls %v the call %s leaves the source at byte %d with that history and at byte %d on a fresh generator", trace[:len(trace)-1], name, t.pos, t2.pos), rep)
						return
					}
				} else if !bytes.Equal(g.Store(), fresh.Store()) {
					run.Violate("C15:history-dependence:state", fmt.Sprintf("after the calls %v and %s the stored states of the original and the restored generator differ", trace[:len(trace)-1], name), rep)
					return
				}
				run.Count("history.calls", 1)
				for ki := range keep {
					if !slices.Equal(keep[ki], keepCopy[ki]) {
						run.Violate("C15:returned-slice-changed-by-later-call", fmt.Sprintf("a permutation returned earlier in the sequence %v was changed by the later call %s: it was %v, it is now %v", trace[:len(trace)-1], name, keepCopy[ki][:min(len(keepCopy[ki]), 16)], keep[ki][:min(len(keep[ki]), 16)]), rep)
						return
					}
				}
			}
			run.Shape(fmt.Sprintf("history|%v|%d", useTape, min(len(trace), 12)))
			if si < 2 {
				run.Sample(map[string]any{"history_sequence": trace, "tape": useTape})
			}
		}(si)
	}
	wg.Wait()
	run.Require(run.Counter("history.calls") >= int64(nSeq), "too few mirrored calls in the history-independence leg")
}

func init() { Registry["C15"] = C15 }
