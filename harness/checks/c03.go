//go:build cgo && !no_cgo

package checks

import (
	"fmt"
	"math/big"
	"math/rand/v2"
	"sort"
	"sync"

	"github.com/onflow/crypto"
	"github.com/onflow/crypto/hash"

	"verif/harness/mon"
	"verif/harness/ref"
)

type c03Batch struct {
	pks    []crypto.PublicKey
	sigs   []crypto.Signature
	built  []bool // harness knowledge: entry i was built valid
	msg    []byte
	h      hash.Hasher
	kind   string
	subset uint64
	// relaxBuilt: the keys of the batch are related, so that an "invalid" entry built from a neighbour's
	// signature may in fact be valid; the library's own per-index Verify alone is the reference then
	relaxBuilt bool
}

var c03Kinds = []string{"random-g1", "swapped-pair", "plus-minus-d", "three-way", "three-way-weighted", "plus-T3", "malformed", "bad-length", "infinity-sig", "identity-key", "identity-key-infinity-sig", "mixture", "neighbour-key", "compensating-lengths", "plus-minus-T3"}

// c03Build makes a batch of n valid entries and invalidates the positions in `bad` by `kind`.
func c03Build(r *rand.Rand, n int, bad []int, kind string, h hash.Hasher, hn string) (*c03Batch, error) {
	return c03BuildKeys(r, n, bad, kind, h, hn, "distinct")
}

// c03KeyPlans: how the keys of one batch are related to each other ("distinct": independent keys).
var c03KeyPlans = []string{"same-all", "same-pairs", "opposite-pairs", "same-runs-of-3", "same-far"}

// c03BuildKeys is c03Build with related keys inside the batch: equal keys at neighbouring (or all, or
// distant) indices, held by the same object, by a second object or in other coordinates, and opposite keys.
func c03BuildKeys(r *rand.Rand, n int, bad []int, kind string, h hash.Hasher, hn string, plan string) (*c03Batch, error) {
	msg := mon.RandBytes(r, 1+r.IntN(30))
	H, err := hashPoint(msg, h, hn)
	if err != nil {
		return nil, err
	}
	b := &c03Batch{msg: msg, h: h, kind: kind}
	ks := make([]*big.Int, n)
	pts := make([]ref.G1, n)
	b.relaxBuilt = plan != "distinct"
	for i := 0; i < n; i++ {
		ks[i] = randScalar(r)
		src := -1 // index whose key entry i repeats
		switch {
		case plan == "same-all" && i > 0:
			src = 0
		case plan == "same-pairs" && i%2 == 1:
			src = i - 1
		case plan == "opposite-pairs" && i%2 == 1:
			ks[i] = ref.Fr.Sub(big.NewInt(0), ks[i-1])
		case plan == "same-runs-of-3" && i%3 != 0:
			src = i - i%3
		case plan == "same-far" && i >= (n+1)/2:
			src = i - (n+1)/2
		}
		if src >= 0 {
			ks[i] = ks[src]
			if (i+src)%3 == 0 {
				// the very same key object twice in the list
				b.pks = append(b.pks, b.pks[src])
				pts[i] = ref.E1.Mul(H, ks[i])
				b.sigs = append(b.sigs, ref.EncodeG1(pts[i]))
				b.built = append(b.built, true)
				continue
			}
		}
		sk := skFromInt(ks[i])
		if i%3 == 2 {
			b.pks = append(b.pks, jacobianForm(sk.PublicKey(), r)) // same point, non-affine coordinates
		} else {
			b.pks = append(b.pks, sk.PublicKey())
		}
		pts[i] = ref.E1.Mul(H, ks[i])
		b.sigs = append(b.sigs, ref.EncodeG1(pts[i]))
		b.built = append(b.built, true)
	}
	for _, i := range bad {
		b.subset |= 1 << uint(i%64)
		b.built[i] = false
	}
	idPk := crypto.IdentityBLSPublicKey()
	inval := func(i int, k string) {
		switch k {
		case "random-g1":
			b.sigs[i] = ref.EncodeG1(ref.E1.Mul(ref.G1Gen, randScalar(r)))
		case "plus-T3":
			b.sigs[i] = ref.EncodeG1(ref.E1.Add(pts[i], tor3()))
		case "malformed":
			b.sigs[i] = crypto.BLSInvalidSignature()
		case "bad-length":
			b.sigs[i] = [][]byte{nil, {}, b.sigs[i][:47], append(append([]byte{}, b.sigs[i]...), 0)}[r.IntN(4)]
		case "infinity-sig":
			b.sigs[i] = ref.EncodeG1(ref.E1.Infinity())
		case "identity-key":
			b.pks[i] = idPk
		case "identity-key-infinity-sig":
			b.pks[i] = idPk
			b.sigs[i] = ref.EncodeG1(ref.E1.Infinity())
		case "neighbour-key":
			b.sigs[i] = ref.EncodeG1(ref.E1.Mul(H, ks[(i+1)%n]))
			if n == 1 {
				b.sigs[i] = ref.EncodeG1(ref.E1.Mul(H, ref.Fr.Add(ks[i], big.NewInt(1))))
			}
		}
	}
	switch kind {
	case "swapped-pair":
		// pairs of bad positions exchange their (valid) signatures; an odd one out gets a random point
		for j := 0; j+1 < len(bad); j += 2 {
			b.sigs[bad[j]], b.sigs[bad[j+1]] = b.sigs[bad[j+1]], b.sigs[bad[j]]
		}
		if len(bad)%2 == 1 {
			inval(bad[len(bad)-1], "random-g1")
		}
	case "plus-minus-d":
		for j := 0; j+1 < len(bad); j += 2 {
			d := ref.E1.Mul(ref.G1Gen, randScalar(r))
			b.sigs[bad[j]] = ref.EncodeG1(ref.E1.Add(pts[bad[j]], d))
			b.sigs[bad[j+1]] = ref.EncodeG1(ref.E1.Sub(pts[bad[j+1]], d))
		}
		if len(bad)%2 == 1 {
			inval(bad[len(bad)-1], "random-g1")
		}
	case "plus-minus-T3":
		// s_i + T and s_j - T for a small-order point T outside G1: each is outside G1 (individually
		// invalid), their sum is the sum of the valid signatures and lies in G1
		for j := 0; j+1 < len(bad); j += 2 {
			T := tor3()
			if j%4 == 2 {
				T = tor11()
			}
			b.sigs[bad[j]] = ref.EncodeG1(ref.E1.Add(pts[bad[j]], T))
			b.sigs[bad[j+1]] = ref.EncodeG1(ref.E1.Sub(pts[bad[j+1]], T))
		}
		if len(bad)%2 == 1 {
			inval(bad[len(bad)-1], "plus-T3")
		}
	case "three-way":
		j := 0
		for ; j+2 < len(bad); j += 3 {
			d1 := ref.E1.Mul(ref.G1Gen, randScalar(r))
			d2 := ref.E1.Mul(ref.G1Gen, randScalar(r))
			d3 := ref.E1.Neg(ref.E1.Add(d1, d2))
			b.sigs[bad[j]] = ref.EncodeG1(ref.E1.Add(pts[bad[j]], d1))
			b.sigs[bad[j+1]] = ref.EncodeG1(ref.E1.Add(pts[bad[j+1]], d2))
			b.sigs[bad[j+2]] = ref.EncodeG1(ref.E1.Add(pts[bad[j+2]], d3))
		}
		for ; j < len(bad); j++ {
			inval(bad[j], "random-g1")
		}
	case "three-way-weighted":
		// errors e_i, e_j, e_k at indices i<j<k with sum e = 0 AND sum index*e = 0: they cancel under
		// any coefficient that is an affine function of the index (shared base, counters, ...)
		sorted := append([]int{}, bad...)
		sort.Ints(sorted)
		j := 0
		for ; j+2 < len(sorted); j += 3 {
			i0, i1, i2 := sorted[j], sorted[j+1], sorted[j+2]
			D := ref.E1.Mul(ref.G1Gen, randScalar(r))
			b.sigs[i0] = ref.EncodeG1(ref.E1.Add(pts[i0], ref.E1.Mul(D, big.NewInt(int64(i2-i1)))))
			b.sigs[i1] = ref.EncodeG1(ref.E1.Sub(pts[i1], ref.E1.Mul(D, big.NewInt(int64(i2-i0)))))
			b.sigs[i2] = ref.EncodeG1(ref.E1.Add(pts[i2], ref.E1.Mul(D, big.NewInt(int64(i1-i0)))))
		}
		for ; j < len(sorted); j++ {
			inval(sorted[j], "random-g1")
		}
	case "compensating-lengths":
		// two neighbouring entries of 47 and 49 (or 0 and 96, 1 and 95) bytes whose concatenation is
		// exactly two valid signatures: a flattened buffer re-split every 48 bytes would look valid
		for _, i := range bad {
			if len(b.sigs[i]) != 48 {
				continue // already made part of a pair
			}
			if i+1 >= n || len(b.sigs[i+1]) != 48 {
				inval(i, "bad-length")
				continue
			}
			cat := append(append([]byte{}, b.sigs[i]...), b.sigs[i+1]...)
			cut := []int{47, 49, 0, 96, 1, 95, 24}[r.IntN(7)]
			b.sigs[i], b.sigs[i+1] = cat[:cut:cut], cat[cut:]
			b.built[i+1] = false
			b.subset |= 1 << uint((i+1)%64)
		}
	case "mixture":
		base := []string{"random-g1", "plus-T3", "malformed", "bad-length", "infinity-sig", "identity-key", "neighbour-key"}
		for _, i := range bad {
			inval(i, base[r.IntN(len(base))])
		}
	default:
		for _, i := range bad {
			inval(i, kind)
		}
	}
	return b, nil
}

func c03Check(run *mon.Run, b *c03Batch, label string) {
	rep := map[string]any{"kind": b.kind, "n": len(b.pks), "subset": fmt.Sprintf("%b", b.subset), "label": label, "msg": mon.Hex(b.msg)}
	var sg, pk []string
	for i := range b.sigs {
		sg = append(sg, mon.Hex(b.sigs[i]))
		pk = append(pk, mon.Hex(b.pks[i].Encode()))
	}
	rep["sigs"], rep["pks"] = sg, pk
	var res []bool
	var err error
	for rep2 := 0; rep2 < 2; rep2++ { // fresh internal randomness each time
		if rep2 == 1 && len(b.pks) >= 2 {
			// the second run follows, on this goroutine, calls that are rejected for an input error
			_, _ = crypto.BatchVerifyBLSSignaturesOneMessage(b.pks[:len(b.pks)-1], b.sigs, b.msg, b.h)
			_, _ = crypto.BatchVerifyBLSSignaturesOneMessage(b.pks, b.sigs, b.msg, nil)
			_, _ = crypto.BatchVerifyBLSSignaturesOneMessage(nil, nil, b.msg, b.h)
		}
		if run.Guard("BatchVerifyBLSSignaturesOneMessage", rep, func() { res, err = crypto.BatchVerifyBLSSignaturesOneMessage(b.pks, b.sigs, b.msg, b.h) }) {
			return
		}
		run.Eval(1)
		if err != nil {
			run.Violate("C03:unexpected-error:"+b.kind, fmt.Sprintf("batch verification returned error %v", err), rep)
			return
		}
		if len(res) != len(b.sigs) {
			run.Violate("C03:result-length", "result slice has the wrong length", rep)
			return
		}
		for i := range res {
			ind, e := b.pks[i].Verify(b.sigs[i], b.msg, b.h)
			if e != nil {
				run.Violate("C03:individual-error", e.Error(), rep)
				continue
			}
			// cross-check individual Verify against what the harness built
			if ind != b.built[i] && !(b.kind == "neighbour-key" && len(b.pks) == 1) && !(b.relaxBuilt && (b.kind == "swapped-pair" || b.kind == "neighbour-key" || b.kind == "mixture")) {
				// swapped pairs of *equal* signatures etc. cannot occur with random keys; report
				run.Violate("C03:individual-vs-built:"+b.kind, fmt.Sprintf("individual Verify at index %d = %v but the harness built it %v", i, ind, b.built[i]), rep)
			}
			if res[i] != ind {
				dir := "batch-accepts-invalid"
				if ind {
					dir = "batch-rejects-valid"
				}
				run.Violate(fmt.Sprintf("C03:%s:%s", dir, b.kind), fmt.Sprintf("batch[%d] = %v but Verify = %v (n=%d, kind=%s, invalid subset=%b)", i, res[i], ind, len(res), b.kind, b.subset), rep)
			}
		}
	}
}

// C03: batch verification agrees with individual verification.
func C03(run *mon.Run) {
	run.Rule = "exhaustive: n in 1..7 x every subset of invalid positions x invalidity kind, each run twice; sampled: larger n with invalid entries at tree-split boundaries; shape = (n, subset, kind)"
	run.Assumptions = []string{"the oracle is the library's own per-index Verify (that is the property), cross-checked against which entries the harness built valid", "2^-128 soundness error not observable; cancellation cases catch constant/shared or very short coefficients only"}
	h := crypto.NewExpandMsgXOFKMAC128("c03")
	hn := "kmac:c03"
	type job struct {
		n      int
		subset int
		kind   string
	}
	var jobs []job
	for n := 1; n <= 7; n++ {
		for sub := 0; sub < 1<<n; sub++ {
			for _, k := range c03Kinds {
				jobs = append(jobs, job{n, sub, k})
			}
		}
	}
	var wg sync.WaitGroup
	sem := make(chan struct{}, 16)
	for ji, j := range jobs {
		wg.Add(1)
		sem <- struct{}{}
		go func(ji int, j job) {
			defer wg.Done()
			defer func() { <-sem }()
			defer run.Protect("c03 worker")
			r := run.Rand(fmt.Sprintf("ex-%d", ji))
			var bad []int
			for i := 0; i < j.n; i++ {
				if j.subset&(1<<i) != 0 {
					bad = append(bad, i)
				}
			}
			bad = permute(r, bad) // which bad positions pair up varies
			b, err := c03Build(r, j.n, bad, j.kind, h, hn)
			if err != nil {
				run.Violate("C03:hash-point", err.Error(), nil)
				return
			}
			c03Check(run, b, "exhaustive")
			run.Shape(fmt.Sprintf("%d|%d|%s", j.n, j.subset, j.kind))
			run.Count("exhaustive.cases", 1)
			if j.kind == "plus-minus-d" || j.kind == "three-way" || j.kind == "swapped-pair" || j.kind == "three-way-weighted" {
				run.Count("cancellation.cases", 1)
			}
			if ji%997 == 0 {
				run.Sample(map[string]any{"n": j.n, "subset": fmt.Sprintf("%b", j.subset), "kind": j.kind})
			}
		}(ji, j)
	}
	wg.Wait()
	run.Extra["exhaustive_table_cases"] = len(jobs)
	run.Exhaustive = false // exhaustive in (n<=7, subset, kind); inputs themselves are sampled
	// sampled larger n, invalid entries at split boundaries of every tree level
	maxN := run.Pick(65, 260)
	nSampled := run.Pick(120, 2500)
	for si := 0; si < nSampled; si++ {
		wg.Add(1)
		sem <- struct{}{}
		go func(si int) {
			defer wg.Done()
			defer func() { <-sem }()
			defer run.Protect("c03 worker")
			r := run.Rand(fmt.Sprintf("sampled-%d", si))
			n := 8 + r.IntN(maxN-7)
			if si%7 == 0 {
				n = []int{8, 9, 15, 16, 17, 31, 32, 33, 63, 64, 65}[r.IntN(11)]
			}
			// boundaries: walk the tree as the C code splits it (left gets the larger half)
			var bounds []int
			var walk func(lo, ln int)
			walk = func(lo, ln int) {
				if ln <= 1 {
					return
				}
				right := ln / 2
				left := ln - right
				bounds = append(bounds, lo+left-1, lo+left)
				walk(lo, left)
				walk(lo+left, right)
			}
			walk(0, n)
			nb := 1 + r.IntN(4)
			seen := map[int]bool{}
			var bad []int
			for len(bad) < nb {
				p := bounds[r.IntN(len(bounds))]
				if r.IntN(5) == 0 {
					p = r.IntN(n)
				}
				if !seen[p] {
					seen[p] = true
					bad = append(bad, p)
				}
			}
			kind := c03Kinds[si%len(c03Kinds)]
			b, err := c03Build(r, n, bad, kind, h, hn)
			if err != nil {
				return
			}
			c03Check(run, b, "sampled")
			run.Shape(fmt.Sprintf("sampled|%d|%s|%d", n, kind, nb))
			run.Count("sampled.cases", 1)
		}(si)
	}
	wg.Wait()
	// entries the Go layer can settle without the C layer (nil / short / long signatures, identity keys)
	// anywhere in the list, and a cancelling pair or triple in the LAST positions: whatever per-entry
	// material (random coefficients, slots) is laid out by position must not run short at the tail
	for n := 4; n <= run.Pick(12, 24); n++ {
		for k := 2; k <= 3; k++ {
			for ki, kind := range []string{"swapped-pair", "plus-minus-d", "three-way"} {
				if kind == "three-way" && k < 3 {
					continue
				}
				wg.Add(1)
				sem <- struct{}{}
				go func(n, k, ki int, kind string) {
					defer wg.Done()
					defer func() { <-sem }()
					defer run.Protect("c03 worker")
					r := run.Rand(fmt.Sprintf("premarked-%d-%d-%d", n, k, ki))
					var tail []int
					for i := n - k; i < n; i++ {
						tail = append(tail, i)
					}
					if kind != "three-way" {
						tail = tail[len(tail)-2:]
					}
					b, err := c03Build(r, n, tail, kind, h, hn)
					if err != nil {
						return
					}
					// k entries before the tail become trivially invalid
					pre := r.Perm(n - k)[:min(k, n-k)]
					for j, i := range pre {
						switch (j + ki + n) % 4 {
						case 0:
							b.sigs[i] = nil
						case 1:
							b.sigs[i] = b.sigs[i][:47]
						case 2:
							b.pks[i] = crypto.IdentityBLSPublicKey()
						default:
							b.sigs[i] = append(append([]byte{}, b.sigs[i]...), 0)
						}
						b.built[i] = false
					}
					b.kind = "premarked-entries-and-cancelling-tail"
					c03Check(run, b, fmt.Sprintf("%d trivially invalid entries at %v and a %s in the last positions %v of %d", len(pre), pre, kind, tail, n))
					run.Shape(fmt.Sprintf("premarked|%d|%d|%s", n, k, kind))
					run.Count("premarked.cases", 1)
				}(n, k, ki, kind)
			}
		}
	}
	wg.Wait()
	// two cancelling invalid entries at an exact index distance d (all other entries valid), for distances at
	// the sizes an index or a coefficient table might wrap at: the pair must still be reported invalid
	dists := []int{64, 128, 255, 256, 257}
	if !run.Quick() {
		dists = append(dists, 8, 16, 32, 127, 129, 512, 1024)
	}
	for di, d := range dists {
		for ki, kind := range []string{"swapped-pair", "plus-minus-d"} {
			wg.Add(1)
			sem <- struct{}{}
			go func(di, d, ki int, kind string) {
				defer wg.Done()
				defer func() { <-sem }()
				defer run.Protect("c03 worker")
				r := run.Rand(fmt.Sprintf("distance-%d-%d", d, ki))
				n := d + 1 + r.IntN(40)
				i := r.IntN(n - d)
				b, err := c03Build(r, n, []int{i, i + d}, kind, h, hn)
				if err != nil {
					return
				}
				c03Check(run, b, fmt.Sprintf("cancelling pair at distance %d (positions %d and %d of %d)", d, i, i+d, n))
				run.Shape(fmt.Sprintf("distance|%d|%s", d, kind))
				run.Count("distance.cases", 1)
			}(di, d, ki, kind)
		}
	}
	wg.Wait()
	// related keys inside one batch (the same key at neighbouring, all or distant indices - as one object,
	// as two objects, in other coordinates - and opposite keys), with errors that cancel between exactly
	// those entries: a coefficient, a randomised key or a partial result shared between equal keys shows
	{
		kinds := []string{"plus-minus-d", "plus-minus-T3", "three-way", "swapped-pair", "random-g1", "mixture", "three-way-weighted"}
		sizes := []int{2, 3, 4, 6, 9}
		if !run.Quick() {
			sizes = append(sizes, 5, 7, 8, 16, 17, 33)
		}
		for pi, plan := range c03KeyPlans {
			for _, n := range sizes {
				for ki, kind := range kinds {
					wg.Add(1)
					sem <- struct{}{}
					go func(pi int, plan string, n, ki int, kind string) {
						defer wg.Done()
						defer func() { <-sem }()
						defer run.Protect("c03 worker")
						r := run.Rand(fmt.Sprintf("related-%s-%d-%s", plan, n, kind))
						// invalid positions: neighbouring pairs / triples first (these share keys under the plans), then all
						var sets [][]int
						for i := 0; i+1 < n; i += 2 {
							sets = append(sets, []int{i, i + 1})
						}
						for i := 0; i+2 < n; i += 3 {
							sets = append(sets, []int{i, i + 1, i + 2})
						}
						if n >= 4 {
							sets = append(sets, []int{0, (n + 1) / 2}, []int{1, 2})
						}
						all := make([]int, n)
						for i := range all {
							all[i] = i
						}
						sets = append(sets, all, nil)
						if run.Quick() && len(sets) > 5 {
							sets = append(sets[:3], sets[len(sets)-2:]...)
						}
						for _, bad := range sets {
							b, err := c03BuildKeys(r, n, bad, kind, h, hn, plan)
							if err != nil {
								return
							}
							c03Check(run, b, fmt.Sprintf("related keys (%s), n=%d, invalid positions %v", plan, n, bad))
							run.Count("related-keys.cases", 1)
						}
						run.Shape(fmt.Sprintf("related-keys|%s|%d|%s", plan, n, kind))
					}(pi, plan, n, ki, kind)
				}
			}
		}
		wg.Wait()
	}
	// input errors: all-false slice plus the documented class
	c03Errors(run)
	run.Require(run.Counter("related-keys.cases") > 0, "related-key batches not driven")
	run.Require(run.Counter("exhaustive.cases") == int64(len(jobs)), "exhaustive (n, subset, kind) table incomplete")
}

func c03Errors(run *mon.Run) {
	h := crypto.NewExpandMsgXOFKMAC128("c03e")
	sk := skFromInt(big.NewInt(21))
	pk := sk.PublicKey()
	sig, _ := sk.Sign([]byte("m"), h)
	ec, _ := crypto.GeneratePrivateKey(crypto.ECDSASecp256k1, make([]byte, 32))
	check := func(name string, res []bool, err error, wantLen int, pred func(error) bool) {
		run.Eval(1)
		bad := !pred(err) || len(res) != wantLen
		for _, v := range res {
			if v {
				bad = true
			}
		}
		if bad {
			run.Violate("C03:error-class:"+name, fmt.Sprintf("%s: result %v, error %v", name, res, err), nil)
		}
		run.Shape("error|" + name)
	}
	m := []byte("m")
	res, err := crypto.BatchVerifyBLSSignaturesOneMessage(nil, []crypto.Signature{sig}, m, h)
	check("empty-keys", res, err, 1, crypto.IsBLSAggregateEmptyListError)
	res, err = crypto.BatchVerifyBLSSignaturesOneMessage(nil, nil, m, h)
	check("empty-both", res, err, 0, crypto.IsBLSAggregateEmptyListError)
	res, err = crypto.BatchVerifyBLSSignaturesOneMessage([]crypto.PublicKey{pk, pk}, []crypto.Signature{sig}, m, h)
	check("len-mismatch", res, err, 1, crypto.IsInvalidInputsError)
	res, err = crypto.BatchVerifyBLSSignaturesOneMessage([]crypto.PublicKey{pk}, []crypto.Signature{sig, sig, sig}, m, h)
	check("len-mismatch-2", res, err, 3, crypto.IsInvalidInputsError)
	res, err = crypto.BatchVerifyBLSSignaturesOneMessage([]crypto.PublicKey{pk, pk}, []crypto.Signature{sig, sig}, m, nil)
	check("nil-hasher", res, err, 2, crypto.IsNilHasherError)
	res, err = crypto.BatchVerifyBLSSignaturesOneMessage([]crypto.PublicKey{pk, pk}, []crypto.Signature{sig, sig}, m, constHasher("odd", 1, 129))
	check("odd-hasher", res, err, 2, crypto.IsInvalidHasherSizeError)
	// hashers that announce 128 bytes but deliver another length (a custom hasher is an untrusted
	// argument): whatever Verify answers for each index, the batch must answer the same, and if the
	// batch reports an error every boolean is false. (An EMPTY output is not driven: Verify, Sign and the
	// batch function all index its first byte and panic; a hasher is not one of the argument kinds C09
	// quantifies over, so that is recorded as an observation in NOTES.md, not as a finding.)
	for _, outLen := range []int{1, 64, 96, 127, 129, 192, 256} {
		outLen := outLen
		lying := &fixedHasher{name: "lying", size: 128, f: func(d []byte, _ int) []byte { return h.ComputeHash(d)[:min(outLen, 128)] }}
		if outLen > 128 {
			lying.f = func(d []byte, _ int) []byte { return append(h.ComputeHash(d), make([]byte, outLen-128)...) }
		}
		sk2 := skFromInt(big.NewInt(int64(100 + outLen)))
		s2, _ := sk2.Sign(m, h)
		pks := []crypto.PublicKey{pk, sk2.PublicKey(), pk, sk2.PublicKey(), crypto.IdentityBLSPublicKey(), pk}
		sigs := []crypto.Signature{sig, s2, s2, crypto.BLSInvalidSignature(), sig, sig[:47]}
		rep := map[string]any{"hasher_output_length": outLen}
		var res []bool
		var err error
		if run.Guard("BatchVerifyBLSSignaturesOneMessage(lying hasher)", rep, func() { res, err = crypto.BatchVerifyBLSSignaturesOneMessage(pks, sigs, m, lying) }) {
			continue
		}
		run.Eval(1)
		for i := range res {
			var ind bool
			var e error
			if run.Guard("Verify(lying hasher)", rep, func() { ind, e = pks[i].Verify(sigs[i], m, lying) }) {
				continue
			}
			if err != nil && res[i] {
				run.Violate("C03:error-class:true-with-error", fmt.Sprintf("hasher announcing 128 bytes and returning %d: batch error %v but result[%d] is true", outLen, err, i), rep)
			} else if res[i] && !(ind && e == nil) {
				run.Violate("C03:batch-accepts-invalid:lying-hasher", fmt.Sprintf("hasher announcing 128 bytes and returning %d: batch[%d] = true but Verify = (%v,%v) (batch error: %v)", outLen, i, ind, e, err), rep)
			} else if err == nil && e == nil && res[i] != ind {
				run.Violate("C03:batch-rejects-valid:lying-hasher", fmt.Sprintf("hasher announcing 128 bytes and returning %d: batch[%d] = %v but Verify = %v", outLen, i, res[i], ind), rep)
			}
		}
		run.Shape(fmt.Sprintf("lying-hasher|%d", outLen))
	}
	for pos := 0; pos < 4; pos++ {
		pks := []crypto.PublicKey{pk, pk, pk, pk}
		pks[pos] = ec.PublicKey()
		res, err = crypto.BatchVerifyBLSSignaturesOneMessage(pks, []crypto.Signature{sig, sig, sig, sig}, m, h)
		check("ecdsa-key", res, err, 4, crypto.IsNotBLSKeyError)
	}
}
