//go:build cgo && !no_cgo

package checks

import (
	"bytes"
	"fmt"
	"math/big"
	"math/rand/v2"
	"sync"

	"github.com/onflow/crypto"
	"github.com/onflow/crypto/hash"

	"verif/harness/mon"
	"verif/harness/ref"
)

const BLS = crypto.BLSBLS12381

// ---- keys ---------------------------------------------------------------------------

func skFromInt(k *big.Int) crypto.PrivateKey {
	sk, err := crypto.DecodePrivateKey(BLS, ref.ScalarBytes(k))
	if err != nil {
		panic(fmt.Sprintf("harness: cannot decode scalar %s: %v", k, err))
	}
	return sk
}

func skScalar(sk crypto.PrivateKey) *big.Int { return new(big.Int).SetBytes(sk.Encode()) }

func randScalar(r *rand.Rand) *big.Int {
	for {
		k := new(big.Int).SetBytes(mon.RandBytes(r, 40))
		k.Mod(k, ref.R)
		if k.Sign() != 0 {
			return k
		}
	}
}

// shapedScalars: scalars in [1, r-1] with a shape rather than random bits - every power of two and its
// neighbours around limb, half-limb and window boundaries, values whose low or high part is all zeros
// or all ones, r minus such values. Scalar-multiplication code with a "short exponent" path, a window
// recoding or a limb loop treats exactly these differently from a random scalar.
// shapedAlways: the last entries of shapedScalars (the Montgomery constants) are used in every tier.
const shapedAlways = 54

func shapedScalars(r *rand.Rand) []*big.Int {
	seen := map[string]bool{}
	var out []*big.Int
	add := func(k *big.Int) {
		k = new(big.Int).Mod(k, ref.R)
		if k.Sign() != 0 && !seen[k.String()] {
			seen[k.String()] = true
			out = append(out, k)
		}
	}
	one := big.NewInt(1)
	for b := uint(1); b <= 254; b++ {
		interesting := b%8 == 0 || b%8 == 1 || b%8 == 7 || b >= 120 && b <= 140 || b >= 250 || b%5 == 0
		if !interesting {
			continue
		}
		p := new(big.Int).Lsh(one, b)
		add(p)
		add(new(big.Int).Sub(p, one))
		add(new(big.Int).Add(p, one))
		add(new(big.Int).Add(p, big.NewInt(int64(2+r.IntN(1000)))))
		add(new(big.Int).Sub(ref.R, p))
		if b >= 64 {
			// top bit at b, random low 64 bits, zeros between
			add(new(big.Int).Add(p, new(big.Int).SetUint64(r.Uint64())))
			// top bit at b, everything below random
			add(new(big.Int).Add(p, new(big.Int).Rsh(new(big.Int).SetBytes(mon.RandBytes(r, 32)), 256-b)))
		}
	}
	add(new(big.Int).Rsh(ref.R, 1))
	add(new(big.Int).Add(new(big.Int).Rsh(ref.R, 1), one))
	add(new(big.Int).Sub(ref.R, one))
	add(new(big.Int).Sub(ref.R, big.NewInt(2)))
	ff := new(big.Int).Sub(new(big.Int).Lsh(one, 128), one)
	add(new(big.Int).Lsh(ff, 64))  // 0x00..FF..FF 00..00
	add(new(big.Int).Lsh(ff, 120)) // ones in the upper part
	add(new(big.Int).SetBytes(bytes.Repeat([]byte{0x55}, 31)))
	add(new(big.Int).SetBytes(bytes.Repeat([]byte{0x0f}, 32)))
	// constants of the Montgomery representation modulo r (a scalar that is compared with, or mistaken for,
	// "one" or "zero" in the other representation): 2^256 mod r, its square, cube and inverse, 2^-512, each
	// also with its four 64-bit limbs and its 32 bytes in reverse order, and their neighbours
	mont := new(big.Int).Mod(new(big.Int).Lsh(one, 256), ref.R)
	rev := func(k *big.Int, unit int) *big.Int {
		b := k.FillBytes(make([]byte, 32))
		o := make([]byte, 32)
		for i := 0; i < 32; i += unit {
			copy(o[32-unit-i:32-i], b[i:i+unit])
		}
		return new(big.Int).SetBytes(o)
	}
	minv := new(big.Int).ModInverse(mont, ref.R)
	for _, c := range []*big.Int{mont, ref.Fr.Mul(mont, mont), ref.Fr.Mul(ref.Fr.Mul(mont, mont), mont), minv, ref.Fr.Mul(minv, minv), ref.Fr.Neg(mont)} {
		for _, v := range []*big.Int{c, rev(c, 8), rev(c, 1)} {
			add(v)
			add(new(big.Int).Add(v, one))
			add(new(big.Int).Sub(v, one))
		}
	}
	return out
}

var sk1 = sync.OnceValue(func() crypto.PrivateKey { return skFromInt(big.NewInt(1)) })

// ---- convention measurement (only C05 judges it) ---------------------------------------

var measuredConv = sync.OnceValue(func() ref.Conv {
	enc := sk1().PublicKey().Encode()
	if bytes.Equal(enc, ref.EncodeG2(ref.G2Gen, ref.ZCash)) {
		return ref.ZCash
	}
	if bytes.Equal(enc, ref.EncodeG2(ref.G2Gen, ref.C0First)) {
		return ref.C0First
	}
	panic(fmt.Sprintf("harness: public key of sk=1 is neither encoding of the G2 generator: %x", enc))
})

// pkPoint decodes a library public key by the reference under the measured convention.
func pkPoint(pk crypto.PublicKey) (ref.G2, error) {
	p, cls := ref.DecodeG2(pk.Encode(), measuredConv())
	if cls != ref.DecOK {
		return ref.G2{}, fmt.Errorf("public key encoding %x rejected by reference: %s", pk.Encode(), cls)
	}
	return p, nil
}

// ---- H(m, hasher) through the library with sk = 1 ----------------------------------------

type hcache struct {
	mu sync.Mutex
	m  map[string]ref.G1
}

var hc = &hcache{m: map[string]ref.G1{}}

// hashPoint returns the hash-to-curve image the library uses for (msg, hasher): the
// signature by sk=1, decoded and validated (on curve, in G1) by the reference.
func hashPoint(msg []byte, h hash.Hasher, hname string) (ref.G1, error) {
	key := hname + "|" + string(msg)
	hc.mu.Lock()
	if p, ok := hc.m[key]; ok {
		hc.mu.Unlock()
		return p, nil
	}
	hc.mu.Unlock()
	sig, err := sk1().Sign(msg, h)
	if err != nil {
		return ref.G1{}, err
	}
	p, cls := ref.DecodeG1(sig)
	if cls != ref.DecOK {
		return ref.G1{}, fmt.Errorf("sk=1 signature %x does not decode: %s", sig, cls)
	}
	if !ref.InG1(p) {
		return ref.G1{}, fmt.Errorf("sk=1 signature %x is not in G1", sig)
	}
	hc.mu.Lock()
	hc.m[key] = p
	hc.mu.Unlock()
	return p, nil
}

// torsion points, computed once
var (
	tor3  = sync.OnceValue(func() ref.G1 { p, _ := ref.TorsionE1(3, []byte("c01")); return p })
	tor11 = sync.OnceValue(func() ref.G1 { p, _ := ref.TorsionE1(11, []byte("c01")); return p })
)

// cancellingGarbage returns non-zero byte patterns (to be OR-ed over an infinity encoding of L bytes; index
// 0 only gets low bits) whose bytes cancel under the accumulations a "rest must be zero" test might use
// instead of an early-exit loop: sum = 0 mod 256, xor = 0, or both.
func cancellingGarbage(r *rand.Rand, L int) [][]byte {
	var out [][]byte
	mk := func(set map[int]byte) {
		b := make([]byte, L)
		for i, v := range set {
			b[i] = v
		}
		out = append(out, b)
	}
	i, j := 1+r.IntN(L-1), 1+r.IntN(L-1)
	for j == i {
		j = 1 + r.IntN(L-1)
	}
	k := 1 + r.IntN(L-1)
	for k == i || k == j {
		k = 1 + r.IntN(L-1)
	}
	mk(map[int]byte{i: 0x80, j: 0x80})          // sum 256, xor 0
	mk(map[int]byte{1: 0x80, L - 1: 0x80})      // same, first and last body byte
	mk(map[int]byte{i: 0xFF, j: 0x01})          // sum 256
	mk(map[int]byte{0: 0x01, L - 1: 0xFF})      // low header bit + last byte: sum 256
	mk(map[int]byte{i: 0x55, j: 0x55})          // xor 0
	mk(map[int]byte{i: 0x40, j: 0x40, k: 0x80}) // sum 256
	mk(map[int]byte{0: 0x1F, i: 0xE1})          // header low bits 0x1F + 0xE1 = 256
	mk(map[int]byte{i: 0x01, j: 0x02, k: 0x03}) // xor 0
	all := map[int]byte{}
	for x := 1; x < L; x++ {
		all[x] = 0x10 // (L-1)*16: 752 for 48, 1520 for 96 - not 0 mod 256, but xor 0 when L-1 is even... kept as plain garbage
	}
	mk(all)
	quad := map[int]byte{}
	for x := 0; x < 4; x++ {
		quad[1+x*((L-1)/4)] = 0x40 // four times 0x40: sum 256, xor 0
	}
	mk(quad)
	return out
}

// sigClass classifies a candidate signature string by the reference.
func sigClass(b []byte) string {
	p, cls := ref.DecodeG1(b)
	if cls != ref.DecOK {
		return cls.String()
	}
	if p.Inf {
		return "infinity"
	}
	if !ref.InG1(p) {
		return "on-curve-not-G1"
	}
	return "in-G1"
}

type cand struct {
	b    []byte
	kind string
}

// g1Candidates builds the structured candidate family around the expected point E.
// H is the hash point (for +-H deltas); extra are labelled foreign signatures.
func g1Candidates(E, H ref.G1, r *rand.Rand, nRandom int, full bool) []cand {
	enc := ref.EncodeG1(E)
	var cs []cand
	add := func(kind string, b []byte) { cs = append(cs, cand{b: b, kind: kind}) }
	add("E", append([]byte{}, enc...))
	// single-bit flips
	if full {
		for i := 0; i < 384; i++ {
			c := append([]byte{}, enc...)
			c[i/8] ^= 0x80 >> (i % 8)
			add("bitflip", c)
		}
	} else {
		for j := 0; j < 40; j++ {
			i := r.IntN(384)
			if j < 8 {
				i = j // header and top bits always
			}
			c := append([]byte{}, enc...)
			c[i/8] ^= 0x80 >> (i % 8)
			add("bitflip", c)
		}
	}
	add("neg", ref.EncodeG1(ref.E1.Neg(E)))
	add("plus-T3", ref.EncodeG1(ref.E1.Add(E, tor3())))
	add("plus-T11", ref.EncodeG1(ref.E1.Add(E, tor11())))
	add("plus-cofactor", ref.EncodeG1(ref.E1.Add(E, ref.NonSubgroupE1(mon.RandBytes(r, 16)))))
	add("plus-g1", ref.EncodeG1(ref.E1.Add(E, ref.G1Gen)))
	add("minus-g1", ref.EncodeG1(ref.E1.Sub(E, ref.G1Gen)))
	add("plus-H", ref.EncodeG1(ref.E1.Add(E, H)))
	add("minus-H", ref.EncodeG1(ref.E1.Sub(E, H)))
	add("plus-randG1", ref.EncodeG1(ref.E1.Add(E, ref.E1.Mul(ref.G1Gen, randScalar(r)))))
	add("T3-alone", ref.EncodeG1(tor3()))
	// x + p when it fits in 381 bits
	if !E.Inf {
		xp := new(big.Int).Add(E.X, ref.P)
		if xp.BitLen() <= 381 {
			c := xp.FillBytes(make([]byte, 48))
			c[0] |= enc[0] & 0xE0
			add("x-plus-p", c)
		}
	}
	// all flag combinations over E's body
	for f := 0; f < 8; f++ {
		c := append([]byte{}, enc...)
		c[0] = (c[0] & 0x1F) | byte(f<<5)
		add("flags", c)
	}
	// infinity variants
	inf := make([]byte, 48)
	inf[0] = 0xC0
	add("infinity", append([]byte{}, inf...))
	for i := 0; i < 48; i++ {
		c := append([]byte{}, inf...)
		if i == 0 {
			c[0] |= 0x01
		} else {
			c[i] = byte(1 + r.IntN(255))
		}
		add("infinity-garbage", c)
	}
	c := append([]byte{}, inf...)
	c[0] |= 0x20
	add("infinity-garbage", c)
	for _, g := range cancellingGarbage(r, 48) {
		c := append([]byte{}, inf...)
		for i, v := range g {
			c[i] |= v
		}
		add("infinity-garbage-cancelling", c)
	}
	// lengths
	maxLen := 200
	for l := 0; l <= maxLen; l++ {
		if l == 48 {
			continue
		}
		if !full && l > 50 && l%17 != 0 && l != 96 {
			continue
		}
		var b []byte
		if l < 48 {
			b = append([]byte{}, enc[:l]...)
		} else {
			b = append(append([]byte{}, enc...), mon.RandBytes(r, l-48)...)
		}
		add("length", b)
	}
	add("length", nil)
	// random strings, half of them with a plausible header
	for i := 0; i < nRandom; i++ {
		b := mon.RandBytes(r, 48)
		if i%2 == 0 {
			b[0] = 0x80 | (b[0] & 0x3F)
		}
		add("random", b)
	}
	return cs
}

// jacobianForm returns a key object holding the same G2 point in non-affine (Jacobian, Z != 1)
// coordinates, as RemoveBLSPublicKeys produces them: (pk + q) - q.
func jacobianForm(pk crypto.PublicKey, r *rand.Rand) crypto.PublicKey {
	q := skFromInt(randScalar(r)).PublicKey()
	agg, err := crypto.AggregateBLSPublicKeys([]crypto.PublicKey{pk, q})
	if err != nil {
		return pk
	}
	rem, err := crypto.RemoveBLSPublicKeys(agg, []crypto.PublicKey{q})
	if err != nil {
		return pk
	}
	return rem
}
