//go:build cgo && !no_cgo

package checks

func init() {
	Registry["C01"] = C01
}
