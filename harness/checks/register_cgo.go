//go:build cgo && !no_cgo

package checks

func init() {
	ChildRuns["c01core"] = C01
	ChildRuns["c02core"] = C02
	ChildRuns["c03core"] = C03
	ChildRuns["c04core"] = C04
	ChildRuns["c06core"] = C06
	ChildRuns["c17core"] = C17
	Registry["C01"] = C01
	Registry["C02"] = C02
	Registry["C03"] = C03
	Registry["C04"] = C04
	Registry["C05"] = C05
	Registry["C06"] = C06
	Registry["C12"] = C12
	Registry["C16"] = C16
	Registry["C17"] = C17
}
