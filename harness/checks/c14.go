package checks

import (
	"bytes"
	"encoding/binary"
	"fmt"
	"math/rand/v2"
	"sync"

	"github.com/onflow/crypto/random"

	"verif/harness/mon"
	"verif/harness/ref"
)

var c14Sizes = []int{0, 1, 63, 64, 65, 127, 128, 129, 1000}

func padNonce(c []byte) []byte {
	n := make([]byte, 12)
	copy(n, c)
	return n
}

// prgScript applies an identical pseudo-random script of operations to a generator and
// returns a transcript of everything it produced.
func prgScript(g random.Rand, seed uint64, steps int) []byte {
	r := rand.New(rand.NewPCG(seed, 99))
	var out bytes.Buffer
	for s := 0; s < steps; s++ {
		switch r.IntN(6) {
		case 0:
			b := make([]byte, []int{0, 1, 7, 63, 64, 65, 130}[r.IntN(7)])
			g.Read(b)
			out.Write(b)
		case 1:
			ns := []uint64{1, 2, 3, 255, 256, 257, 1 << 16, 1<<32 + 5, 1<<63 + 3, ^uint64(0), 200, 120, 100, 65, 129, 50000, 30000, 1000, 600, 1 << 40, 1<<39 + 1}
			n := ns[r.IntN(len(ns))]
			fmt.Fprintf(&out, "u%d;", g.UintN(n))
		case 2:
			p, err := g.Permutation(r.IntN(12))
			fmt.Fprintf(&out, "p%v%v;", p, err)
		case 3:
			n := r.IntN(12)
			p, err := g.SubPermutation(n, r.IntN(n+1))
			fmt.Fprintf(&out, "s%v%v;", p, err)
		case 4:
			n := r.IntN(10)
			a := make([]int, n)
			for i := range a {
				a[i] = i
			}
			err := g.Shuffle(n, func(i, j int) { a[i], a[j] = a[j], a[i] })
			fmt.Fprintf(&out, "h%v%v;", a, err)
		case 5:
			n := 1 + r.IntN(10)
			a := make([]int, n)
			for i := range a {
				a[i] = i
			}
			err := g.Samples(n, r.IntN(n+1), func(i, j int) { a[i], a[j] = a[j], a[i] })
			fmt.Fprintf(&out, "m%v%v;", a, err)
		}
	}
	return out.Bytes()
}

// C14: ChaCha20 PRG and Store/Restore.
func C14(run *mon.Run) {
	run.Rule = "seeds x customizer lengths 0..12 x read-size sequences (all ordered pairs and triples from {0,1,63,64,65,127,128,129,1000} and random longer ones) against the RFC 8439 keystream; every byte offset 0..N reached by different read sequences, stored, restored and both generators continued with an identical script; shape = (customizer length, read sizes) or (offset)"
	run.Assumptions = []string{"reference ChaCha20 block function self-tested on RFC 8439 2.3.2 and against x/crypto/chacha20", "the 2^32-block counter wrap (256 GiB) is the caller's documented responsibility and is not explored"}
	var wg sync.WaitGroup
	sem := make(chan struct{}, 16)
	// ---- keystream under read-size sequences
	var seqs [][]int
	for _, a := range c14Sizes {
		for _, b := range c14Sizes {
			seqs = append(seqs, []int{a, b})
			for _, c := range []int{0, 1, 64, 65} {
				seqs = append(seqs, []int{a, b, c})
			}
		}
	}
	r0 := run.Rand("seqs")
	for i := 0; i < run.Pick(300, 6000); i++ {
		n := 3 + r0.IntN(12)
		s := make([]int, n)
		for j := range s {
			if r0.IntN(3) == 0 {
				s[j] = r0.IntN(300)
			} else {
				s[j] = c14Sizes[r0.IntN(len(c14Sizes))]
			}
		}
		seqs = append(seqs, s)
	}
	for si, sq := range seqs {
		wg.Add(1)
		sem <- struct{}{}
		go func(si int, sq []int) {
			defer wg.Done()
			defer func() { <-sem }()
			defer run.Protect("c14 worker")
			r := run.Rand(fmt.Sprintf("seq-%d", si))
			seed := mon.RandBytes(r, 32)
			if si%11 == 0 {
				seed = make([]byte, 32)
			}
			cust := mon.RandBytes(r, si%13)
			rep := map[string]any{"seed": mon.Hex(seed), "customizer": mon.Hex(cust), "reads": sq}
			// seed and customizer are fronts of larger caller buffers that the caller wipes right after
			// construction: the generator must have copied them and written nothing behind them
			seedArg, custArg := withSpare(seed), withSpare(cust)
			g, err := random.NewChacha20PRG(seedArg, custArg)
			if err != nil {
				run.Violate("C14:constructor-refuses-valid", err.Error(), rep)
				return
			}
			if !spareIntact(seedArg, seed) || !spareIntact(custArg, cust) {
				run.Violate("C14:constructor-touches-caller-memory", "NewChacha20PRG wrote to the buffers of its arguments", rep)
			}
			for i := range seedArg {
				seedArg[i] = 0
			}
			for i := range custArg {
				custArg[i] = 0xEE
			}
			run.Guard("Read-sequence", rep, func() {
				off := uint64(0)
				for ri, n := range sq {
					buf := withSpare(bytes.Repeat([]byte{0xA5}, n)) // garbage in the destination must not leak through
					g.Read(buf)
					want := ref.ChaCha20Stream(seed, padNonce(cust), off, n)
					run.Eval(1)
					if bytes.Equal(buf, want) && !spareIntact(buf, want) {
						run.Violate("C14:read-writes-past-buffer", fmt.Sprintf("Read #%d of %d bytes wrote behind the end of the destination slice", ri, n), rep)
						return
					}
					if !bytes.Equal(buf, want) {
						run.Violate(fmt.Sprintf("C14:keystream:read-%d-after-%d", sizeClass(n), sizeClass(prevSize(sq, ri))), fmt.Sprintf("Read #%d of %d bytes at offset %d differs from the RFC 8439 keystream: got %x want %x", ri, n, off, trunc(buf, 80), trunc(want, 80)), rep)
						return
					}
					off += uint64(n)
				}
				// Store layout
				st := g.Store()
				want := append(append(append([]byte{}, seed...), padNonce(cust)...), make([]byte, 8)...)
				binary.LittleEndian.PutUint64(want[44:], off)
				if !bytes.Equal(st, want) {
					run.Violate("C14:store-layout", fmt.Sprintf("Store() = %x, expected seed||customizer||LE64(count) = %x", st, want), rep)
				}
			})
			run.Shape(fmt.Sprintf("seq|c%d|%v", len(cust), sizeClasses(sq)))
			run.Count("sequences", 1)
		}(si, sq)
	}
	wg.Wait()
	// ---- large single reads (page, 32 KiB, 64 KiB, 1 MiB boundaries): keystream, the byte counter that
	// Store() reports after each read, and the continuation of a generator restored from that state
	{
		big := []int{4095, 4096, 4097, 8191, 8192, 16384, 16385, 32767, 32768, 32769, 40000, 65535, 65536, 65537, 100000, 131072, 131073, 262144 + 5, 524288, 1 << 20, 1<<20 + 1}
		if !run.Quick() {
			big = append(big, 1<<21+3, 1<<22, 1<<23+64, 1<<24, 1<<24+1, 3<<23+17)
		}
		var bseqs [][]int
		for i, n := range big {
			bseqs = append(bseqs, []int{n}, []int{[]int{1, 63, 64, 65, 129}[i%5], n, 7}, []int{n, big[(i*7+3)%len(big)]})
		}
		for si, sq := range bseqs {
			wg.Add(1)
			sem <- struct{}{}
			go func(si int, sq []int) {
				defer wg.Done()
				defer func() { <-sem }()
				defer run.Protect("c14 worker")
				r := run.Rand(fmt.Sprintf("big-%d", si))
				seed := mon.RandBytes(r, 32)
				cust := mon.RandBytes(r, si%13)
				rep := map[string]any{"seed": mon.Hex(seed), "customizer": mon.Hex(cust), "reads": sq}
				g, err := random.NewChacha20PRG(seed, cust)
				if err != nil {
					run.Violate("C14:constructor-refuses-valid", err.Error(), rep)
					return
				}
				run.Guard("large-reads", rep, func() {
					off := uint64(0)
					for ri, n := range sq {
						buf := withSpare(bytes.Repeat([]byte{0x3C}, n))
						g.Read(buf)
						want := ref.ChaCha20Stream(seed, padNonce(cust), off, n)
						run.Eval(1)
						if !bytes.Equal(buf, want) {
							d := 0
							for d < n && buf[d] == want[d] {
								d++
							}
							run.Violate("C14:keystream:large-read", fmt.Sprintf("Read #%d of %d bytes at offset %d differs from the RFC 8439 keystream from byte %d on", ri, n, off, d), rep)
							return
						}
						if !spareIntact(buf, want) {
							run.Violate("C14:read-writes-past-buffer", fmt.Sprintf("Read #%d of %d bytes wrote behind the end of the destination slice", ri, n), rep)
							return
						}
						off += uint64(n)
						st := g.Store()
						if len(st) != 52 || binary.LittleEndian.Uint64(st[44:]) != off {
							run.Violate("C14:store-counter-after-large-read", fmt.Sprintf("after reads %v (%d bytes in all) Store() reports %x as its byte counter", sq[:ri+1], off, st[min(44, len(st)):]), rep)
							return
						}
						g2, err := random.RestoreChacha20PRG(st)
						if err != nil {
							run.Violate("C14:restore-refuses-valid-state", err.Error(), rep)
							return
						}
						b := make([]byte, 100)
						g2.Read(b)
						if !bytes.Equal(b, ref.ChaCha20Stream(seed, padNonce(cust), off, 100)) {
							run.Violate("C14:restore-continuation:after-large-read", fmt.Sprintf("a generator restored after reads %v does not continue at offset %d", sq[:ri+1], off), rep)
							return
						}
					}
				})
				run.Shape(fmt.Sprintf("large|%v", sq))
				run.Count("large-read-sequences", 1)
			}(si, sq)
		}
		wg.Wait()
	}
	// ---- restore at every offset
	maxOff := run.Pick(320, 4160)
	for off := 0; off <= maxOff; off++ {
		wg.Add(1)
		sem <- struct{}{}
		go func(off int) {
			defer wg.Done()
			defer func() { <-sem }()
			defer run.Protect("c14 worker")
			r := run.Rand(fmt.Sprintf("off-%d", off))
			seed := mon.RandBytes(r, 32)
			cust := mon.RandBytes(r, off%13)
			// reach the offset by several different read sequences
			for variant := 0; variant < 5; variant++ {
				rep := map[string]any{"seed": mon.Hex(seed), "customizer": mon.Hex(cust), "offset": off, "variant": variant}
				g, err := random.NewChacha20PRG(seed, cust)
				if err != nil {
					run.Violate("C14:constructor-refuses-valid", err.Error(), rep)
					return
				}
				run.Guard("store-restore", rep, func() {
					left := off
					for left > 0 {
						var n int
						switch variant {
						case 0:
							n = left
						case 1:
							n = min(left, 64)
						default:
							n = min(left, 1+r.IntN(130))
						}
						g.Read(make([]byte, n))
						left -= n
					}
					off := off
					if variant >= 3 {
						// the original generator has a history of derived draws (bounds of all sizes) before the
						// state is stored: nothing but the stored state may influence what follows
						_ = prgScript(g, uint64(off*7+variant), 6+variant*5)
					}
					st := g.Store()
					if variant >= 3 && len(st) == 52 {
						off = int(binary.LittleEndian.Uint64(st[44:]))
					}
					stArg := withSpare(st)
					g2, err := random.RestoreChacha20PRG(stArg)
					run.Eval(1)
					if err != nil {
						run.Violate("C14:restore-refuses-valid-state", err.Error(), rep)
						return
					}
					// the caller reuses the state buffer after restoring
					if !spareIntact(stArg, st) {
						run.Violate("C14:restore-touches-caller-memory", "RestoreChacha20PRG wrote to the buffer of its argument", rep)
					}
					for i := range stArg {
						stArg[i] = 0x5C
					}
					if !bytes.Equal(g2.Store(), st) {
						run.Violate("C14:store-restore-store", fmt.Sprintf("Store after Restore differs: %x vs %x", g2.Store(), st), rep)
					}
					// raw continuation against the reference
					a, b := make([]byte, 200), make([]byte, 200)
					if variant == 1 {
						a, b = make([]byte, 40), make([]byte, 40)
					}
					g.Read(a)
					g2.Read(b)
					want := ref.ChaCha20Stream(seed, padNonce(cust), uint64(off), len(a))
					if !bytes.Equal(a, want) || !bytes.Equal(b, want) {
						run.Violate(fmt.Sprintf("C14:restore-continuation:offset-mod64-%d", off%64), fmt.Sprintf("after %d bytes: original continues %x, restored continues %x, keystream is %x", off, trunc(a, 48), trunc(b, 48), trunc(want, 48)), rep)
						return
					}
					// derived outputs under an identical script
					ta := prgScript(g, uint64(off*3+variant), 25)
					tb := prgScript(g2, uint64(off*3+variant), 25)
					if !bytes.Equal(ta, tb) || !bytes.Equal(g.Store(), g2.Store()) {
						run.Violate("C14:restore-derived-outputs", fmt.Sprintf("restored generator diverges from the original under the same script of Read/UintN/Permutation/Shuffle/Samples (offset %d)", off), rep)
					}
				})
			}
			run.SetAdd("offsets", fmt.Sprint(off))
			run.Shape(fmt.Sprintf("offset|%d", off))
		}(off)
	}
	wg.Wait()
	// ---- several checkpoints of ONE generator, all restored later (stored states must not alias)
	for it := 0; it < run.Pick(40, 600); it++ {
		r := run.Rand(fmt.Sprintf("ckpt-%d", it))
		seed := mon.RandBytes(r, 32)
		cust := mon.RandBytes(r, it%13)
		g, err := random.NewChacha20PRG(seed, cust)
		if err != nil {
			continue
		}
		var states [][]byte
		var offs []uint64
		off := uint64(0)
		for k := 0; k < 2+r.IntN(5); k++ {
			states = append(states, g.Store())
			offs = append(offs, off)
			n := []int{0, 1, 5, 63, 64, 65, 100, 257}[r.IntN(8)]
			g.Read(make([]byte, n))
			off += uint64(n)
		}
		for k := range states {
			g2, err := random.RestoreChacha20PRG(states[k])
			run.Eval(1)
			if err != nil {
				run.Violate("C14:restore-refuses-valid-state", err.Error(), nil)
				continue
			}
			b := make([]byte, 150)
			g2.Read(b)
			if want := ref.ChaCha20Stream(seed, padNonce(cust), offs[k], 150); !bytes.Equal(b, want) {
				run.Violate("C14:checkpoint-aliasing", fmt.Sprintf("state #%d stored at offset %d (of %v on one generator) restores to a generator that does not continue at that offset", k, offs[k], offs), map[string]any{"seed": mon.Hex(seed), "customizer": mon.Hex(cust), "offsets": offs})
				break
			}
		}
		run.Shape(fmt.Sprintf("checkpoints|%d", len(states)))
	}
	// ---- states whose byte counter is large (what Store() returns after that much output): the
	// layout is seed || customizer || LE64(count); block counters stay below 2^32 - 8
	{
		r := run.Rand("big-counters")
		var counters []uint64
		for _, base := range []uint64{1 << 31, 1<<32 - 64, 1<<32 - 1, 1 << 32, 1<<32 + 1, 1<<32 + 64, 1<<32 + 100, 1 << 33, 1<<33 + 7, 1 << 35, 3<<36 + 12345, 1<<38 - 2000} {
			counters = append(counters, base, base+uint64(r.IntN(64)))
		}
		for _, c := range counters {
			seed := mon.RandBytes(r, 32)
			cust := mon.RandBytes(r, int(c%13))
			st := append(append(append([]byte{}, seed...), padNonce(cust)...), make([]byte, 8)...)
			binary.LittleEndian.PutUint64(st[44:], c)
			g, err := random.RestoreChacha20PRG(st)
			run.Eval(1)
			if err != nil {
				run.Violate("C14:restore-refuses-valid-state", err.Error(), map[string]any{"counter": c})
				continue
			}
			b := make([]byte, 130)
			g.Read(b)
			if want := ref.ChaCha20Stream(seed, padNonce(cust), c, 130); !bytes.Equal(b, want) {
				run.Violate("C14:restore-large-counter", fmt.Sprintf("a state with byte counter %d (>= 2^31) restores to a generator that does not continue at that offset", c), map[string]any{"state": mon.Hex(st), "counter": c})
				break
			}
			if st2 := g.Store(); binary.LittleEndian.Uint64(st2[44:]) != c+130 {
				run.Violate("C14:store-layout", fmt.Sprintf("counter after restore at %d and 130 bytes is %d", c, binary.LittleEndian.Uint64(st2[44:])), nil)
			}
		}
		run.Shape("large-counters")
	}
	// ---- rejected lengths
	r := run.Rand("lens")
	for l := 0; l <= 80; l++ {
		if l == 32 {
			continue
		}
		_, err := random.NewChacha20PRG(make([]byte, l), nil)
		run.Eval(1)
		if err == nil {
			run.Violate("C14:seed-length-accepted", fmt.Sprintf("seed of %d bytes accepted", l), nil)
		}
	}
	for l := 13; l <= 40; l++ {
		_, err := random.NewChacha20PRG(make([]byte, 32), make([]byte, l))
		run.Eval(1)
		if err == nil {
			run.Violate("C14:customizer-length-accepted", fmt.Sprintf("customizer of %d bytes accepted", l), nil)
		}
	}
	for l := 0; l <= 120; l++ {
		if l == 52 {
			continue
		}
		var err error
		run.Guard("RestoreChacha20PRG(bad length)", l, func() { _, err = random.RestoreChacha20PRG(mon.RandBytes(r, l)) })
		run.Eval(1)
		if err == nil {
			run.Violate("C14:state-length-accepted", fmt.Sprintf("state of %d bytes accepted", l), nil)
		}
	}
	// a valid state followed by trailing bytes, two concatenated states, a truncated valid state
	{
		g, _ := random.NewChacha20PRG(mon.RandBytes(r, 32), mon.RandBytes(r, 5))
		g.Read(make([]byte, 77))
		st := g.Store()
		for _, l := range []int{1, 31, 32, 44, 45, 51, 53, 54, 60, 64, 104, 156, 1052, 4096} {
			var b []byte
			if l < len(st) {
				b = st[:l]
			} else {
				b = append(append([]byte{}, st...), bytes.Repeat(st, l/len(st)+1)[:l-len(st)]...)
			}
			var err error
			run.Guard("RestoreChacha20PRG(bad length)", l, func() { _, err = random.RestoreChacha20PRG(b) })
			run.Eval(1)
			if err == nil {
				run.Violate("C14:state-length-accepted", fmt.Sprintf("state of %d bytes (a valid state truncated or extended) accepted", l), nil)
			}
		}
	}
	_, err := random.RestoreChacha20PRG(nil)
	if err == nil {
		run.Violate("C14:state-length-accepted", "nil state accepted", nil)
	}
	// equal seeds give equal outputs, different customizers different streams
	for i := 0; i < 20; i++ {
		seed := mon.RandBytes(r, 32)
		c := mon.RandBytes(r, r.IntN(13))
		a, _ := random.NewChacha20PRG(seed, c)
		b, _ := random.NewChacha20PRG(append([]byte{}, seed...), append([]byte{}, c...))
		if !bytes.Equal(prgScript(a, uint64(i), 40), prgScript(b, uint64(i), 40)) {
			run.Violate("C14:equal-seeds-differ", "two generators with equal seed and customizer diverge", nil)
		}
		run.Eval(1)
	}
	run.Shape("rejected-lengths")
	// separate generators used from 16 goroutines at once
	{
		var table []func() []byte
		for i := 0; i < 12; i++ {
			seed, cust := mon.RandBytes(r, 32), mon.RandBytes(r, i%13)
			n := []int{1, 63, 64, 65, 200, 5000}[i%6]
			table = append(table, func() []byte {
				g, err := random.NewChacha20PRG(seed, cust)
				if err != nil {
					return []byte("error:" + err.Error())
				}
				b := make([]byte, n)
				g.Read(b)
				g2, err := random.RestoreChacha20PRG(g.Store())
				if err != nil {
					return []byte("error:" + err.Error())
				}
				return append(append(b, prgScript(g2, uint64(n), 12)...), g2.Store()...)
			})
		}
		calls, diff := parallelReplay(table, run.Pick(1500, 30000), uint64(run.Seed))
		run.Eval(int(calls))
		if diff != "" {
			run.Violate("C14:parallel-use-differs", "separate ChaCha20 generators built, read, stored and restored from 16 goroutines at once: "+diff, nil)
		}
		run.Shape("parallel-replay")
	}
	run.Require(run.SetLen("offsets") == maxOff+1, "not every restore offset exercised")
	run.Sample(map[string]any{"sequences": len(seqs), "offsets": maxOff + 1, "example_reads": seqs[len(seqs)-1]})
}

func sizeClass(n int) int {
	switch {
	case n < 0:
		return -1
	case n == 0:
		return 0
	case n < 64:
		return 1
	case n == 64:
		return 64
	default:
		return 65
	}
}

func prevSize(sq []int, i int) int {
	if i == 0 {
		return -1
	}
	return sq[i-1]
}

func sizeClasses(sq []int) []int {
	out := make([]int, 0, len(sq))
	for i, n := range sq {
		if i >= 4 {
			break
		}
		out = append(out, n)
	}
	return out
}

func init() { Registry["C14"] = C14 }
