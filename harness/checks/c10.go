//go:build cgo && !no_cgo

package checks

import (
	"bytes"
	"fmt"
	"math"
	"math/rand/v2"
	"strings"
	"sync"

	"github.com/onflow/crypto"

	"verif/harness/mon"
	"verif/harness/sim"
)

type dkgProto int

const (
	pVSS dkgProto = iota
	pQual
	pJF
)

func (p dkgProto) String() string {
	return [...]string{"FeldmanVSS", "FeldmanVSSQual", "JointFeldman"}[p]
}

// abstract alphabet
const (
	symStart = iota
	symTimeout
	symEnd
	symRunning
	symHBValid
	symHBJunk
	symHBOut
	symHPValid
	symHPJunk
	symHPOut
	symFDIn
	symFDDealer
	symFDOut
	symFDMe
	nSyms
)

var symNames = [...]string{"Start", "NextTimeout", "End", "Running", "HB(valid)", "HB(junk)", "HB(out-of-range)", "HP(valid)", "HP(junk)", "HP(out-of-range)", "FD(in)", "FD(dealer)", "FD(out-of-range)", "FD(me)"}

type mState int

const (
	stN mState = iota
	stR0
	stR1
	stR2
	stE
)

func (s mState) String() string { return [...]string{"N", "R0", "R1", "R2", "E"}[s] }

// modelStep returns the set of allowed result classes and the next state (Appendix C).
// classes: ok, st (state transition), ii (invalid input), end (keys or DKG failure)
func modelStep(p dkgProto, st mState, sym int) (allowed []string, next mState, rejected bool) {
	running := st == stR0 || st == stR1 || st == stR2
	switch sym {
	case symStart:
		if st == stN {
			return []string{"ok"}, stR0, false
		}
		return []string{"st"}, st, true
	case symRunning:
		return []string{"running"}, st, false
	case symTimeout:
		if p == pVSS {
			return []string{"ok"}, st, false
		}
		switch st {
		case stR0:
			return []string{"ok"}, stR1, false
		case stR1:
			return []string{"ok"}, stR2, false
		}
		return []string{"st"}, st, true
	case symEnd:
		if p == pVSS && st == stR0 || p != pVSS && st == stR2 {
			return []string{"end"}, stE, false
		}
		return []string{"st"}, st, true
	case symHBOut, symHPOut, symFDOut:
		if running {
			return []string{"ii"}, st, true
		}
		// not running: the statement gives the state-transition error for every handler call,
		// ForceDisqualify and End before Start and after End, whatever the index is
		return []string{"st"}, st, true
	default:
		if running {
			return []string{"ok"}, st, false
		}
		return []string{"st"}, st, true
	}
}

type concreteCall struct {
	sym     int
	idx     int // origin / participant
	payload []byte
	seed    []byte
}

func (c concreteCall) String() string {
	return fmt.Sprintf("%s[idx=%d,%dB]", symNames[c.sym], c.idx, len(c.payload))
}

// dkgFixture: constructor arguments and a pool of well-formed messages from honest companions.
type dkgFixture struct {
	p            dkgProto
	n, t         int
	me, dealer   int
	asDealer     bool
	validBcast   map[int][][]byte // origin -> messages
	validPrivate map[int][][]byte
}

func newFixture(p dkgProto, n, t int, asDealer bool) (*dkgFixture, error) {
	f := &dkgFixture{p: p, n: n, t: t, asDealer: asDealer, validBcast: map[int][][]byte{}, validPrivate: map[int][][]byte{}}
	f.dealer = 1
	f.me = 0
	if asDealer {
		f.me = f.dealer
	}
	if p == pJF {
		f.dealer = f.me // every participant deals; "dealer" only matters for FD(dealer)
	}
	// companions: honest instances of every other index, started with fixed seeds
	for o := 0; o < n; o++ {
		if o == f.me {
			continue
		}
		if p != pJF && o != f.dealer {
			// a non-dealer companion only contributes complaints
			f.validBcast[o] = append(f.validBcast[o], []byte{sim.TagComplaint, byte(f.dealer)})
			continue
		}
		rp := newRecProc()
		var inst crypto.DKGState
		var err error
		switch p {
		case pVSS:
			inst, err = crypto.NewFeldmanVSS(n, t, o, rp, f.dealer)
		case pQual:
			inst, err = crypto.NewFeldmanVSSQual(n, t, o, rp, f.dealer)
		default:
			inst, err = crypto.NewJointFeldman(n, t, o, rp)
		}
		if err != nil {
			return nil, err
		}
		seed := bytes.Repeat([]byte{byte(17 + o)}, 32)
		if err := inst.Start(seed); err != nil {
			return nil, err
		}
		f.validBcast[o] = append(f.validBcast[o], rp.bcast...)
		if sh, ok := rp.priv[f.me]; ok {
			f.validPrivate[o] = append(f.validPrivate[o], sh)
			if len(sh) == 33 {
				// the matching complaint answer
				f.validBcast[o] = append(f.validBcast[o], append([]byte{sim.TagAnswer, byte(f.me)}, sh[1:]...))
			}
		}
		if p != pVSS {
			f.validBcast[o] = append(f.validBcast[o], []byte{sim.TagComplaint, byte(f.dealer)})
		}
	}
	return f, nil
}

func (f *dkgFixture) newInstance(proc crypto.DKGProcessor) (crypto.DKGState, error) {
	switch f.p {
	case pVSS:
		return crypto.NewFeldmanVSS(f.n, f.t, f.me, proc, f.dealer)
	case pQual:
		return crypto.NewFeldmanVSSQual(f.n, f.t, f.me, proc, f.dealer)
	default:
		return crypto.NewJointFeldman(f.n, f.t, f.me, proc)
	}
}

// concretise turns an abstract sequence into concrete calls (pseudo-random per occurrence).
func (f *dkgFixture) concretise(r *rand.Rand, seq []int) []concreteCall {
	out := make([]concreteCall, len(seq))
	// out-of-range values, incl. the ones congruent to this participant's own index modulo 256 and 2^32
	oor := []int{-1, f.n, 255, math.MaxInt, -1 << 40, 256, f.me + 256, f.me - 256, f.me + 512, f.dealer + 256, f.me + 1<<32, f.n + 256}
	for i, sym := range seq {
		c := concreteCall{sym: sym}
		inRange := func() int {
			switch r.IntN(4) {
			case 0:
				return f.me
			case 1:
				return f.dealer
			default:
				return r.IntN(f.n)
			}
		}
		switch sym {
		case symStart:
			// a different seed for every Start occurrence: a refused Start must not re-key the dealer
			c.seed = bytes.Repeat([]byte{byte(0x42 + i)}, 32)
		case symHBValid, symHPValid:
			// an origin that has something valid to say, if any
			pool := f.validBcast
			if sym == symHPValid {
				pool = f.validPrivate
			}
			var origins []int
			for o := 0; o < f.n; o++ {
				if len(pool[o]) > 0 {
					origins = append(origins, o)
				}
			}
			if len(origins) == 0 {
				c.idx = inRange()
				c.payload = []byte{sim.TagComplaint, byte(f.dealer)}
			} else {
				c.idx = origins[r.IntN(len(origins))]
				c.payload = pool[c.idx][r.IntN(len(pool[c.idx]))]
			}
		case symHBJunk, symHPJunk:
			c.idx = inRange()
			switch r.IntN(4) {
			case 0:
				c.payload = mon.RandBytes(r, r.IntN(120))
			case 1:
				c.payload = []byte{}
			case 2: // well-formed payload of another phase / channel
				o := r.IntN(f.n)
				if m := f.validBcast[o]; len(m) > 0 && sym == symHPJunk {
					c.payload = m[r.IntN(len(m))]
				} else if m := f.validPrivate[o]; len(m) > 0 {
					c.payload = m[r.IntN(len(m))]
				} else {
					c.payload = []byte{byte(r.IntN(5))}
				}
			default:
				c.payload = append([]byte{byte(r.IntN(4))}, mon.RandBytes(r, []int{0, 1, 32, 33, 96}[r.IntN(5)])...)
			}
		case symHBOut, symHPOut:
			c.idx = oor[r.IntN(len(oor))]
			if m := f.validBcast[(f.me+1)%f.n]; len(m) > 0 {
				c.payload = m[0]
			}
		case symFDIn:
			c.idx = r.IntN(f.n)
			if f.p != pJF && c.idx == f.dealer {
				c.idx = (c.idx + 1) % f.n
			}
		case symFDDealer:
			c.idx = f.dealer
			if f.p == pJF {
				c.idx = r.IntN(f.n)
			}
		case symFDOut:
			c.idx = oor[r.IntN(len(oor))]
		case symFDMe:
			c.idx = f.me
		}
		out[i] = c
	}
	return out
}

type callResult struct {
	class   string
	running bool
	events  []string
	keys    string
}

func classifyErr(err error) string {
	switch {
	case err == nil:
		return "ok"
	case crypto.IsDKGInvalidStateTransitionError(err):
		return "st"
	case crypto.IsInvalidInputsError(err):
		return "ii"
	case crypto.IsDKGFailureError(err):
		return "dkg-failure"
	default:
		return "other(" + err.Error() + ")"
	}
}

// execCalls runs concrete calls on a fresh instance; panics are caught per call.
func execCalls(f *dkgFixture, calls []concreteCall) ([]callResult, string) {
	rp := newRecProc()
	inst, err := f.newInstance(rp)
	if err != nil {
		return nil, "constructor: " + err.Error()
	}
	res := make([]callResult, len(calls))
	for i, c := range calls {
		before := len(rp.events)
		pan := ""
		func() {
			defer func() {
				if e := recover(); e != nil {
					pan = fmt.Sprintf("%v at %s", e, mon.PanicSite())
				}
			}()
			switch c.sym {
			case symStart:
				seed := append([]byte{}, c.seed...)
				res[i].class = classifyErr(inst.Start(seed))
				for k := range seed {
					seed[k] = 0xEE
				}
			case symTimeout:
				res[i].class = classifyErr(inst.NextTimeout())
			case symEnd:
				sk, gpk, pks, err := inst.End()
				res[i].class = classifyErr(err)
				if err == nil {
					res[i].class = "keys"
					var sb strings.Builder
					fmt.Fprintf(&sb, "%x|%x|", sk.Encode(), gpk.Encode())
					for _, pk := range pks {
						fmt.Fprintf(&sb, "%x,", pk.Encode())
					}
					res[i].keys = sb.String()
				}
			case symRunning:
				res[i].class = "running"
			case symHBValid, symHBJunk, symHBOut:
				buf := append([]byte{}, c.payload...) // the transport's buffer, overwritten after the call
				res[i].class = classifyErr(inst.HandleBroadcastMsg(c.idx, buf))
				for k := range buf {
					buf[k] = 0xEE
				}
			case symHPValid, symHPJunk, symHPOut:
				buf := append([]byte{}, c.payload...)
				res[i].class = classifyErr(inst.HandlePrivateMsg(c.idx, buf))
				for k := range buf {
					buf[k] = 0xEE
				}
			default:
				res[i].class = classifyErr(inst.ForceDisqualify(c.idx))
			}
		}()
		if pan != "" {
			return res[:i], fmt.Sprintf("panic in call %d %s: %s", i, c, pan)
		}
		res[i].running = inst.Running()
		res[i].events = append([]string{}, rp.events[before:]...)
	}
	return res, ""
}

func c10RunSequence(run *mon.Run, f *dkgFixture, seq []int, r *rand.Rand, states map[string]bool, mu *sync.Mutex) {
	// Start after End is outside the quantifier: drop such symbols
	st := stN
	var kept []int
	for _, sym := range seq {
		if sym == symStart && st == stE {
			continue
		}
		_, st, _ = modelStep(f.p, st, sym)
		kept = append(kept, sym)
	}
	if len(kept) == 0 {
		return
	}
	c10JudgeCalls(run, f, f.concretise(r, kept), states, mu)
}

// c10JudgeCalls runs concrete calls and judges them against the model (and the twin run).
func c10JudgeCalls(run *mon.Run, f *dkgFixture, calls []concreteCall, states map[string]bool, mu *sync.Mutex) {
	st := stN
	role := "participant"
	if f.asDealer {
		role = "dealer"
	}
	rep := map[string]any{"protocol": f.p.String(), "role": role, "n": f.n, "t": f.t, "calls": fmt.Sprint(calls), "payloads": hexPayloads(calls)}
	resA, perr := execCalls(f, calls)
	run.Eval(1)
	if perr != "" {
		idx := len(resA)
		run.Violate(fmt.Sprintf("C10:%s:panic:%s", f.p, symNames[calls[idx].sym]), perr, rep)
		return
	}
	// (1) per-call class and Running() against the model
	st = stN
	var accepted []int
	for i, c := range calls {
		allowed, next, rejected := modelStep(f.p, st, c.sym)
		got := resA[i].class
		ok := false
		for _, a := range allowed {
			switch a {
			case "end":
				ok = ok || got == "keys" || got == "dkg-failure"
			default:
				ok = ok || got == a
			}
		}
		if !ok {
			run.Violate(fmt.Sprintf("C10:%s:%s:in-%s:got-%s", f.p, symNames[c.sym], st, strings.SplitN(got, "(", 2)[0]),
				fmt.Sprintf("%s %s: call #%d %s in model state %s returned class %q, the documented state machine allows %v", f.p, role, i, c, st, got, allowed), rep)
			return
		}
		wantRunning := next == stR0 || next == stR1 || next == stR2
		if resA[i].running != wantRunning {
			run.Violate(fmt.Sprintf("C10:%s:running-after:%s:in-%s", f.p, symNames[c.sym], st), fmt.Sprintf("%s %s: Running()=%v after call #%d %s (model state %s -> %s)", f.p, role, resA[i].running, i, c, st, next), rep)
			return
		}
		if rejected && len(resA[i].events) > 0 {
			run.Violate(fmt.Sprintf("C10:%s:rejected-call-has-effects:%s", f.p, symNames[c.sym]), fmt.Sprintf("%s %s: rejected call #%d %s emitted %v", f.p, role, i, c, resA[i].events), rep)
			return
		}
		if !rejected {
			accepted = append(accepted, i)
		}
		st = next
		mu.Lock()
		states[fmt.Sprintf("%s|%s", f.p, st)] = true
		mu.Unlock()
	}
	// (2) twin run without the rejected calls: identical observable behaviour
	if len(accepted) == len(calls) {
		return
	}
	twin := make([]concreteCall, len(accepted))
	for j, i := range accepted {
		twin[j] = calls[i]
	}
	resB, perr := execCalls(f, twin)
	run.Count("twin-runs", 1)
	if perr != "" {
		run.Violate(fmt.Sprintf("C10:%s:twin-panic", f.p), perr, rep)
		return
	}
	for j, i := range accepted {
		a, b := resA[i], resB[j]
		if a.class != b.class || a.running != b.running || a.keys != b.keys || strings.Join(a.events, ";") != strings.Join(b.events, ";") {
			// which rejected call came before?
			prev := "?"
			for k := i - 1; k >= 0; k-- {
				if _, _, rej := modelStepAt(f.p, calls, k); rej {
					prev = symNames[calls[k].sym]
					break
				}
			}
			run.Violate(fmt.Sprintf("C10:%s:rejected-call-changes-behaviour:%s-after-rejected-%s", f.p, symNames[calls[i].sym], prev),
				fmt.Sprintf("%s %s: call #%d %s behaves differently when the rejected calls before it are removed: with (%s, running=%v, %d events) without (%s, running=%v, %d events)", f.p, role, i, calls[i], a.class, a.running, len(a.events), b.class, b.running, len(b.events)), rep)
			return
		}
	}
}

func modelStepAt(p dkgProto, calls []concreteCall, k int) ([]string, mState, bool) {
	st := stN
	for i := 0; i < k; i++ {
		_, st, _ = modelStep(p, st, calls[i].sym)
	}
	return modelStep(p, st, calls[k].sym)
}

func hexPayloads(calls []concreteCall) []string {
	out := make([]string, len(calls))
	for i, c := range calls {
		out[i] = mon.Hex(c.payload)
	}
	return out
}

// C10: DKG API state machine.
func C10(run *mon.Run) {
	maxLen := run.Pick(4, 5)
	run.Rule = fmt.Sprintf("exhaustive: every abstract call sequence of length <= %d over the 14-symbol alphabet {Start, NextTimeout, End, Running, HB x3, HP x3, FD x4 (another participant, the dealer, out of range, this participant itself)} for 3 protocols x {dealer, participant}, each symbol concretised pseudo-randomly (origins, payloads from honest companions or junk); plus random sequences of length <= 25; every call's class and Running() judged by the model of Appendix C, and a twin run without the rejected calls must behave identically; shape = (protocol, role, abstract sequence) hashed", maxLen)
	run.Assumptions = []string{"restarting an instance after End is outside the quantifier (such Start symbols are dropped)", "seeds are valid (bad seeds are C09's subject)", "DKG instances are deterministic given constructor arguments and seed"}
	type fx struct {
		f   *dkgFixture
		key string
	}
	var fixtures []fx
	for _, p := range []dkgProto{pVSS, pQual, pJF} {
		for _, asDealer := range []bool{false, true} {
			for _, nt := range [][2]int{{3, 1}, {5, 2}} {
				f, err := newFixture(p, nt[0], nt[1], asDealer)
				if err != nil {
					run.Inconclusive("fixture: " + err.Error())
					return
				}
				fixtures = append(fixtures, fx{f, fmt.Sprintf("%s|%v|%d", p, asDealer, nt[0])})
			}
		}
	}
	states := map[string]bool{}
	var mu sync.Mutex
	var wg sync.WaitGroup
	sem := make(chan struct{}, 16)
	var fixtures0 []*dkgFixture
	for _, x := range fixtures {
		fixtures0 = append(fixtures0, x.f)
	}
	// exhaustive enumeration, chunked by first two symbols
	total := 0
	for l := 1; l <= maxLen; l++ {
		n := 1
		for i := 0; i < l; i++ {
			n *= nSyms
		}
		total += n
	}
	run.Extra["exhaustive_sequences_per_protocol_role"] = total
	for pi := 0; pi < 6; pi++ { // protocol x role
		for chunk := 0; chunk < nSyms*nSyms; chunk++ {
			wg.Add(1)
			sem <- struct{}{}
			go func(pi, chunk int) {
				defer wg.Done()
				defer func() { <-sem }()
				defer run.Protect("c10 worker")
				r := run.Rand(fmt.Sprintf("ex-%d-%d", pi, chunk))
				a, b := chunk/nSyms, chunk%nSyms
				cnt := 0
				one := func(seq []int) {
					// alternate the two (n,t) configurations
					f := fixtures[2*pi+(len(seq)+cnt)%2].f
					c10RunSequence(run, f, seq, r, states, &mu)
					cnt++
				}
				var rec func(seq []int)
				rec = func(seq []int) {
					one(seq)
					if len(seq) < maxLen {
						for s := 0; s < nSyms; s++ {
							rec(append(append([]int{}, seq...), s))
						}
					}
				}
				if b == 0 {
					one([]int{a}) // the length-1 sequence, once per first symbol
				}
				rec([]int{a, b})
				run.Count("exhaustive.sequences", cnt)
			}(pi, chunk)
		}
	}
	wg.Wait()
	// random longer sequences
	nRand := run.Pick(2000, 100000)
	for w := 0; w < 16; w++ {
		wg.Add(1)
		go func(w int) {
			defer wg.Done()
			defer run.Protect("c10 worker")
			r := run.Rand(fmt.Sprintf("rand-%d", w))
			for i := 0; i < nRand/16; i++ {
				l := 5 + r.IntN(21)
				seq := make([]int, l)
				for j := range seq {
					// bias towards progress so that deep states are reached
					switch x := r.IntN(10); {
					case j == 0 && x < 7:
						seq[j] = symStart
					case x < 2:
						seq[j] = symTimeout
					case x < 3 && j > l/2:
						seq[j] = symEnd
					default:
						seq[j] = r.IntN(nSyms)
					}
				}
				f := fixtures[r.IntN(len(fixtures))].f
				c10RunSequence(run, f, seq, r, states, &mu)
				run.Count("random.sequences", 1)
				if i == 0 && w < 3 {
					names := make([]string, len(seq))
					for k, s := range seq {
						names[k] = symNames[s]
					}
					run.Sample(map[string]any{"protocol": f.p.String(), "dealer_role": f.asDealer, "n": f.n, "sequence": names})
				}
			}
		}(w)
	}
	wg.Wait()
	for k := range states {
		run.Shape("state|" + k)
	}
	for pi := 0; pi < 6; pi++ {
		for a := 0; a < nSyms; a++ {
			for b := 0; b < nSyms; b++ {
				run.Shape(fmt.Sprintf("prefix|%d|%d|%d", pi, a, b))
			}
		}
	}
	c10Directed(run, fixtures0, states, &mu)
	c10ForceDisqualify(run, fixtures0)
	c10ConstructorGrid(run)
	run.Extra["model_states_visited"] = len(states)
	run.Require(len(states) == 5+5+3, fmt.Sprintf("model states visited: %d of 13 (N,R0,R1,R2,E for Qual and JF; N,R0,E for plain VSS)", len(states)))
	run.Require(run.Counter("exhaustive.sequences") == int64(6*total), "exhaustive enumeration incomplete")
	run.Require(run.Counter("twin-runs") > 1000, "too few twin runs")
}

// c10Directed: protocol-shaped sequences that random concretisation rarely produces, built from the
// companions' real messages: the dealer's genuine vector (and share) arrive, complaints are raised and
// left unanswered or answered, both timeouts pass, End() succeeds or fails for each documented reason -
// and then the instance must be over in every case: not running, every later call a state-transition
// error, a second End() refused.
func c10Directed(run *mon.Run, fixtures []*dkgFixture, states map[string]bool, mu *sync.Mutex) {
	for _, f := range fixtures {
		if f.asDealer && f.p != pJF {
			continue
		}
		var vector, share, answerMe []byte
		d := f.dealer
		if f.p == pJF {
			d = (f.me + 1) % f.n
		}
		for _, m := range f.validBcast[d] {
			if len(m) > 0 && m[0] == sim.TagVector && vector == nil {
				vector = m
			}
			if len(m) == 34 && m[0] == sim.TagAnswer {
				answerMe = m
			}
		}
		if sh := f.validPrivate[d]; len(sh) > 0 {
			share = sh[0]
		}
		if vector == nil {
			continue
		}
		other := (d + 1) % f.n
		if other == f.me {
			other = (other + 1) % f.n
		}
		complaintOther := []byte{sim.TagComplaint, byte(d)}
		hb := func(o int, m []byte) concreteCall { return concreteCall{sym: symHBValid, idx: o, payload: m} }
		hp := func(o int, m []byte) concreteCall { return concreteCall{sym: symHPValid, idx: o, payload: m} }
		start := concreteCall{sym: symStart, seed: bytes.Repeat([]byte{0x33}, 32)}
		nt := concreteCall{sym: symTimeout}
		end := concreteCall{sym: symEnd}
		tail := []concreteCall{{sym: symRunning}, end, {sym: symTimeout}, hb(d, vector), {sym: symFDIn, idx: other}, end}
		var seqs [][]concreteCall
		add := func(body ...concreteCall) {
			s := append([]concreteCall{start}, body...)
			if f.p == pVSS {
				// no timeouts in plain Feldman VSS
				var t []concreteCall
				for _, c := range s {
					if c.sym != symTimeout {
						t = append(t, c)
					}
				}
				s = t
			}
			seqs = append(seqs, append(append(s, end), tail...))
		}
		add(hb(d, vector), nt, nt)                                          // share never arrives: own complaint unanswered
		add(hb(d, vector), hp(d, share), nt, nt)                            // everything fine
		add(hp(d, share), hb(d, vector), nt, nt)                            // share before vector
		add(hb(d, vector), hp(d, share), hb(other, complaintOther), nt, nt) // another participant's complaint unanswered
		add(hb(d, vector), hp(d, share), nt, hb(other, complaintOther), nt) // ... raised in the second round
		add(nt, hb(d, vector), nt)                                          // vector late
		add(hb(d, vector), nt, hb(d, answerMe), nt)                         // own complaint answered
		add(hb(d, vector), hb(d, answerMe), nt, nt)                         // answer before the complaint
		add(hb(d, vector), hb(d, vector), hp(d, share), nt, nt)             // vector twice
		add(nt, nt)                                                         // nothing at all
		for _, s := range seqs {
			c10JudgeCalls(run, f, s, states, mu)
			run.Count("directed.sequences", 1)
		}
	}
	run.Shape("directed-sequences")
}

// c10ForceDisqualify: what an accepted ForceDisqualify(p) does, on runs fed with the companions' honest
// messages. Feldman-VSS-Qual (non-dealer): p = dealer makes End fail with a DKG failure whenever it is
// called while running (before or after the messages, between the timeouts); any other p changes nothing
// (same keys as the run without the call). Joint-Feldman: forcing dealer d out gives exactly the keys of
// the run in which d's vector never arrived (d disqualified by the protocol itself), different from the
// keys of the undisturbed run.
func c10ForceDisqualify(run *mon.Run, fixtures []*dkgFixture) {
	type res struct {
		err error
		gpk []byte
		pks string
		sk  []byte
	}
	play := func(f *dkgFixture, fdAt int, fdWho int, skipVectorOf int) (res, bool) {
		rp := newRecProc()
		in, err := f.newInstance(rp)
		if err != nil {
			return res{}, false
		}
		var out res
		problem := false
		func() {
			defer func() {
				if e := recover(); e != nil {
					problem = true
				}
			}()
			step := 0
			fd := func() {
				if step == fdAt && fdWho >= 0 {
					if e := in.ForceDisqualify(fdWho); e != nil {
						problem = true
					}
				}
				step++
			}
			_ = in.Start(bytes.Repeat([]byte{0x44}, 32))
			fd() // 0: right after Start
			for o := 0; o < f.n; o++ {
				if o == f.me {
					continue
				}
				for _, m := range f.validBcast[o] {
					if len(m) > 0 && m[0] == sim.TagVector && o != skipVectorOf {
						_ = in.HandleBroadcastMsg(o, append([]byte{}, m...))
					}
				}
				for _, m := range f.validPrivate[o] {
					_ = in.HandlePrivateMsg(o, append([]byte{}, m...))
				}
			}
			fd() // 1: after vectors and shares
			_ = in.NextTimeout()
			fd() // 2: between the timeouts
			_ = in.NextTimeout()
			fd() // 3: after both timeouts
			sk, gpk, pks, e := in.End()
			out.err = e
			if e == nil {
				out.gpk, out.sk = gpk.Encode(), sk.Encode()
				for _, k := range pks {
					out.pks += mon.Hex(k.Encode())
				}
			}
		}()
		return out, !problem
	}
	same := func(a, b res) bool {
		return (a.err == nil) == (b.err == nil) && bytes.Equal(a.gpk, b.gpk) && a.pks == b.pks && bytes.Equal(a.sk, b.sk)
	}
	for _, f := range fixtures {
		if f.asDealer || f.p == pVSS {
			continue
		}
		base, ok := play(f, -1, -1, -1)
		if !ok || base.err != nil {
			run.Inconclusive(fmt.Sprintf("C10 ForceDisqualify leg: the undisturbed %v run does not end with keys (%v)", f.p, base.err))
			return
		}
		for at := 0; at < 4; at++ {
			for who := 0; who < f.n; who++ {
				if who == f.me {
					continue
				}
				got, ok := play(f, at, who, -1)
				run.Eval(1)
				run.Count("force-disqualify.runs", 1)
				rep := map[string]any{"protocol": fmt.Sprint(f.p), "n": f.n, "t": f.t, "me": f.me, "forced": who, "at_step": at}
				if !ok {
					run.Violate("C10:force-disqualify:refused-or-panic", fmt.Sprintf("%v: ForceDisqualify(%d) at step %d of a running instance was refused or panicked", f.p, who, at), rep)
					continue
				}
				switch {
				case f.p == pQual && who == f.dealer:
					if !crypto.IsDKGFailureError(got.err) {
						run.Violate("C10:force-disqualify:dealer-still-qualified", fmt.Sprintf("Feldman-VSS-Qual: after ForceDisqualify(dealer=%d) at step %d End() returned %v instead of a DKG failure", who, at, got.err), rep)
					}
				case f.p == pQual:
					if !same(got, base) {
						run.Violate("C10:force-disqualify:non-dealer-has-effect", fmt.Sprintf("Feldman-VSS-Qual: ForceDisqualify(%d) of a participant that is not the dealer (step %d) changed the outcome of End() (%v)", who, at, got.err), rep)
					}
				default: // Joint-Feldman
					want, ok2 := play(f, -1, -1, who)
					if !ok2 {
						continue
					}
					if !same(got, want) || same(got, base) {
						run.Violate("C10:force-disqualify:joint-feldman", fmt.Sprintf("Joint-Feldman: the keys after ForceDisqualify(%d) at step %d differ from those of the run in which dealer %d is disqualified by the protocol (missing vector), or equal those of the undisturbed run (End: %v / %v)", who, at, who, got.err, want.err), rep)
					}
				}
			}
		}
		run.Shape(fmt.Sprintf("force-disqualify|%v|%d", f.p, f.n))
	}
}

// c10ConstructorGrid: the three constructors accept exactly size in [2, 254], threshold in [1, size-1]
// and participant / dealer indices in [0, size-1], and refuse everything else with an invalid-inputs
// error; an instance built at a corner of the ranges starts and, as a dealer, sends size-1 shares.
func c10ConstructorGrid(run *mon.Run) {
	sizes := []int{-1, 0, 1, 2, 3, 5, 127, 128, 253, 254, 255, 256, 257, 511, 1 << 20}
	for _, n := range sizes {
		for _, t := range []int{-1, 0, 1, 2, n / 2, n - 2, n - 1, n, n + 1, 254, 255, 256} {
			for _, me := range []int{-1, 0, 1, n - 1, n, n + 1, 255, 256, n + 256} {
				for _, dealer := range []int{-1, 0, n - 1, n, 256} {
					if (me+dealer+t)%3 != 0 && !(me == 0 && dealer == 0) && !(me == n-1 && dealer == n-1) {
						continue // a third of the grid, plus the diagonals
					}
					rangeOK := n >= 2 && n <= 254 && t >= 1 && t <= n-1 && me >= 0 && me < n
					for pi, proto := range []string{"FeldmanVSS", "FeldmanVSSQual", "JointFeldman"} {
						ok := rangeOK && (pi == 2 || dealer >= 0 && dealer < n)
						rep := map[string]any{"protocol": proto, "size": n, "threshold": t, "index": me, "dealer": dealer}
						rp := newRecProc()
						var inst crypto.DKGState
						var err error
						if run.Guard("DKG constructor", rep, func() {
							switch pi {
							case 0:
								inst, err = crypto.NewFeldmanVSS(n, t, me, rp, dealer)
							case 1:
								inst, err = crypto.NewFeldmanVSSQual(n, t, me, rp, dealer)
							default:
								inst, err = crypto.NewJointFeldman(n, t, me, rp)
							}
						}) {
							continue
						}
						run.Eval(1)
						run.Count("constructor-grid.points", 1)
						if ok && err != nil {
							run.Violate("C10:constructor-grid:refuses-legal:"+proto, fmt.Sprintf("New%s(size=%d, threshold=%d, index=%d, dealer=%d) is inside the documented ranges and returned %v", proto, n, t, me, dealer, err), rep)
							continue
						}
						if !ok && !crypto.IsInvalidInputsError(err) {
							run.Violate("C10:constructor-grid:accepts-illegal:"+proto, fmt.Sprintf("New%s(size=%d, threshold=%d, index=%d, dealer=%d) is outside the documented ranges and returned error %v", proto, n, t, me, dealer, err), rep)
							continue
						}
						// a legal corner instance works: it starts, and a dealer sends one share to everybody else
						if ok && (n == 254 || n == 2 || n == 253) && (t == 1 || t == n-1) {
							if e := inst.Start(bytes.Repeat([]byte{9}, 32)); e != nil {
								run.Violate("C10:constructor-grid:start", fmt.Sprintf("New%s(size=%d, threshold=%d, index=%d, dealer=%d).Start: %v", proto, n, t, me, dealer, e), rep)
								continue
							}
							if (pi == 2 || me == dealer) && len(rp.priv) != n-1 {
								run.Violate("C10:constructor-grid:shares-sent", fmt.Sprintf("%s dealer of a group of %d sent %d private shares", proto, n, len(rp.priv)), rep)
							}
							run.Count("constructor-grid.started", 1)
						}
					}
				}
			}
		}
	}
	run.Shape("constructor-grid")
	run.Require(run.Counter("constructor-grid.started") >= 6, "fewer than 6 corner instances were started")
}

func init() { Registry["C10"] = C10 }
