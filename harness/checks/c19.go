//go:build cgo && !no_cgo

package checks

import (
	"bytes"
	"crypto/sha256"
	"fmt"
	"math/rand/v2"
	"os"
	"sync"
	"sync/atomic"
	"time"

	"github.com/onflow/crypto"
	"github.com/onflow/crypto/hash"

	"verif/harness/mon"
	"verif/harness/ref"
)

type c19World struct {
	msgs      [][]byte
	kmac      hash.Hasher // one shared KMAC128 object
	kmacOut   [][]byte
	xof       hash.Hasher // one shared expand_message hasher
	sks       []crypto.PrivateKey
	pks       []crypto.PublicKey
	sigs      [][][]byte // [key][msg]
	pops      [][]byte
	aggPks    []crypto.PublicKey
	aggSig    [][]byte // per msg: aggregate over all keys
	manySig   []byte   // sum of sigs[k][k%len(msgs)]
	batchSigs [][]byte
	// a second batch with entries the library rejects before the pairing (identity key, signatures of
	// the wrong length): ONE list of keys and ONE list of signatures shared by all goroutines
	b2Pks     []crypto.PublicKey
	b2Sigs    []crypto.Signature
	b2Want    []bool
	batchWant []bool
	pkBytes   [][]byte // encodings of pks, taken before the storm objects were created
	// long lists for VerifyBLSSignatureManyMessages (more pairing couples than one internal batch holds), in
	// several windows and both groupings: [window][0] = distinct message per key, [window][1] = 7 messages
	longPks  []crypto.PublicKey
	longMsgs [][]byte
	longSig  [][2][]byte
	ecSks    [2]crypto.PrivateKey
	ecSigs   [2][][]byte
	bad      []byte
}

func newC19World(r *rand.Rand) *c19World {
	w := &c19World{}
	for i := 0; i < 12; i++ {
		// every shared message and signature is the front of a larger buffer (spare capacity with a
		// known pattern): the fingerprint covers the whole buffer, so a callee that appends to an
		// argument is seen even though len() and the visible bytes stay the same
		w.msgs = append(w.msgs, withSpare(mon.RandBytes(r, []int{0, 1, 31, 64, 167, 168, 169, 500, 2000}[r.IntN(9)])))
	}
	w.kmac, _ = hash.NewKMAC_128(mon.RandBytes(r, 32), []byte("c19"), 64)
	for _, m := range w.msgs {
		w.kmacOut = append(w.kmacOut, w.kmac.ComputeHash(m))
	}
	w.xof = crypto.NewExpandMsgXOFKMAC128("c19")
	// both shared hashers hold streamed data that was written and not yet finalised: read-only use by
	// ComputeHash / Sign / Verify must leave that pending stream alone (the fingerprint's SumHash sees it)
	defer func() {
		_, _ = w.kmac.Write([]byte("pending data streamed into the shared KMAC hasher"))
		_, _ = w.xof.Write([]byte("pending data streamed into the shared expand-message hasher"))
	}()
	for k := 0; k < 5; k++ {
		sk := skFromInt(randScalar(r))
		w.sks = append(w.sks, sk)
		w.pks = append(w.pks, sk.PublicKey()) // materialised before the concurrent phase
		var row [][]byte
		for _, m := range w.msgs {
			s, _ := sk.Sign(m, w.xof)
			row = append(row, withSpare(s))
		}
		w.sigs = append(w.sigs, row)
		p, _ := crypto.BLSGeneratePOP(sk)
		w.pops = append(w.pops, p)
	}
	// The objects used during the storm are FRESH: decoded from bytes (never encoded, never verified
	// with before) and every other one re-expressed in Jacobian coordinates, so that anything a
	// read-only operation caches or normalises lazily happens under concurrency
	for k := range w.pks {
		enc := w.pks[k].Encode()
		w.pkBytes = append(w.pkBytes, enc)
		fresh, err := crypto.DecodePublicKey(BLS, enc)
		if err != nil {
			panic(err)
		}
		if k%2 == 1 {
			fresh = jacobianForm(fresh, r)
		}
		w.pks[k] = fresh
	}
	for mi := range w.msgs {
		var l []crypto.Signature
		for k := range w.sks {
			l = append(l, w.sigs[k][mi])
		}
		a, _ := crypto.AggregateBLSSignatures(l)
		w.aggSig = append(w.aggSig, a)
	}
	var l []crypto.Signature
	for k := range w.sks {
		l = append(l, w.sigs[k][k%len(w.msgs)])
	}
	w.manySig, _ = crypto.AggregateBLSSignatures(l)
	w.bad = ref.EncodeG1(ref.E1.Mul(ref.G1Gen, randScalar(r)))
	{
		const nLong, win = 22, 17
		var lsks []crypto.PrivateKey
		for k := 0; k < nLong; k++ {
			sk := skFromInt(randScalar(r))
			lsks = append(lsks, sk)
			w.longPks = append(w.longPks, sk.PublicKey())
			w.longMsgs = append(w.longMsgs, mon.RandBytes(r, 5+k))
		}
		for v := 0; v+win <= nLong; v++ {
			var pair [2][]byte
			for kind := 0; kind < 2; kind++ {
				var l []crypto.Signature
				for k := v; k < v+win; k++ {
					mi := k
					if kind == 1 {
						mi = k % 7
					}
					sg, _ := lsks[k].Sign(w.longMsgs[mi], w.xof)
					l = append(l, sg)
				}
				pair[kind], _ = crypto.AggregateBLSSignatures(l)
			}
			w.longSig = append(w.longSig, pair)
		}
	}
	for k := range w.sks {
		s := w.sigs[k][0]
		ok := true
		if k%2 == 1 {
			s, ok = w.bad, false
		}
		w.batchSigs = append(w.batchSigs, s)
		w.batchWant = append(w.batchWant, ok)
	}
	for k := range w.sks {
		w.b2Pks = append(w.b2Pks, w.pks[k])
		w.b2Sigs = append(w.b2Sigs, w.sigs[k][1])
		w.b2Want = append(w.b2Want, true)
	}
	w.b2Pks[1] = crypto.IdentityBLSPublicKey() // valid signature next to an identity key
	w.b2Want[1] = false
	w.b2Sigs[3] = withSpare(w.sigs[3][1][:47]) // truncated
	w.b2Want[3] = false
	w.b2Pks = append(w.b2Pks, w.pks[0], w.pks[2])
	w.b2Sigs = append(w.b2Sigs, withSpare(nil), withSpare(append(append([]byte{}, w.sigs[2][1]...), 0)))
	w.b2Want = append(w.b2Want, false, false)
	for i, a := range []crypto.SigningAlgorithm{crypto.ECDSAP256, crypto.ECDSASecp256k1} {
		w.ecSks[i], _ = crypto.GeneratePrivateKey(a, mon.RandBytes(r, 32))
		_ = w.ecSks[i].PublicKey()
		for _, m := range w.msgs {
			s, _ := w.ecSks[i].Sign(m, []func() hash.Hasher{hash.NewSHA3_256, hash.NewSHA2_256}[i]())
			w.ecSigs[i] = append(w.ecSigs[i], s)
		}
	}
	return w
}

// fingerprint hashes every argument buffer, key encoding and the shared hashers' state.
func (w *c19World) fingerprint(after bool) string {
	h := sha256.New()
	add := func(b []byte) { h.Write([]byte{byte(len(b)), byte(len(b) >> 8)}); h.Write(b) }
	addFull := func(b []byte) { h.Write([]byte{byte(len(b)), byte(len(b) >> 8)}); h.Write(b[:cap(b)]) } // withSpare buffers
	for _, m := range w.msgs {
		addFull(m)
	}
	for _, o := range w.kmacOut {
		add(o)
	}
	for k := range w.sks {
		add(w.sks[k].Encode())
		if after {
			add(w.pks[k].Encode())
		} else {
			add(w.pkBytes[k])
		}
		add(w.pops[k])
		for _, s := range w.sigs[k] {
			addFull(s)
		}
	}
	for _, s := range w.aggSig {
		add(s)
	}
	add(w.manySig)
	add(w.bad)
	for _, s := range w.batchSigs {
		add(s)
	}
	for i, s := range w.b2Sigs {
		addFull(s) // the list elements themselves (length, bytes, spare capacity) as the callers see them
		add(w.b2Pks[i].Encode())
	}
	for i := range w.ecSks {
		add(w.ecSks[i].Encode())
		add(w.ecSks[i].PublicKey().Encode())
		for _, s := range w.ecSigs[i] {
			add(s)
		}
	}
	// hasher state: SumHash does not modify the KMAC objects
	add(w.kmac.SumHash())
	add(w.xof.SumHash())
	return fmt.Sprintf("%x", h.Sum(nil))
}

var c19Ops = []string{"kmac.ComputeHash", "bls.Sign", "bls.Verify", "BLSVerifyPOP", "SPOCKVerify", "VerifyOneMessage", "VerifyManyMessages", "BatchVerify", "ecdsa.Sign", "ecdsa.Verify", "BatchVerify-with-rejected-entries", "rejected-calls", "VerifyManyMessages-long"}

func (w *c19World) doOp(run *mon.Run, r *rand.Rand, op int, local [2]hash.Hasher) string {
	mi := r.IntN(len(w.msgs))
	k := r.IntN(len(w.sks))
	m := w.msgs[mi]
	switch op {
	case 0:
		if got := w.kmac.ComputeHash(m); !bytes.Equal(got, w.kmacOut[mi]) {
			return fmt.Sprintf("concurrent KMAC128 ComputeHash on the shared hasher returned %x, alone it returns %x", []byte(got), w.kmacOut[mi])
		}
	case 1:
		s, err := w.sks[k].Sign(m, w.xof)
		if err != nil || !bytes.Equal(s, w.sigs[k][mi]) {
			return fmt.Sprintf("concurrent BLS Sign returned %x (err %v), alone it returns %x", []byte(s), err, w.sigs[k][mi])
		}
	case 2:
		good := r.IntN(2) == 0
		sig := w.sigs[k][mi]
		if !good {
			sig = w.sigs[(k+1)%len(w.sks)][mi]
		}
		ok, err := w.pks[k].Verify(sig, m, w.xof)
		if err != nil || ok != good {
			return fmt.Sprintf("concurrent BLS Verify = (%v,%v), alone it returns %v", ok, err, good)
		}
	case 3:
		good := r.IntN(2) == 0
		p := w.pops[k]
		if !good {
			p = w.pops[(k+1)%len(w.sks)]
		}
		ok, err := crypto.BLSVerifyPOP(w.pks[k], p)
		if err != nil || ok != good {
			return fmt.Sprintf("concurrent BLSVerifyPOP = (%v,%v), alone it returns %v", ok, err, good)
		}
	case 4:
		k2 := (k + 1 + r.IntN(len(w.sks)-1)) % len(w.sks)
		good := r.IntN(2) == 0
		p2 := w.sigs[k2][mi]
		if !good {
			p2 = w.sigs[k2][(mi+1)%len(w.msgs)]
			if bytes.Equal(w.msgs[mi], w.msgs[(mi+1)%len(w.msgs)]) {
				good = true
			}
		}
		ok, err := crypto.SPOCKVerify(w.pks[k], w.sigs[k][mi], w.pks[k2], p2)
		if err != nil || ok != good {
			return fmt.Sprintf("concurrent SPOCKVerify = (%v,%v), alone it returns %v", ok, err, good)
		}
	case 5:
		good := r.IntN(2) == 0
		sig := w.aggSig[mi]
		if !good {
			sig = w.sigs[0][mi]
		}
		ok, err := crypto.VerifyBLSSignatureOneMessage(w.pks, sig, m, w.xof)
		if err != nil || ok != good {
			return fmt.Sprintf("concurrent VerifyBLSSignatureOneMessage = (%v,%v), alone it returns %v", ok, err, good)
		}
	case 6:
		var ms [][]byte
		var hs []hash.Hasher
		for kk := range w.sks {
			ms = append(ms, w.msgs[kk%len(w.msgs)])
			hs = append(hs, w.xof)
		}
		good := r.IntN(2) == 0
		sig := w.manySig
		if !good {
			sig = w.aggSig[0]
		}
		ok, err := crypto.VerifyBLSSignatureManyMessages(w.pks, sig, ms, hs)
		if err != nil || ok != good {
			return fmt.Sprintf("concurrent VerifyBLSSignatureManyMessages = (%v,%v), alone it returns %v", ok, err, good)
		}
	case 7:
		res, err := crypto.BatchVerifyBLSSignaturesOneMessage(w.pks, toSigs(w.batchSigs), w.msgs[0], w.xof)
		if err != nil || fmt.Sprint(res) != fmt.Sprint(w.batchWant) {
			return fmt.Sprintf("concurrent BatchVerify = (%v,%v), alone it returns %v", res, err, w.batchWant)
		}
	case 10:
		if r.IntN(2) == 0 {
			res, err := crypto.BatchVerifyBLSSignaturesOneMessage(w.b2Pks, w.b2Sigs, w.msgs[1], w.xof)
			if err != nil || fmt.Sprint(res) != fmt.Sprint(w.b2Want) {
				return fmt.Sprintf("concurrent BatchVerify (shared lists with an identity key and wrong-length signatures) = (%v,%v), alone it returns %v", res, err, w.b2Want)
			}
		} else {
			// the entries of the shared lists as another goroutine uses them in the meantime
			i := r.IntN(len(w.b2Sigs))
			ok, err := w.b2Pks[i].Verify(w.b2Sigs[i], w.msgs[1], w.xof)
			want := w.b2Want[i]
			if err != nil || ok != want {
				return fmt.Sprintf("Verify of entry %d of the lists shared with concurrent batch verifications = (%v,%v), alone it returns %v", i, ok, err, want)
			}
		}
	case 11:
		// calls that are REJECTED for an input error, in between the others: what an error path leaves
		// behind (a pooled scratch object returned twice, a half-filled buffer) must not reach the
		// results of the calls other goroutines are making
		ecPk := w.ecSks[0].PublicKey()
		switch r.IntN(6) {
		case 0:
			pks := append(append([]crypto.PublicKey{}, w.pks...), ecPk)
			sigs := append(toSigs(w.batchSigs), w.batchSigs[0])
			res, err := crypto.BatchVerifyBLSSignaturesOneMessage(pks, sigs, w.msgs[0], w.xof)
			if !crypto.IsNotBLSKeyError(err) {
				return fmt.Sprintf("BatchVerify with an ECDSA key in the list returned (%v,%v)", res, err)
			}
			for _, v := range res {
				if v {
					return "BatchVerify returned a true entry together with an error"
				}
			}
		case 1:
			pks := append([]crypto.PublicKey{ecPk}, w.pks...)
			if _, err := crypto.BatchVerifyBLSSignaturesOneMessage(pks, append(toSigs(w.batchSigs), w.batchSigs[0]), w.msgs[0], w.xof); !crypto.IsNotBLSKeyError(err) {
				return fmt.Sprintf("BatchVerify with an ECDSA key first returned error %v", err)
			}
		case 2:
			if _, err := crypto.BatchVerifyBLSSignaturesOneMessage(w.pks, toSigs(w.batchSigs)[:2], w.msgs[0], w.xof); !crypto.IsInvalidInputsError(err) {
				return fmt.Sprintf("BatchVerify with mismatched lists returned error %v", err)
			}
		case 3:
			if ok, err := crypto.VerifyBLSSignatureOneMessage(append(append([]crypto.PublicKey{}, w.pks...), ecPk), w.aggSig[mi], m, w.xof); ok || !crypto.IsNotBLSKeyError(err) {
				return fmt.Sprintf("VerifyOneMessage with an ECDSA key returned (%v,%v)", ok, err)
			}
		case 4:
			l := []crypto.Signature{w.sigs[0][mi], w.sigs[1][mi], w.sigs[2][mi][:47]}
			if _, err := crypto.AggregateBLSSignatures(l); err == nil {
				return "AggregateBLSSignatures accepted a short entry"
			}
		default:
			if ok, err := w.pks[k].Verify(w.sigs[k][mi], m, nil); ok || !crypto.IsNilHasherError(err) {
				return fmt.Sprintf("Verify with a nil hasher returned (%v,%v)", ok, err)
			}
		}
	case 8:
		ci := r.IntN(2)
		s, err := w.ecSks[ci].Sign(m, local[ci])
		if err != nil {
			return "concurrent ECDSA Sign error " + err.Error()
		}
		ok, err := w.ecSks[ci].PublicKey().Verify(s, m, local[ci])
		if err != nil || !ok {
			return fmt.Sprintf("signature made by a concurrent ECDSA Sign does not verify (%v,%v)", ok, err)
		}
	case 12:
		const win = 17
		v, kind := r.IntN(len(w.longSig)), r.IntN(2)
		var pks []crypto.PublicKey
		var ms [][]byte
		var hs []hash.Hasher
		for kk := v; kk < v+win; kk++ {
			idx := kk
			if kind == 1 {
				idx = kk % 7
			}
			pks, ms, hs = append(pks, w.longPks[kk]), append(ms, w.longMsgs[idx]), append(hs, w.xof)
		}
		good := r.IntN(3) != 0
		sig := w.longSig[v][kind]
		if !good {
			sig = w.longSig[(v+1)%len(w.longSig)][kind]
		}
		ok, err := crypto.VerifyBLSSignatureManyMessages(pks, sig, ms, hs)
		if err != nil || ok != good {
			return fmt.Sprintf("concurrent VerifyBLSSignatureManyMessages over %d pairs (window %d, grouping %d) = (%v,%v), alone it returns %v", win, v, kind, ok, err, good)
		}
	case 9:
		ci := r.IntN(2)
		good := r.IntN(2) == 0
		sig := w.ecSigs[ci][mi]
		msg := m
		if !good {
			msg = append(append([]byte{}, m...), 1)
		}
		ok, err := w.ecSks[ci].PublicKey().Verify(sig, msg, local[ci])
		if err != nil || ok != good {
			return fmt.Sprintf("concurrent ECDSA Verify = (%v,%v), alone it returns %v", ok, err, good)
		}
	}
	return ""
}

// c19Core: storms of the listed operations over shared objects.
func c19Core(run *mon.Run) {
	calls := run.Pick(6000, 60000)
	reps := run.Pick(1, 3)
	if os.Getenv("VERIF_C19_SCALE") != "" {
		var f float64
		fmt.Sscan(os.Getenv("VERIF_C19_SCALE"), &f)
		calls = int(float64(calls) * f)
	}
	for rep := 0; rep < reps; rep++ {
		for _, G := range []int{2, 8, 32} {
			r0 := run.Rand(fmt.Sprintf("world-%d-%d", rep, G))
			var w *c19World
			var before string
			// building the table already calls ComputeHash/Sign/... sequentially; a hasher corrupted by a
			// read-only operation shows here (e.g. x/crypto panics on Write after Read)
			if run.Guard("sequential-table", map[string]any{"goroutines": G}, func() { w = newC19World(r0); before = w.fingerprint(false) }) {
				return
			}
			// sequential pass on a twin world (same seed, separate objects): every operation agrees with
			// the table when run alone; the storm's own objects stay untouched until the storm
			local := [2]hash.Hasher{hash.NewSHA3_256(), hash.NewSHA2_256()}
			twin := newC19World(run.Rand(fmt.Sprintf("world-%d-%d", rep, G)))
			for op := range c19Ops {
				for j := 0; j < 3; j++ {
					if msg := twin.doOp(run, r0, op, local); msg != "" {
						run.Inconclusive("sequential baseline disagrees with the table (harness or library error outside C19): " + msg)
						return
					}
				}
			}
			var wg sync.WaitGroup
			var failed atomic.Bool
			for g := 0; g < G; g++ {
				wg.Add(1)
				go func(g int) {
					defer wg.Done()
					defer run.Protect("c19 worker")
					r := run.Rand(fmt.Sprintf("storm-%d-%d-%d", rep, G, g))
					local := [2]hash.Hasher{hash.NewSHA3_256(), hash.NewSHA2_256()} // per-goroutine ECDSA hashers
					for i := 0; i < calls/G && !failed.Load(); i++ {
						op := r.IntN(len(c19Ops))
						if G == 2 && g == 0 && i%2 == 0 {
							op = 0 // keep one goroutine hammering the shared KMAC object
						}
						var msg string
						if run.Guard(c19Ops[op], map[string]any{"goroutines": G}, func() { msg = w.doOp(run, r, op, local) }) {
							failed.Store(true)
							return
						}
						run.Eval(1)
						run.Count("calls."+c19Ops[op], 1)
						if msg != "" {
							run.Violate("C19:result-differs:"+c19Ops[op], msg, map[string]any{"goroutines": G, "op": c19Ops[op]})
							failed.Store(true)
							return
						}
					}
				}(g)
			}
			wg.Wait()
			var after string
			if !run.Guard("fingerprint-after-storm", map[string]any{"goroutines": G}, func() { after = w.fingerprint(true) }) && after != before {
				run.Violate("C19:arguments-modified", "an argument buffer, key encoding or shared hasher state changed during the storm", map[string]any{"goroutines": G})
			}
			run.Shape(fmt.Sprintf("storm|G%d|rep%d", G, rep))
			run.Count("storms", 1)
		}
	}
	c19VerifyStorm(run)
	c19FirstUseStorm(run)
	for _, op := range c19Ops {
		run.Shape("op|" + op)
		run.Require(run.Counter("calls."+op) >= int64(min(200, calls/20)) || run.ViolationCount() > 0, "fewer than 200 concurrent calls of "+op)
	}
}

// c19VerifyStorm: a dense storm of the single most common read-only call. 16 goroutines with their own
// keys verify, in lockstep-free loops, signatures over TWO alternating messages through one shared
// expand_message hasher: the right message must give true, the other one false. State that the C layer
// keeps between calls (a memo of the last hash point, a scratch buffer) is invisible to the race
// detector and only shows as a wrong verdict under this kind of traffic.
func c19VerifyStorm(run *mon.Run) {
	iters := run.Pick(1500, 20000)
	if sc := os.Getenv("VERIF_C19_SCALE"); sc != "" {
		var f float64
		fmt.Sscan(sc, &f)
		iters = int(float64(iters) * f)
	}
	const G = 16
	r0 := run.Rand("verify-storm")
	xof := crypto.NewExpandMsgXOFKMAC128("c19-verify-storm")
	msgs := [2][]byte{mon.RandBytes(r0, 40), mon.RandBytes(r0, 41)}
	type kp struct {
		pk   crypto.PublicKey
		sigs [2]crypto.Signature
	}
	keys := make([]kp, G)
	for g := range keys {
		sk := skFromInt(randScalar(r0))
		keys[g].pk = sk.PublicKey()
		for m := range msgs {
			keys[g].sigs[m], _ = sk.Sign(msgs[m], xof)
		}
	}
	var wg sync.WaitGroup
	var wrongReject, wrongAccept, errs atomic.Int64
	for g := 0; g < G; g++ {
		wg.Add(1)
		go func(g int) {
			defer wg.Done()
			defer run.Protect("c19 verify storm")
			for i := 0; i < iters; i++ {
				m := (g + i) & 1
				if i%3 == 2 {
					m = g & 1 // several goroutines stay on one message while others alternate
				}
				ok, err := keys[g].pk.Verify(keys[g].sigs[m], msgs[m], xof)
				if err != nil {
					errs.Add(1)
				} else if !ok {
					wrongReject.Add(1)
				}
				if i%4 == 0 {
					ok, err = keys[g].pk.Verify(keys[g].sigs[m], msgs[1-m], xof)
					if err != nil {
						errs.Add(1)
					} else if ok {
						wrongAccept.Add(1)
					}
				}
			}
			run.Eval(iters + iters/4)
			run.Count("verify-storm.calls", iters+iters/4)
		}(g)
	}
	wg.Wait()
	// second phase: every goroutine verifies the SAME signature slice under the SAME key object (and
	// uses it as both SPoCK proofs): an argument that the C layer touches in place, even if it restores
	// it, gives wrong verdicts or ends up modified
	shared := append([]byte{}, keys[0].sigs[0]...)
	sharedCopy := append([]byte{}, shared...)
	var sharedWrong atomic.Int64
	for g := 0; g < G; g++ {
		wg.Add(1)
		go func(g int) {
			defer wg.Done()
			defer run.Protect("c19 verify storm")
			for i := 0; i < iters/2; i++ {
				var ok bool
				var err error
				if (g+i)%3 == 0 {
					ok, err = crypto.SPOCKVerify(keys[0].pk, shared, keys[0].pk, shared)
				} else {
					ok, err = keys[0].pk.Verify(shared, msgs[0], xof)
				}
				if err != nil || !ok {
					sharedWrong.Add(1)
				}
			}
			run.Eval(iters / 2)
			run.Count("verify-storm.shared-signature-calls", iters/2)
		}(g)
	}
	wg.Wait()
	if sharedWrong.Load() > 0 || !bytes.Equal(shared, sharedCopy) {
		run.Violate("C19:result-differs:shared-signature-storm", fmt.Sprintf("16 goroutines verifying one shared signature slice: %d calls returned false or an error; signature bytes unchanged afterwards: %v", sharedWrong.Load(), bytes.Equal(shared, sharedCopy)), map[string]any{"iterations_per_goroutine": iters / 2})
	}
	if wrongReject.Load() > 0 || wrongAccept.Load() > 0 || errs.Load() > 0 {
		run.Violate("C19:result-differs:verify-storm", fmt.Sprintf("16 goroutines verifying over two alternating messages: %d valid signatures rejected, %d signatures of the other message accepted, %d errors (each call returns the right verdict when run alone)", wrongReject.Load(), wrongAccept.Load(), errs.Load()), map[string]any{"iterations_per_goroutine": iters})
	}
	run.Shape("verify-storm")
}

// c19FirstUseStorm: many rounds, each with a FRESH public key object (decoded from bytes, aggregated, or
// in Jacobian coordinates as RemoveBLSPublicKeys returns it) that no call has touched yet. G goroutines
// leave a spin barrier together and make their first read-only call on that object at the same moment.
// Anything a read-only operation fills in or normalises lazily (an encoding cache, an affine conversion
// inside the C layer) happens exactly once per object, so only a storm of first uses can see it: as a
// data race (race build), as a wrong verdict, or as a key that no longer encodes to the bytes it came from.
func c19FirstUseStorm(run *mon.Run) {
	rounds := run.Pick(500, 8000)
	if sc := os.Getenv("VERIF_C19_SCALE"); sc != "" {
		var f float64
		fmt.Sscan(sc, &f)
		rounds = int(float64(rounds) * f)
	}
	r := run.Rand("first-use")
	xof := crypto.NewExpandMsgXOFKMAC128("c19-first-use")
	msg := mon.RandBytes(r, 33)
	// a pool of source keys with everything the oracle needs, computed sequentially on OTHER objects
	type src struct {
		enc       []byte
		ref       crypto.PublicKey
		sig, pop  crypto.Signature
		other     crypto.Signature
		partner   crypto.PublicKey
		aggSigTwo crypto.Signature
	}
	var pool []src
	for i := 0; i < 12; i++ {
		sk := skFromInt(randScalar(r))
		sk2 := skFromInt(randScalar(r))
		pk := sk.PublicKey()
		sig, _ := sk.Sign(msg, xof)
		sig2, _ := sk2.Sign(msg, xof)
		pop, _ := crypto.BLSGeneratePOP(sk)
		agg, _ := crypto.AggregateBLSSignatures([]crypto.Signature{sig, sig2})
		pool = append(pool, src{enc: pk.Encode(), ref: pk, sig: sig, pop: pop, other: sig2, partner: sk2.PublicKey(), aggSigTwo: agg})
	}
	// fresh hashers and fresh ECDSA keys per round too
	kmacKey, kmacCust := mon.RandBytes(r, 32), []byte("first-use")
	kmacWant := ref.KMAC128(kmacKey, msg, 64, kmacCust)
	type ecSrc struct {
		alg    crypto.SigningAlgorithm
		pkEnc  []byte
		sig    crypto.Signature
		mkHash func() hash.Hasher
	}
	var ecPool []ecSrc
	for i, a := range []crypto.SigningAlgorithm{crypto.ECDSAP256, crypto.ECDSASecp256k1} {
		mk := []func() hash.Hasher{hash.NewSHA3_256, hash.NewSHA2_256}[i]
		for j := 0; j < 3; j++ {
			sk, err := crypto.GeneratePrivateKey(a, mon.RandBytes(r, 32))
			if err != nil {
				continue
			}
			sg, err := sk.Sign(msg, mk())
			if err != nil {
				continue
			}
			ecPool = append(ecPool, ecSrc{a, sk.PublicKey().Encode(), sg, mk})
		}
	}
	kinds := []string{"decoded", "jacobian", "decoded-compressed", "jacobian-of-aggregate"}
	var wrong atomic.Int64
	var firstMsg atomic.Value
	for round := 0; round < rounds && wrong.Load() == 0; round++ {
		s := pool[round%len(pool)]
		kind := kinds[(round/len(pool))%len(kinds)]
		var pk crypto.PublicKey
		var err error
		switch kind {
		case "decoded":
			pk, err = crypto.DecodePublicKey(BLS, append([]byte{}, s.enc...))
		case "decoded-compressed":
			pk, err = crypto.DecodePublicKeyCompressed(BLS, append([]byte{}, s.enc...))
		case "jacobian":
			d, e := crypto.DecodePublicKey(BLS, s.enc)
			if e != nil {
				err = e
				break
			}
			pk = jacobianForm(d, r)
		default:
			// (pk + partner) - partner, built from fresh objects
			d, e := crypto.DecodePublicKey(BLS, s.enc)
			if e != nil {
				err = e
				break
			}
			a, e := crypto.AggregateBLSPublicKeys([]crypto.PublicKey{d, s.partner})
			if e != nil {
				err = e
				break
			}
			pk, err = crypto.RemoveBLSPublicKeys(a, []crypto.PublicKey{s.partner})
		}
		if err != nil {
			run.Inconclusive("first-use storm: cannot build a fresh key: " + err.Error())
			return
		}
		xofR := crypto.NewExpandMsgXOFKMAC128("c19-first-use") // a hasher object nobody has used yet
		kmacR, kerr := hash.NewKMAC_128(kmacKey, kmacCust, 64)
		ec := ecPool[round%len(ecPool)]
		ecPk, eerr := crypto.DecodePublicKey(ec.alg, ec.pkEnc)
		if kerr != nil || eerr != nil {
			run.Inconclusive(fmt.Sprintf("first-use storm: cannot build fresh objects: %v %v", kerr, eerr))
			return
		}
		G := []int{2, 4, 8}[round%3]
		var arrived atomic.Int32
		var wg sync.WaitGroup
		for g := 0; g < G; g++ {
			wg.Add(1)
			go func(g int) {
				defer wg.Done()
				defer run.Protect("c19 first use")
				arrived.Add(1)
				for arrived.Load() < int32(G) {
					// spin: all goroutines leave together
				}
				var ok, want bool
				var err error
				op := (g + round) % 7
				switch op {
				case 0:
					ok, err = pk.Verify(s.sig, msg, xofR)
					want = true
				case 5:
					ok, want = bytes.Equal(kmacR.ComputeHash(msg), kmacWant), true
				case 6:
					ok, err = ecPk.Verify(ec.sig, msg, ec.mkHash())
					want = true
				case 1:
					ok, err = pk.Verify(s.other, msg, xofR)
				case 2:
					ok, err = crypto.BLSVerifyPOP(pk, s.pop)
					want = true
				case 3:
					ok, err = crypto.SPOCKVerify(pk, s.sig, s.partner, s.other)
					want = true
				default:
					ok, err = crypto.VerifyBLSSignatureOneMessage([]crypto.PublicKey{pk, s.partner}, s.aggSigTwo, msg, xof)
					want = true
				}
				if err != nil || ok != want {
					wrong.Add(1)
					firstMsg.CompareAndSwap(nil, fmt.Sprintf("round %d, %s key, %d goroutines making their first call on it together: operation %d returned (%v,%v), alone it returns %v", round, kind, G, op, ok, err, want))
				}
			}(g)
		}
		wg.Wait()
		run.Eval(G)
		run.Count("first-use.calls", G)
		run.Count("first-use.rounds", 1)
		// the key object afterwards: same bytes, same point
		var enc []byte
		if !run.Guard("Encode-after-first-use", map[string]any{"kind": kind}, func() { enc = pk.Encode() }) && (!bytes.Equal(enc, s.enc) || !pk.Equals(s.ref) || !s.ref.Equals(pk)) {
			run.Violate("C19:arguments-modified:key-after-first-use", fmt.Sprintf("a %s public key used for the first time by %d goroutines at once encodes to %x afterwards; it was built from %x", kind, G, enc, s.enc), map[string]any{"kind": kind, "goroutines": G, "round": round})
			return
		}
	}
	if wrong.Load() > 0 {
		m, _ := firstMsg.Load().(string)
		run.Violate("C19:result-differs:first-use-storm", m, map[string]any{"wrong_results": wrong.Load()})
	}
	run.Shape("first-use-storm")
}

// C19: race-freedom of read-only / thread-safe operations.
func C19(run *mon.Run) {
	run.Rule = "goroutine storms (G in {2,8,32}) picking from KMAC128 ComputeHash on one hasher, BLS Sign/Verify/BLSVerifyPOP/SPOCKVerify/aggregate/batch verification sharing keys and one expand_message hasher, ECDSA Sign/Verify sharing keys with per-goroutine hashers; every result compared with a table computed sequentially; all argument buffers, key encodings and hasher states fingerprinted before and after; run in the default build and under the race detector; shape = (goroutine count, repetition) and (operation)"
	run.Assumptions = []string{"PublicKey() and BLSGeneratePOP are called before the concurrent phase (their lazy caching is not in the property's list)", "the race detector does not see memory accesses made by C code; a C-side race would have to show through the result-equality monitor"}
	run.RunChild(os.Getenv("VERIF_BIN"), "c19core", "default", 90*time.Minute)
	if run.Quick() {
		raceChild(run, "c19core", 40*time.Minute)
	} else {
		raceChild(run, "c19core", 180*time.Minute, "VERIF_C19_SCALE=0.25")
	}
	run.Require(run.Counter("default.storms") >= 3, "default build ran fewer than 3 storms")
	run.Require(run.Counter("race.storms") >= 3, "race build ran fewer than 3 storms")
	run.Require(run.Counter("default.first-use.rounds") >= 100 || run.ViolationCount() > 0, "first-use storm ran fewer than 100 rounds in the default build")
	run.Sample(map[string]any{"operations": c19Ops, "goroutine_counts": []int{2, 8, 32}})
}

func init() {
	Registry["C19"] = C19
	ChildRuns["c19core"] = c19Core
}
