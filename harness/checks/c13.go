package checks

import (
	"bytes"
	"encoding/binary"
	"fmt"
	"math"
	"math/rand/v2"
	"os"
	"sync"
	"time"

	"github.com/onflow/crypto/hash"

	"verif/harness/mon"
	"verif/harness/ref"
)

type hashAlg struct {
	name   string
	mk     func() hash.Hasher
	ref    func([]byte) []byte
	rate   int
	sponge bool
	algo   hash.HashingAlgorithm
	size   int
}

var hashAlgs = []hashAlg{
	{"sha2-256", hash.NewSHA2_256, ref.SHA256, 64, false, hash.SHA2_256, 32},
	{"sha2-384", hash.NewSHA2_384, ref.SHA384, 128, false, hash.SHA2_384, 48},
	{"sha3-256", hash.NewSHA3_256, ref.SHA3_256, 136, true, hash.SHA3_256, 32},
	{"sha3-384", hash.NewSHA3_384, ref.SHA3_384, 104, true, hash.SHA3_384, 48},
	{"keccak-256", hash.NewKeccak_256, ref.Keccak256, 136, true, hash.Keccak_256, 32},
}

// alignedCopy returns a copy of b starting at the given offset (0..7) from an 8-aligned base.
func alignedCopy(b []byte, off int) []byte {
	buf := make([]byte, len(b)+16)
	return append(buf[off:off:off+len(b)], b...)
}

func patternBytes(n int, salt int) []byte {
	b := make([]byte, n)
	x := uint32(salt*2654435761 + 12345)
	for i := range b {
		x = x*1664525 + 1013904223
		b[i] = byte(x >> 24)
	}
	return b
}

func c13Mismatch(run *mon.Run, alg, how string, input []byte, got, want []byte, extra map[string]any) {
	rep := map[string]any{"alg": alg, "how": how, "len": len(input), "input": mon.Hex(trunc(input, 600)), "got": mon.Hex(got), "want": mon.Hex(want)}
	for k, v := range extra {
		rep[k] = v
	}
	run.Violate(fmt.Sprintf("C13:%s:%s", alg, how), fmt.Sprintf("%s via %s on %d bytes: got %x, reference %x", alg, how, len(input), got, want), rep)
}

// c13StructuredMessages: messages whose content is structured rather than random - all zero, all ones, one
// non-zero byte or one non-zero 8-byte lane at every position, alternating zero / non-zero lanes, zero
// blocks next to random blocks, small big-endian integers, lanes with a zero half, equal lanes (which
// cancel under xor) - through every way of hashing. Content-dependent shortcuts in the absorbing code
// (skipping zero words, comparing lanes) never trigger on random bytes.
func c13StructuredMessages(run *mon.Run) {
	r := run.Rand("structured-messages")
	for _, a := range hashAlgs {
		type sm struct {
			kind string
			m    []byte
		}
		var msgs []sm
		add := func(kind string, m []byte) { msgs = append(msgs, sm{kind, m}) }
		span := 2*a.rate + 16
		for _, l := range []int{1, 8, 32, 64, a.rate - 8, a.rate - 1, a.rate, a.rate + 1, a.rate + 8, 2 * a.rate, span, 3*a.rate + 5} {
			add("zeros", make([]byte, l))
			add("ones", bytes.Repeat([]byte{0xff}, l))
			m := make([]byte, l)
			for i := range m {
				m[i] = byte(i)
			}
			add("position-bytes", m)
			lane := mon.RandBytes(r, 8)
			add("equal-lanes", bytes.Repeat(lane, l/8+1)[:l])
		}
		for p := 0; p < span; p++ {
			m := make([]byte, span)
			m[p] = []byte{0x01, 0x80, 0xff}[p%3]
			add("one-byte", m)
			if p%5 == 0 {
				add("one-byte-short", m[:p+1]) // the non-zero byte is the last one
			}
		}
		for l := 0; l*8+8 <= span; l++ {
			m := make([]byte, span)
			copy(m[l*8:], mon.RandBytes(r, 8))
			add("one-lane", m)
			m2 := make([]byte, span)
			copy(m2[l*8:], mon.RandBytes(r, 16)) // two neighbouring lanes
			add("two-lanes", m2)
			m3 := mon.RandBytes(r, span)
			copy(m3[l*8:l*8+8], make([]byte, 8))
			add("one-zero-lane", m3)
		}
		for period := 2; period <= 5; period++ {
			for phase := 0; phase < period; phase++ {
				m := mon.RandBytes(r, span)
				for l := 0; l*8+8 <= span; l++ {
					if l%period != phase {
						copy(m[l*8:l*8+8], make([]byte, 8))
					}
				}
				add("periodic-lanes", m)
				inv := mon.RandBytes(r, span)
				for l := 0; l*8+8 <= span; l++ {
					if l%period == phase {
						copy(inv[l*8:l*8+8], make([]byte, 8))
					}
				}
				add("periodic-zero-lanes", inv)
			}
		}
		for _, half := range []int{0, 4} {
			m := mon.RandBytes(r, span)
			for l := 0; l*8+8 <= span; l++ {
				copy(m[l*8+half:l*8+half+4], make([]byte, 4))
			}
			add("half-zero-lanes", m)
		}
		add("zero-block-then-random", append(make([]byte, a.rate), mon.RandBytes(r, a.rate)...))
		add("random-block-then-zero", append(mon.RandBytes(r, a.rate), make([]byte, a.rate)...))
		for _, v := range []uint64{0, 1, 2, 255, 256, 65535, 1 << 32, 1<<64 - 1} {
			for _, l := range []int{8, 16, 32, 64} {
				m := make([]byte, l)
				binary.BigEndian.PutUint64(m[l-8:], v)
				add("small-integer-be", m)
				m = make([]byte, l)
				binary.LittleEndian.PutUint64(m, v)
				add("small-integer-le", m)
			}
		}
		reused := a.mk()
		for i, x := range msgs {
			want := a.ref(x.m)
			run.Eval(3)
			if got := a.mk().ComputeHash(x.m); !bytes.Equal(got, want) {
				c13Mismatch(run, a.name, "structured:"+x.kind+":ComputeHash", x.m, got, want, nil)
			}
			h := a.mk()
			cut := 0
			if len(x.m) > 0 {
				cut = (i * 7) % (len(x.m) + 1)
			}
			_, _ = h.Write(alignedCopy(x.m[:cut], i%8))
			_, _ = h.Write(x.m[cut:])
			if got := h.SumHash(); !bytes.Equal(got, want) {
				c13Mismatch(run, a.name, "structured:"+x.kind+":Write-SumHash", x.m, got, want, map[string]any{"cut": cut})
			}
			if got := reused.ComputeHash(x.m); !bytes.Equal(got, want) {
				c13Mismatch(run, a.name, "structured:"+x.kind+":reused-ComputeHash", x.m, got, want, nil)
			}
			if a.name == "sha3-256" {
				var o hash.Hash
				o = make([]byte, 32)
				hash.ComputeSHA3_256((*[32]byte)(o), x.m)
				if !bytes.Equal(o, want) {
					c13Mismatch(run, a.name, "structured:"+x.kind+":ComputeSHA3_256", x.m, o, want, nil)
				}
			}
			run.Shape("structured|" + a.name + "|" + x.kind)
		}
		run.Count("structured."+a.name, len(msgs))
	}
	// KMAC128: the same kinds of content as key, customizer and message
	for i := 0; i < 60; i++ {
		key, cust, msg := make([]byte, 16+8*(i%20)), make([]byte, (i%7)*8), make([]byte, 168+8*(i%9))
		switch i % 4 {
		case 0: // all zero
		case 1:
			key[(i*5)%len(key)] = 0x80
			msg[(i*11)%len(msg)] = 1
		case 2:
			copy(key[8*(i%2):], mon.RandBytes(r, 8))
			copy(msg[8*(i%21):], mon.RandBytes(r, 8))
			if len(cust) >= 16 {
				copy(cust[8:], mon.RandBytes(r, 8))
			}
		case 3:
			for l := 0; l*8+8 <= len(msg); l += 2 {
				copy(msg[l*8+8*(i%2):], mon.RandBytes(r, 8)[:min(8, len(msg)-l*8-8*(i%2))])
			}
		}
		h, err := hash.NewKMAC_128(key, cust, 32+i)
		if err != nil {
			run.Violate("C13:kmac:constructor-refuses-valid", err.Error(), nil)
			continue
		}
		want := ref.KMAC128(key, msg, 32+i, cust)
		run.Eval(2)
		rep := map[string]any{"key": mon.Hex(key), "customizer": mon.Hex(cust), "msg": mon.Hex(msg), "size": 32 + i}
		if got := h.ComputeHash(msg); !bytes.Equal(got, want) {
			run.Violate("C13:kmac:structured:ComputeHash", fmt.Sprintf("KMAC128 of sparse key / customizer / message (case %d): got %x, SP 800-185 gives %x", i, []byte(got), want), rep)
		}
		_, _ = h.Write(msg[:i])
		_, _ = h.Write(msg[i:])
		if got := h.SumHash(); !bytes.Equal(got, want) {
			run.Violate("C13:kmac:structured:Write-SumHash", fmt.Sprintf("KMAC128 of sparse key / customizer / message (case %d) via Write/SumHash: got %x, SP 800-185 gives %x", i, []byte(got), want), rep)
		}
		run.Shape("structured|kmac")
	}
}

// c13Core is the body run in every build configuration.
func c13Core(run *mon.Run) {
	c13KMACRelated(run)
	c13StructuredMessages(run)
	var wg sync.WaitGroup
	sem := make(chan struct{}, 16)
	for _, a := range hashAlgs {
		a := a
		// (a) every length 0..4*rate: ComputeHash and Write+SumHash, rotating alignments; reused object
		wg.Add(1)
		sem <- struct{}{}
		go func() {
			defer wg.Done()
			defer func() { <-sem }()
			defer run.Protect("c13 worker")
			reused := a.mk()
			if reused.Algorithm() != a.algo || reused.Size() != a.size {
				run.Violate("C13:"+a.name+":metadata", fmt.Sprintf("Algorithm()/Size() = %v/%d", reused.Algorithm(), reused.Size()), nil)
			}
			for l := 0; l <= 4*a.rate; l++ {
				msg := patternBytes(l, l)
				want := a.ref(msg)
				for off := 0; off < 8; off++ {
					if off != l%8 && l%16 != 0 {
						continue
					}
					in := alignedCopy(msg, off)
					if got := reused.ComputeHash(in); !bytes.Equal(got, want) {
						c13Mismatch(run, a.name, "ComputeHash-reused", msg, got, want, map[string]any{"align": off})
					}
					fresh := a.mk()
					_, _ = fresh.Write(in) // never reset: lazily initialised buffer path
					if got := fresh.SumHash(); !bytes.Equal(got, want) {
						c13Mismatch(run, a.name, "fresh-Write-SumHash", msg, got, want, map[string]any{"align": off})
					}
					reused.Reset()
					n, err := reused.Write(in)
					if n != len(in) || err != nil {
						run.Violate("C13:"+a.name+":write-return", fmt.Sprintf("Write returned (%d,%v) for %d bytes", n, err, len(in)), nil)
					}
					if got := reused.SumHash(); !bytes.Equal(got, want) {
						c13Mismatch(run, a.name, "Reset-Write-SumHash", msg, got, want, map[string]any{"align": off})
					}
					run.Eval(3)
				}
				// the input as the front of a larger caller buffer: the digest is unchanged and nothing
				// behind the input is written (a hasher must not append to its argument)
				sp := withSpare(msg)
				got1 := reused.ComputeHash(sp)
				ok1 := spareIntact(sp, msg)
				reused.Reset()
				_, _ = reused.Write(sp)
				got2 := reused.SumHash()
				run.Eval(2)
				if !bytes.Equal(got1, want) || !bytes.Equal(got2, want) || !ok1 || !spareIntact(sp, msg) {
					run.Violate("C13:"+a.name+":input-with-spare-capacity", fmt.Sprintf("len %d: ComputeHash ok=%v Write+SumHash ok=%v, caller memory intact after ComputeHash=%v after Write=%v", l, bytes.Equal(got1, want), bytes.Equal(got2, want), ok1, spareIntact(sp, msg)), map[string]any{"len": l})
				}
				run.SetAdd("lengths."+a.name, fmt.Sprint(l))
				run.Shape(fmt.Sprintf("%s|len%d", a.name, l))
			}
		}()
		// (b) every 2-split for lengths <= 2*rate+2
		for l0 := 0; l0 <= 2*a.rate+2; l0 += 16 {
			l0 := l0
			wg.Add(1)
			sem <- struct{}{}
			go func() {
				defer wg.Done()
				defer func() { <-sem }()
				defer run.Protect("c13 worker")
				h := a.mk()
				for l := l0; l < l0+16 && l <= 2*a.rate+2; l++ {
					msg := patternBytes(l, l+7)
					want := a.ref(msg)
					for cut := 0; cut <= l; cut++ {
						h.Reset()
						_, _ = h.Write(msg[:cut])
						_, _ = h.Write(msg[cut:])
						run.Eval(1)
						if got := h.SumHash(); !bytes.Equal(got, want) {
							c13Mismatch(run, a.name, "2-split", msg, got, want, map[string]any{"cut": cut})
						}
					}
					run.Count("two-split-lengths."+a.name, 1)
				}
			}()
		}
		// (c) random k-splits incl. empty writes, lengths up to 10*rate; (e) histories
		nSplits := run.Pick(1000, 50000) / len(hashAlgs)
		nHist := run.Pick(5000, 200000) / len(hashAlgs)
		for w := 0; w < 4; w++ {
			w := w
			wg.Add(1)
			sem <- struct{}{}
			go func() {
				defer wg.Done()
				defer func() { <-sem }()
				defer run.Protect("c13 worker")
				r := run.Rand(fmt.Sprintf("%s-w%d", a.name, w))
				h := a.mk()
				for i := 0; i < nSplits/4; i++ {
					l := r.IntN(10*a.rate + 1)
					if i%3 == 0 {
						l = max(0, a.rate*(1+r.IntN(4))+r.IntN(5)-2)
					}
					msg := mon.RandBytes(r, l)
					want := a.ref(msg)
					h.Reset()
					var cuts []int
					rest := msg
					for len(rest) > 0 || r.IntN(3) == 0 {
						c := 0
						if len(rest) > 0 {
							switch r.IntN(5) {
							case 0:
								c = 0
							case 1:
								c = min(len(rest), a.rate)
							case 2:
								c = min(len(rest), 1+r.IntN(8))
							default:
								c = r.IntN(len(rest) + 1)
							}
						}
						_, _ = h.Write(rest[:c])
						cuts = append(cuts, c)
						rest = rest[c:]
						if len(cuts) > 60 {
							_, _ = h.Write(rest)
							cuts = append(cuts, len(rest))
							rest = nil
							break
						}
					}
					run.Eval(1)
					if got := h.SumHash(); !bytes.Equal(got, want) {
						c13Mismatch(run, a.name, "k-split", msg, got, want, map[string]any{"cuts": cuts})
					}
					run.Shape(fmt.Sprintf("%s|ksplit|%d", a.name, min(len(cuts), 12)))
				}
				c13Histories(run, r, a, nHist/4)
			}()
		}
	}
	// one-shot helpers
	wg.Add(1)
	sem <- struct{}{}
	go func() {
		defer wg.Done()
		defer func() { <-sem }()
		defer run.Protect("c13 worker")
		for l := 0; l <= 4*136; l++ {
			msg := patternBytes(l, l+3)
			var o3 [32]byte
			hash.ComputeSHA3_256(&o3, alignedCopy(msg, l%8))
			var o2 [32]byte
			hash.ComputeSHA2_256(&o2, msg)
			run.Eval(2)
			if !bytes.Equal(o3[:], ref.SHA3_256(msg)) {
				c13Mismatch(run, "sha3-256", "ComputeSHA3_256", msg, o3[:], ref.SHA3_256(msg), nil)
			}
			if !bytes.Equal(o2[:], ref.SHA256(msg)) {
				c13Mismatch(run, "sha2-256", "ComputeSHA2_256", msg, o2[:], ref.SHA256(msg), nil)
			}
			if !bytes.Equal(o3[:], hash.NewSHA3_256().ComputeHash(msg)) || !bytes.Equal(o2[:], hash.NewSHA2_256().ComputeHash(msg)) {
				run.Violate("C13:one-shot-vs-object", "one-shot helper differs from the hasher object", map[string]any{"len": l})
			}
		}
		run.Shape("one-shot")
	}()
	wg.Wait()
	c13KMAC(run)
	// the Equal helper of the Hash type is byte equality (also for different lengths, nil and empty)
	{
		r := run.Rand("hash-type")
		vals := []hash.Hash{nil, {}, {0}, {0, 0}, hash.NewSHA3_256().ComputeHash([]byte("a")), hash.NewSHA3_256().ComputeHash([]byte("a")), hash.NewSHA3_384().ComputeHash([]byte("a")), hash.NewSHA2_256().ComputeHash(nil)}
		d := hash.NewSHA3_256().ComputeHash([]byte("b"))
		for i := 0; i < 32; i += 5 {
			f := append(hash.Hash{}, d...)
			f[i] ^= 1 << uint(r.IntN(8))
			vals = append(vals, f)
		}
		vals = append(vals, d, d[:31], append(append(hash.Hash{}, d...), 0))
		for _, a := range vals {
			for _, b := range vals {
				run.Eval(1)
				if got, want := a.Equal(b), bytes.Equal(a, b); got != want {
					run.Violate("C13:hash-type:equal", fmt.Sprintf("Hash(%x).Equal(%x) = %v, byte equality is %v", []byte(a), []byte(b), got, want), nil)
				}
			}
		}
		run.Shape("hash-type-helpers")
	}
	// constructors, one-shot helpers and fresh hasher objects as pure functions under parallel use
	{
		r := run.Rand("parallel")
		var table []func() []byte
		for i := 0; i < 10; i++ {
			msg := mon.RandBytes(r, []int{0, 1, 103, 104, 105, 135, 136, 137, 300, 1000}[i])
			table = append(table,
				func() []byte { var o [32]byte; hash.ComputeSHA3_256(&o, msg); return o[:] },
				func() []byte { var o [32]byte; hash.ComputeSHA2_256(&o, msg); return o[:] },
				func() []byte { return hash.NewSHA3_384().ComputeHash(msg) },
				func() []byte { return hash.NewSHA2_384().ComputeHash(msg) },
				func() []byte { return hash.NewKeccak_256().ComputeHash(msg) },
				func() []byte {
					h := hash.NewSHA3_256()
					_, _ = h.Write(msg[:len(msg)/2])
					_, _ = h.Write(msg[len(msg)/2:])
					return h.SumHash()
				},
			)
			key, cust := mon.RandBytes(r, 16+i*17), mon.RandBytes(r, i)
			size := []int{32, 128, 1, 200}[i%4]
			table = append(table, func() []byte {
				h, err := hash.NewKMAC_128(key, cust, size)
				if err != nil {
					return []byte("error:" + err.Error())
				}
				return h.ComputeHash(msg)
			})
		}
		calls, diff := parallelReplay(table, run.Pick(3000, 50000), uint64(run.Seed))
		run.Eval(int(calls))
		run.Count("parallel-replay.calls", int(calls))
		if diff != "" {
			run.Violate("C13:parallel-use-differs", "hasher constructors and one-shot helpers from 16 goroutines at once (separate objects): "+diff, nil)
		}
		run.Shape("parallel-replay")
	}
	for _, a := range hashAlgs {
		run.Require(run.SetLen("lengths."+a.name) == 4*a.rate+1, "not every length 0..4*rate hashed for "+a.name)
		run.Require(run.Counter("two-split-lengths."+a.name) == int64(2*a.rate+3), "2-split table incomplete for "+a.name)
	}
}

// c13Histories runs random operation histories on one object against the sequential model
// "bytes written since the last reset".
func c13Histories(run *mon.Run, r *rand.Rand, a hashAlg, n int) {
	for i := 0; i < n; i++ {
		h := a.mk()
		var stream []byte // model state
		// "clean": Write/SumHash allowed. After SumHash on a sponge, or after any ComputeHash,
		// the generator must Reset first (the property does not define those continuations).
		clean := true
		var trace []string
		steps := 3 + r.IntN(14)
		for s := 0; s < steps; s++ {
			op := r.IntN(10)
			switch {
			case op < 2: // ComputeHash is independent of anything written before
				msg := mon.RandBytes(r, []int{0, 1, a.rate - 1, a.rate, a.rate + 1, r.IntN(3 * a.rate)}[r.IntN(6)])
				trace = append(trace, fmt.Sprintf("ComputeHash(%d)", len(msg)))
				got := h.ComputeHash(msg)
				run.Eval(1)
				if want := a.ref(msg); !bytes.Equal(got, want) {
					c13Mismatch(run, a.name, "history-ComputeHash", msg, got, want, map[string]any{"trace": trace})
					return
				}
				clean = false
			case op < 4:
				trace = append(trace, "Reset")
				h.Reset()
				stream = stream[:0]
				clean = true
			case op < 8:
				if !clean {
					trace = append(trace, "Reset")
					h.Reset()
					stream = stream[:0]
					clean = true
				}
				msg := mon.RandBytes(r, []int{0, 1, 7, 8, a.rate - 1, a.rate, a.rate + 1, 2 * a.rate, r.IntN(2*a.rate + 1)}[r.IntN(9)])
				trace = append(trace, fmt.Sprintf("Write(%d)", len(msg)))
				_, _ = h.Write(msg)
				stream = append(stream, msg...)
				for i := range msg {
					msg[i] = 0xEE // the caller reuses the buffer it has just written from
				}
			default:
				if !clean {
					trace = append(trace, "Reset")
					h.Reset()
					stream = stream[:0]
					clean = true
				}
				trace = append(trace, "SumHash")
				got := h.SumHash()
				run.Eval(1)
				if want := a.ref(stream); !bytes.Equal(got, want) {
					c13Mismatch(run, a.name, "history-SumHash", stream, got, want, map[string]any{"trace": trace})
					return
				}
				if a.sponge {
					clean = false // sponge: no write after SumHash without Reset
				} else if r.IntN(2) == 0 {
					// SHA-2: SumHash twice gives the same digest; writing afterwards continues the stream
					if got2 := h.SumHash(); !bytes.Equal(got2, got) {
						c13Mismatch(run, a.name, "history-SumHash-twice", stream, got2, got, map[string]any{"trace": trace})
						return
					}
				}
			}
		}
		run.Count("histories."+a.name, 1)
		run.SetAdd("history-shapes", fmt.Sprintf("%s|%d|%v", a.name, len(trace), clean))
		if i == 0 {
			run.Sample(map[string]any{"alg": a.name, "history": trace})
		}
	}
	run.Shape(a.name + "|histories")
}

func kmacRef(key, cust []byte, size int) func([]byte) []byte {
	return func(m []byte) []byte { return ref.KMAC128(key, m, size, cust) }
}

// c13KMACRelated runs FIRST in the process (before any other KMAC instance exists, so that a bounded
// table of constructor results still has room).
func c13KMACRelated(run *mon.Run) {
	// families of RELATED instances alive in one process: the same bytes split differently between key
	// and customizer, equal key and customizer with different output sizes, keys/customizers that are
	// prefixes of each other, and more instances than any bounded table would hold. Every instance must
	// equal SP 800-185 for its own parameters when it is created, and still do so after all the others
	// have been created and used.
	{
		r := run.Rand("kmac-related")
		type inst struct {
			h         hash.Hasher
			key, cust []byte
			size      int
			family    string
		}
		var all []inst
		mk := func(family string, key, cust []byte, size int) {
			h, err := hash.NewKMAC_128(key, cust, size)
			if err != nil {
				run.Violate("C13:kmac:constructor-refuses-valid", fmt.Sprintf("%s: key %d bytes, customizer %d bytes, size %d refused: %v", family, len(key), len(cust), size, err), nil)
				return
			}
			all = append(all, inst{h, append([]byte{}, key...), append([]byte{}, cust...), size, family})
		}
		judge := func(in inst, when string) bool {
			msg := mon.RandBytes(r, []int{0, 5, 168, 200}[r.IntN(4)])
			want := ref.KMAC128(in.key, msg, in.size, in.cust)
			run.Eval(2)
			got := in.h.ComputeHash(msg)
			in.h.Reset()
			_, _ = in.h.Write(msg)
			got2 := in.h.SumHash()
			in.h.Reset()
			if !bytes.Equal(got, want) || !bytes.Equal(got2, want) {
				run.Violate("C13:kmac:related-instances:"+in.family, fmt.Sprintf("KMAC128 instance (key %d bytes, customizer %d bytes, output %d) %s: ComputeHash %x, Write+SumHash %x, SP 800-185 gives %x", len(in.key), len(in.cust), in.size, when, trunc(got, 24), trunc(got2, 24), trunc(want, 24)),
					map[string]any{"family": in.family, "key": mon.Hex(in.key), "customizer": mon.Hex(in.cust), "size": in.size, "msg": mon.Hex(msg), "when": when})
				return false
			}
			return true
		}
		for rep := 0; rep < run.Pick(3, 40); rep++ {
			all = all[:0]
			S := mon.RandBytes(r, 40+r.IntN(24))
			if rep%2 == 1 {
				S = bytes.Repeat([]byte{byte(rep)}, 48) // all splits look alike
			}
			for i := 16; i <= len(S); i++ {
				mk("same-concatenation", S[:i], S[i:], []int{32, 128}[i%2])
			}
			K := mon.RandBytes(r, 16+r.IntN(20))
			C := mon.RandBytes(r, r.IntN(12))
			for _, sz := range []int{0, 1, 32, 33, 128, 129, 32, 128, 256} {
				mk("same-key-and-customizer", K, C, sz)
			}
			mk("prefix", append(append([]byte{}, K...), 0), C, 32)
			mk("prefix", K, append([]byte{0}, C...), 32)
			mk("prefix", K, append(append([]byte{}, C...), 0), 32)
			mk("prefix", append([]byte{0}, K...), C, 32)
			mk("prefix", K, nil, 32)
			mk("prefix", K, []byte{}, 32)
			mk("prefix", K, K, 32)
			mk("prefix", K, []byte("KMAC"), 32)
			// the same concatenation with customizer lengths that agree modulo 256 (a length kept on one byte),
			// and keys / customizers that agree in length, CRC-32 and byte sum (a checksum instead of the bytes)
			if rep < 2 {
				L := mon.RandBytes(r, 258+32)
				mk("same-concatenation-length-mod-256", L[258:], L[:258], 32)
				mk("same-concatenation-length-mod-256", L[2:], L[:2], 32)
				mk("same-concatenation-length-mod-256", L[256:], L[:256], 32)
				mk("same-concatenation-length-mod-256", L, nil, 32)
			}
			K2 := mon.RandBytes(r, 24)
			mk("checksum-colliding", K2, C, 32)
			mk("checksum-colliding", crc32Twin(K2, 3), C, 32)
			C2 := mon.RandBytes(r, 12)
			mk("checksum-colliding", K2, C2, 32)
			mk("checksum-colliding", K2, crc32Twin(C2, 2), 32)
			for i := 0; i < run.Pick(300, 1200); i++ {
				c := []byte(fmt.Sprintf("c%d", i))
				if i%2 == 0 {
					mk("many-customizers", K, c, 32)
				} else {
					mk("many-keys", append(append([]byte{}, K...), c...), C, 32)
				}
			}
			// key and customizer handed over in ONE pair of buffers that the caller refills between
			// constructions (same lengths, different contents, then other lengths)
			{
				kb, cb := make([]byte, 64), make([]byte, 16)
				for i := 0; i < 12; i++ {
					kl, cl := 32, 8
					if i >= 6 {
						kl, cl = 16+i, i
					}
					copy(kb, mon.RandBytes(r, 64))
					copy(cb, mon.RandBytes(r, 16))
					if i%3 == 2 {
						copy(kb, all[len(all)-1].key) // same key as the previous instance, other customizer
					}
					mk("reused-argument-buffers", kb[:kl], cb[:cl], []int{32, 128}[i%2])
				}
				for i := range kb {
					kb[i] = 0xEE
				}
				for i := range cb {
					cb[i] = 0xEE
				}
			}
			ok := true
			for i := 0; i < len(all) && ok; i++ {
				ok = judge(all[i], "when judged after all related instances were created")
			}
			// once more in reverse order (the first pass may have warmed or evicted something)
			for i := len(all) - 1; i >= 0 && ok; i-- {
				if i%3 == 0 {
					ok = judge(all[i], "on the second pass")
				}
			}
			// and again right after creating a sibling with the same concatenation
			for i := 16; i < 24 && ok; i++ {
				h, err := hash.NewKMAC_128(S[:i], S[i:], 32)
				if err == nil {
					ok = judge(inst{h, S[:i], S[i:], 32, "same-concatenation"}, "created after its siblings")
				}
			}
			run.Count("kmac.related-instances", len(all))
		}
		run.Shape("kmac|related-instances")
	}
}

// c13KMACEncodingBoundaries: key, customizer and output lengths at which the byte length of an SP 800-185
// left_encode / right_encode of the bit length changes (2^8, 2^16, 2^24 bits: 32, 8192 and 2097152 bytes).
func c13KMACEncodingBoundaries(run *mon.Run) {
	r := run.Rand("kmac-encoding-boundaries")
	var lens []int
	for _, b := range []int{32, 8192, 2097152} {
		lens = append(lens, b-1, b, b+1)
	}
	type par struct{ kl, cl, size int }
	var ps []par
	for _, l := range lens {
		ps = append(ps, par{16 + r.IntN(20), r.IntN(8), l}, par{l, r.IntN(8), 32}, par{16 + r.IntN(20), l, 64})
	}
	ps = append(ps, par{8192, 8192, 8192}, par{8193, 8191, 8192})
	for _, p := range ps {
		if p.kl < 16 {
			p.kl = 16
		}
		key, cust := mon.RandBytes(r, p.kl), mon.RandBytes(r, p.cl)
		h, err := hash.NewKMAC_128(key, cust, p.size)
		if err != nil {
			run.Violate("C13:kmac:constructor-refuses-valid", fmt.Sprintf("key %d / customizer %d / size %d refused: %v", p.kl, p.cl, p.size, err), nil)
			continue
		}
		for _, ml := range []int{0, 5, 168} {
			msg := mon.RandBytes(r, ml)
			want := ref.KMAC128(key, msg, p.size, cust)
			run.Eval(2)
			rep := map[string]any{"key_len": p.kl, "customizer_len": p.cl, "size": p.size, "msg": mon.Hex(msg), "key_head": mon.Hex(key[:16]), "customizer_head": mon.Hex(cust[:min(16, len(cust))])}
			if got := h.ComputeHash(msg); !bytes.Equal(got, want) {
				run.Violate("C13:kmac:ComputeHash", fmt.Sprintf("KMAC128 key length %d, customizer length %d, output %d, message length %d: result differs from SP 800-185 (first bytes %x, expected %x)", p.kl, p.cl, p.size, ml, []byte(got)[:min(16, len(got))], want[:min(16, len(want))]), rep)
				break
			}
			h.Reset()
			_, _ = h.Write(msg)
			if got := h.SumHash(); !bytes.Equal(got, want) {
				run.Violate("C13:kmac:Write-SumHash", fmt.Sprintf("KMAC128 key length %d, customizer length %d, output %d via Write/SumHash differs from SP 800-185", p.kl, p.cl, p.size), rep)
				break
			}
			h.Reset()
		}
		run.Count("kmac.encoding-boundaries", 1)
		run.Shape(fmt.Sprintf("kmac|boundary|k%d|c%d|o%d", p.kl, p.cl, p.size))
	}
}

func c13KMAC(run *mon.Run) {
	c13KMACEncodingBoundaries(run)
	var wg sync.WaitGroup
	sem := make(chan struct{}, 16)
	// every key length 16..400 (so that any bytepad boundary is included without naming it)
	for kl := 16; kl <= 400; kl++ {
		kl := kl
		wg.Add(1)
		sem <- struct{}{}
		go func() {
			defer wg.Done()
			defer func() { <-sem }()
			defer run.Protect("c13 worker")
			r := run.Rand(fmt.Sprintf("kmac-key-%d", kl))
			key := mon.RandBytes(r, kl)
			cust := mon.RandBytes(r, []int{0, 3, r.IntN(40)}[kl%3])
			size := []int{128, 32, 1 + r.IntN(300)}[kl%3]
			// key and customizer are handed over as fronts of larger buffers and overwritten afterwards:
			// the object must neither write behind them nor keep referring to them
			keyArg, custArg := withSpare(key), withSpare(cust)
			h, err := hash.NewKMAC_128(keyArg, custArg, size)
			if err != nil {
				run.Violate("C13:kmac:constructor-refuses-valid", fmt.Sprintf("key length %d refused: %v", kl, err), nil)
				return
			}
			if !spareIntact(keyArg, key) || !spareIntact(custArg, cust) {
				run.Violate("C13:kmac:constructor-touches-caller-memory", fmt.Sprintf("key length %d, customizer length %d: the constructor wrote to its arguments' buffers", kl, len(cust)), nil)
			}
			for i := range keyArg {
				keyArg[i] ^= 0xff
			}
			for i := range custArg {
				custArg[i] ^= 0xff
			}
			if h.Size() != size || h.Algorithm() != hash.KMAC128 {
				run.Violate("C13:kmac:metadata", "Size()/Algorithm() wrong", nil)
			}
			rf := kmacRef(key, cust, size)
			for _, ml := range []int{0, 1, 167, 168, 169, r.IntN(700)} {
				msg := mon.RandBytes(r, ml)
				want := rf(msg)
				run.Eval(2)
				if got := h.ComputeHash(msg); !bytes.Equal(got, want) {
					run.Violate("C13:kmac:ComputeHash", fmt.Sprintf("KMAC128 key length %d, customizer length %d, output %d, message length %d: got %x, SP 800-185 gives %x", kl, len(cust), size, ml, []byte(got), want),
						map[string]any{"key": mon.Hex(key), "customizer": mon.Hex(cust), "size": size, "msg": mon.Hex(msg), "key_len": kl})
					break
				}
				if sp := withSpare(msg); !bytes.Equal(h.ComputeHash(sp), want) || !spareIntact(sp, msg) {
					run.Violate("C13:kmac:input-with-spare-capacity", fmt.Sprintf("KMAC128 ComputeHash of a %d-byte message slice with spare capacity: digest ok=%v, caller memory intact=%v", ml, bytes.Equal(h.ComputeHash(msg), want), spareIntact(sp, msg)), map[string]any{"key_len": kl, "size": size, "msg_len": ml})
					break
				}
				h.Reset()
				cut := 0
				if ml > 0 {
					cut = r.IntN(ml + 1)
				}
				_, _ = h.Write(msg[:cut])
				_, _ = h.Write(msg[cut:])
				if got := h.SumHash(); !bytes.Equal(got, want) {
					run.Violate("C13:kmac:Write-SumHash", fmt.Sprintf("KMAC128 key length %d via Write/SumHash: got %x, reference %x", kl, []byte(got), want),
						map[string]any{"key": mon.Hex(key), "customizer": mon.Hex(cust), "size": size, "msg": mon.Hex(msg), "cut": cut})
					break
				}
			}
			run.SetAdd("kmac-key-lengths", fmt.Sprint(kl))
			run.Shape(fmt.Sprintf("kmac|key%d", kl))
		}()
	}
	// customizer lengths 0..200 and output sizes 0..1000
	for cl := 0; cl <= 200; cl++ {
		cl := cl
		wg.Add(1)
		sem <- struct{}{}
		go func() {
			defer wg.Done()
			defer func() { <-sem }()
			defer run.Protect("c13 worker")
			r := run.Rand(fmt.Sprintf("kmac-cust-%d", cl))
			key := mon.RandBytes(r, 16+r.IntN(50))
			cust := mon.RandBytes(r, cl)
			for _, size := range []int{cl * 5, cl*5 + 1, cl*5 + 2, cl*5 + 3, cl*5 + 4} {
				if size > 1000 {
					continue
				}
				h, err := hash.NewKMAC_128(key, cust, size)
				if err != nil {
					run.Violate("C13:kmac:constructor-refuses-valid", fmt.Sprintf("customizer %d / size %d refused: %v", cl, size, err), nil)
					continue
				}
				msg := mon.RandBytes(r, r.IntN(400))
				want := ref.KMAC128(key, msg, size, cust)
				run.Eval(1)
				if got := h.ComputeHash(msg); !bytes.Equal(got, want) || len(got) != size {
					run.Violate("C13:kmac:ComputeHash", fmt.Sprintf("KMAC128 customizer length %d, output %d: got %x, reference %x", cl, size, []byte(got), want),
						map[string]any{"key": mon.Hex(key), "customizer": mon.Hex(cust), "size": size, "msg": mon.Hex(msg), "key_len": len(key)})
				}
				run.SetAdd("kmac-sizes", fmt.Sprint(size))
			}
			run.Shape(fmt.Sprintf("kmac|cust%d", cl))
		}()
	}
	wg.Wait()
	// histories on one KMAC object: Write after SumHash continues the stream; ComputeHash is
	// independent; (what ComputeHash leaves behind is C19's business: always Reset after it here)
	r := run.Rand("kmac-hist")
	for i := 0; i < run.Pick(600, 20000); i++ {
		key := mon.RandBytes(r, 16+r.IntN(200))
		cust := mon.RandBytes(r, r.IntN(20))
		size := []int{0, 1, 32, 128, 168, 169, 500}[r.IntN(7)]
		h, err := hash.NewKMAC_128(key, cust, size)
		if err != nil {
			run.Violate("C13:kmac:constructor-refuses-valid", err.Error(), nil)
			continue
		}
		var stream []byte
		clean := true
		var trace []string
		run.Guard("kmac-history", map[string]any{"key": mon.Hex(key), "size": size}, func() {
			for s := 0; s < 3+r.IntN(10); s++ {
				switch op := r.IntN(10); {
				case op < 2:
					msg := mon.RandBytes(r, []int{0, 0, 1, 167, 168, 169, r.IntN(400), r.IntN(400)}[r.IntN(8)])
					if len(msg) == 0 && r.IntN(2) == 0 {
						msg = nil // the empty input as nil and as a zero-length slice
					}
					trace = append(trace, fmt.Sprintf("ComputeHash(%d)", len(msg)))
					run.Eval(1)
					if got, want := h.ComputeHash(msg), ref.KMAC128(key, msg, size, cust); !bytes.Equal(got, want) {
						run.Violate("C13:kmac:history-ComputeHash", fmt.Sprintf("got %x want %x", []byte(got), want), map[string]any{"trace": trace, "key": mon.Hex(key), "customizer": mon.Hex(cust), "size": size})
					}
					// KMAC's ComputeHash is documented not to update the underlying state: the stream
					// written so far continues unchanged (no Reset needed)
				case op < 4:
					trace = append(trace, "Reset")
					h.Reset()
					stream, clean = stream[:0], true
				case op < 8:
					if !clean {
						h.Reset()
						stream, clean = stream[:0], true
						trace = append(trace, "Reset")
					}
					msg := mon.RandBytes(r, []int{0, 1, 167, 168, 169, r.IntN(400)}[r.IntN(6)])
					trace = append(trace, fmt.Sprintf("Write(%d)", len(msg)))
					_, _ = h.Write(msg)
					stream = append(stream, msg...)
					for i := range msg {
						msg[i] = 0xEE // the caller reuses the buffer it has just written from
					}
				default:
					if !clean {
						h.Reset()
						stream, clean = stream[:0], true
						trace = append(trace, "Reset")
					}
					trace = append(trace, "SumHash")
					run.Eval(1)
					if got, want := h.SumHash(), ref.KMAC128(key, stream, size, cust); !bytes.Equal(got, want) {
						run.Violate("C13:kmac:history-SumHash", fmt.Sprintf("got %x want %x", []byte(got), want), map[string]any{"trace": trace, "key": mon.Hex(key), "customizer": mon.Hex(cust), "size": size, "stream_len": len(stream)})
					}
				}
			}
		})
		run.Count("histories.kmac", 1)
	}
	run.Shape("kmac|histories")
	// refused parameters
	for kl := 0; kl < 16; kl++ {
		_, err := hash.NewKMAC_128(make([]byte, kl), nil, 32)
		run.Eval(1)
		if err == nil {
			run.Violate("C13:kmac:short-key-accepted", fmt.Sprintf("key of %d bytes accepted", kl), nil)
		}
	}
	_, err := hash.NewKMAC_128(nil, nil, 32)
	if err == nil {
		run.Violate("C13:kmac:short-key-accepted", "nil key accepted", nil)
	}
	// every negative power of two and its neighbours (a bit-length computed as size*8 wraps for large magnitudes)
	negs := []int{-1, -2, -3, -1000, math.MinInt, math.MinInt + 1, math.MinInt + 2}
	for k := 2; k < 63; k++ {
		negs = append(negs, -1<<k, -1<<k+1, -1<<k-1)
		if k < 61 {
			negs = append(negs, -3<<k, -5<<k, -7<<(k-1))
		}
	}
	for _, sz := range negs {
		if sz >= 0 {
			continue
		}
		var err error
		if run.Guard("NewKMAC_128(negative size)", sz, func() { _, err = hash.NewKMAC_128(make([]byte, 16), nil, sz) }) {
			continue
		}
		run.Eval(1)
		if err == nil {
			run.Violate("C13:kmac:negative-size-accepted", fmt.Sprintf("size %d accepted", sz), nil)
		}
	}
	run.Shape("kmac|refusals")
	run.Require(run.SetLen("kmac-key-lengths") == 385, "not every KMAC key length 16..400 exercised")
}

// C13: hashers and KMAC128 — default build in-process, purego (and, thorough, -race) in children.
func C13(run *mon.Run) {
	run.Rule = "per algorithm: every length 0..4*rate (ComputeHash, fresh Write+SumHash, Reset+Write+SumHash, rotating alignments), every 2-split of every length <= 2*rate+2, random k-splits to 10*rate, random operation histories against the model 'bytes written since reset'; KMAC128: every key length 16..400, customizer lengths 0..200, output sizes 0..1000; shape = (algorithm, length / split count / key length); repeated in the purego build"
	run.Assumptions = []string{"from-spec Keccak-f[1600], sponge, SHA-2, cSHAKE/KMAC references self-tested on NIST vectors and against the standard library", "histories never Write/SumHash after a sponge SumHash or after ComputeHash without Reset (those continuations are not defined by the property)"}
	run.Builds = append(run.Builds, "default")
	c13Core(run)
	run.RunChild(os.Getenv("VERIF_BIN_PUREGO"), "c13core", "purego", 20*time.Minute)
	if !run.Quick() {
		run.RunChild(os.Getenv("VERIF_BIN_RACE"), "c13core", "race-checkptr", 60*time.Minute)
	}
	run.Require(run.Counter("purego.histories.sha3-256") > 0, "purego build observed nothing")
}

func init() {
	Registry["C13"] = C13
	ChildRuns["c13core"] = c13Core
}
