//go:build cgo && !no_cgo

package checks

import (
	"bytes"
	"fmt"
	"math/big"
	"strings"
	"sync"

	"github.com/onflow/crypto"
	"github.com/onflow/crypto/hash"

	"verif/harness/mon"
	"verif/harness/ref"
)

type spockCase struct {
	kind   string
	p1, p2 []byte
}

// C17: SPoCK.
func C17(run *mon.Run) {
	run.Rule = "key-pair kinds {equal, distinct, negated, identity-left, identity-right} x proof kinds; shape = (pair kind, proof kind); expected verdict = both proofs canonical G1 and no identity key and [k2]P1 == [k1]P2 by reference arithmetic"
	run.Assumptions = []string{"same trusted base as C01; discrete logs of all keys known to the harness"}
	r := run.Rand("main")
	nPairs := run.Pick(54, 900)
	h := crypto.NewExpandMsgXOFKMAC128("spock-tag")
	h2 := crypto.NewExpandMsgXOFKMAC128("spock-other-tag")
	idPk := crypto.IdentityBLSPublicKey()
	inf := ref.EncodeG1(ref.E1.Infinity())
	var wg sync.WaitGroup
	sem := make(chan struct{}, 16)
	for pi := 0; pi < nPairs; pi++ {
		if pi > 0 && pi <= soloWorkers {
			wg.Wait() // the first workers run alone (see soloWorkers)
		}
		wg.Add(1)
		sem <- struct{}{}
		go func(pi int) {
			defer wg.Done()
			defer func() { <-sem }()
			defer run.Protect("c17 worker")
			r := run.Rand(fmt.Sprintf("pair-%d", pi))
			k1 := randScalar(r)
			var k2 *big.Int
			pairKind := [...]string{"distinct", "equal", "negated", "identity-left", "identity-right", "distinct", "identity-both", "jacobian-left", "jacobian-right", "jacobian-both",
				// the same relations with the key OBJECTS in other representations: one key object passed twice,
				// an equal key in Jacobian form on one or both sides, a key re-decoded from its bytes
				"equal/same-object", "equal/jacobian-left", "equal/jacobian-right", "equal/jacobian-both", "equal/decoded-right", "negated/jacobian-left", "negated/jacobian-both", "distinct/decoded-left"}[pi%18]
			relation, repr, _ := strings.Cut(pairKind, "/")
			switch relation {
			case "equal":
				k2 = new(big.Int).Set(k1)
			case "negated":
				k2 = ref.Fr.Neg(k1)
			default:
				k2 = randScalar(r)
			}
			sk1v, sk2v := skFromInt(k1), skFromInt(k2)
			pk1, pk2 := sk1v.PublicKey(), sk2v.PublicKey()
			kk1, kk2 := k1, k2
			// (the identity key comes from a different producer each time: constant, decoded, aggregated,
			// removed, public key of a zero private key)
			idList := identityKeys(r)
			idA, idB := idList[pi%len(idList)].pk, idList[(pi/3+1)%len(idList)].pk
			switch relation {
			case "identity-left":
				pk1, kk1 = idA, big.NewInt(0)
			case "identity-right":
				pk2, kk2 = idB, big.NewInt(0)
			case "identity-both":
				pk1, kk1, pk2, kk2 = idPk, big.NewInt(0), idPk, big.NewInt(0)
				if pi%36 >= 18 {
					pk2, _ = crypto.RemoveBLSPublicKeys(sk2v.PublicKey(), []crypto.PublicKey{sk2v.PublicKey()})
				}
			case "jacobian-left":
				pk1 = jacobianForm(pk1, r)
			case "jacobian-right":
				pk2 = jacobianForm(pk2, r)
			case "jacobian-both":
				pk1, pk2 = jacobianForm(pk1, r), jacobianForm(pk2, r)
			}
			switch repr {
			case "same-object":
				pk2 = pk1
			case "jacobian-left":
				pk1 = jacobianForm(pk1, r)
			case "jacobian-right":
				pk2 = jacobianForm(pk2, r)
			case "jacobian-both":
				pk1, pk2 = jacobianForm(pk1, r), jacobianForm(pk2, r)
			case "decoded-right":
				if d, err := crypto.DecodePublicKey(BLS, pk2.Encode()); err == nil {
					pk2 = d
				}
			case "decoded-left":
				if d, err := crypto.DecodePublicKey(BLS, pk1.Encode()); err == nil {
					pk1 = d
				}
			}
			data := mon.RandBytes(r, 1+r.IntN(200))
			data2 := append(append([]byte{}, data...), 1)
			H, err := hashPoint(data, h, "kmac:spock-tag")
			if err != nil {
				run.Violate("C17:hash-point", err.Error(), nil)
				return
			}
			// SPOCKProve == Sign
			pr1, e1 := crypto.SPOCKProve(sk1v, data, h)
			pr2, e2 := crypto.SPOCKProve(sk2v, data, h)
			s1, _ := sk1v.Sign(data, h)
			run.Eval(3)
			if e1 != nil || e2 != nil || string(pr1) != string(s1) || string(pr1) != string(ref.EncodeG1(ref.E1.Mul(H, k1))) {
				run.Violate("C17:prove-mismatch", fmt.Sprintf("SPOCKProve differs from Sign/reference (%v,%v)", e1, e2), map[string]any{"k1": k1.String()})
			}
			// SPOCKVerifyAgainstData == Verify
			for _, cnd := range [][]byte{pr1, pr2, inf, pr1[:47]} {
				a, ea := crypto.SPOCKVerifyAgainstData(sk1v.PublicKey(), cnd, data, h)
				b, eb := sk1v.PublicKey().Verify(cnd, data, h)
				run.Eval(2)
				if a != b || (ea == nil) != (eb == nil) {
					run.Violate("C17:against-data-mismatch", fmt.Sprintf("SPOCKVerifyAgainstData (%v,%v) vs Verify (%v,%v)", a, ea, b, eb), map[string]any{"proof": mon.Hex(cnd)})
				}
			}
			P1 := ref.E1.Mul(H, k1)
			P2 := ref.E1.Mul(H, k2)
			c := randScalar(r)
			otherData1, _ := sk1v.Sign(data2, h)
			otherTag1, _ := sk1v.Sign(data, h2)
			T := tor3()
			cases := []spockCase{
				{"honest", ref.EncodeG1(P1), ref.EncodeG1(P2)},
				{"other-data-left", otherData1, ref.EncodeG1(P2)},
				{"other-tag-left", otherTag1, ref.EncodeG1(P2)},
				{"both-scaled", ref.EncodeG1(ref.E1.Mul(P1, c)), ref.EncodeG1(ref.E1.Mul(P2, c))},
				{"left-scaled", ref.EncodeG1(ref.E1.Mul(P1, c)), ref.EncodeG1(P2)},
				{"right-scaled", ref.EncodeG1(P1), ref.EncodeG1(ref.E1.Mul(P2, c))},
				{"left-plus-T3", ref.EncodeG1(ref.E1.Add(P1, T)), ref.EncodeG1(P2)},
				{"right-plus-T3", ref.EncodeG1(P1), ref.EncodeG1(ref.E1.Add(P2, T))},
				{"both-plus-T3", ref.EncodeG1(ref.E1.Add(P1, T)), ref.EncodeG1(ref.E1.Add(P2, T))},
				{"both-identity", inf, inf},
				{"left-identity", inf, ref.EncodeG1(P2)},
				{"right-identity", ref.EncodeG1(P1), inf},
				{"swapped-proofs", ref.EncodeG1(P2), ref.EncodeG1(P1)},
				{"left-neg", ref.EncodeG1(ref.E1.Neg(P1)), ref.EncodeG1(P2)},
				{"both-neg", ref.EncodeG1(ref.E1.Neg(P1)), ref.EncodeG1(ref.E1.Neg(P2))},
			}
			// proofs outside G1 whose small-order components cancel each other (any joint test of the two
			// proofs, e.g. of their sum or difference, is blind to them), and the small-order points alone
			T11 := tor11()
			negT := ref.E1.Neg(T)
			cases = append(cases,
				spockCase{"plus-T3-minus-T3", ref.EncodeG1(ref.E1.Add(P1, T)), ref.EncodeG1(ref.E1.Add(P2, negT))},
				spockCase{"minus-T3-plus-T3", ref.EncodeG1(ref.E1.Add(P1, negT)), ref.EncodeG1(ref.E1.Add(P2, T))},
				spockCase{"T3-and-minus-T3", ref.EncodeG1(T), ref.EncodeG1(negT)},
				spockCase{"T3-and-T3", ref.EncodeG1(T), ref.EncodeG1(T)},
				spockCase{"plus-T11-minus-T11", ref.EncodeG1(ref.E1.Add(P1, T11)), ref.EncodeG1(ref.E1.Sub(P2, T11))},
				spockCase{"plus-T11-plus-T11", ref.EncodeG1(ref.E1.Add(P1, T11)), ref.EncodeG1(ref.E1.Add(P2, T11))},
				spockCase{"T11-and-minus-T11", ref.EncodeG1(T11), ref.EncodeG1(ref.E1.Neg(T11))},
				spockCase{"left-T3-right-identity", ref.EncodeG1(T), inf},
			)
			// both proofs "identity", one or both of them in a non-canonical encoding (infinity flag with a
			// non-zero byte at each position, extra flag bits)
			for pos := 1; pos < 48; pos++ {
				g := make([]byte, 48)
				g[0] = 0xC0
				g[pos] = byte(1 + r.IntN(255))
				if pos == 47 || pos%8 == pi%8 {
					cases = append(cases, spockCase{"noncanonical-identity-and-identity", g, inf}, spockCase{"identity-and-noncanonical-identity", inf, g}, spockCase{"both-noncanonical-identity", g, g})
				}
			}
			// ... and with several non-zero bytes that cancel under a sum or xor over the encoding
			for gi, gb := range cancellingGarbage(r, 48) {
				g := make([]byte, 48)
				g[0] = 0xC0
				for i, v := range gb {
					g[i] |= v
				}
				cases = append(cases, spockCase{"noncanonical-identity-and-identity", g, inf})
				if (gi+pi)%2 == 0 {
					cases = append(cases, spockCase{"identity-and-noncanonical-identity", inf, g}, spockCase{"both-noncanonical-identity", g, g})
				}
			}
			for _, hdr := range []byte{0xE0, 0x40, 0xC1, 0xD0, 0x80, 0xA0, 0x00} {
				g := make([]byte, 48)
				g[0] = hdr
				cases = append(cases, spockCase{"header-only-and-identity", g, inf}, spockCase{"identity-and-header-only", inf, g})
			}
			// malformed / lengths / bit flips on one side
			base1, base2 := ref.EncodeG1(P1), ref.EncodeG1(P2)
			for _, l := range []int{0, 1, 47, 49, 96, 100} {
				b := make([]byte, l)
				copy(b, base1)
				cases = append(cases, spockCase{"left-length", b, base2}, spockCase{"right-length", base1, b})
			}
			cases = append(cases, spockCase{"left-nil", nil, base2}, spockCase{"right-nil", base1, nil})
			// two wrong lengths that compensate each other: the concatenation of the two arguments is the
			// concatenation of an honest pair, cut somewhere else than at byte 48
			{
				cat := append(append([]byte{}, base1...), base2...)
				for _, cut := range []int{0, 1, 17, 24, 47, 49, 72, 80, 95, 96} {
					cases = append(cases, spockCase{"compensating-lengths", cat[:cut:cut], cat[cut:]})
				}
				cases = append(cases, spockCase{"compensating-lengths", nil, cat}, spockCase{"compensating-lengths", cat, nil})
			}
			nflip := 24
			if pi < run.Pick(2, 10) {
				nflip = 384
			}
			for j := 0; j < nflip; j++ {
				bit := j
				if nflip != 384 {
					bit = r.IntN(384)
					if j < 4 {
						bit = j
					}
				}
				b := append([]byte{}, base1...)
				b[bit/8] ^= 0x80 >> (bit % 8)
				if j%2 == 0 {
					cases = append(cases, spockCase{"left-bitflip", b, base2})
				} else {
					b2 := append([]byte{}, base2...)
					b2[bit/8] ^= 0x80 >> (bit % 8)
					cases = append(cases, spockCase{"right-bitflip", base1, b2})
				}
			}
			for j := 0; j < 6; j++ {
				g := make([]byte, 48)
				g[0] = 0xC0
				g[1+r.IntN(47)] = byte(1 + r.IntN(255))
				cases = append(cases, spockCase{"left-infinity-garbage", g, base2})
				cases = append(cases, spockCase{"random", mon.RandBytes(r, 48), mon.RandBytes(r, 48)})
			}
			spockExpect := func(p1, p2 []byte) bool {
				if len(p1) == 48 && len(p2) == 48 {
					q1, c1 := ref.DecodeG1(p1)
					q2, c2 := ref.DecodeG1(p2)
					if c1 == ref.DecOK && c2 == ref.DecOK && ref.InG1(q1) && ref.InG1(q2) && kk1.Sign() != 0 && kk2.Sign() != 0 {
						return ref.E1.Equal(ref.E1.Mul(q1, kk2), ref.E1.Mul(q2, kk1))
					}
				}
				return false
			}
			// first of all (before these key objects have verified anything): the left proofs of the case
			// list through one reused buffer against the honest right proof, then the right proofs likewise
			{
				var left, right []byteCand
				for ci, cs := range cases {
					if ci < 12 || ci%(4+pi%5) == 0 && len(left) < run.Pick(28, 60) {
						left = append(left, byteCand{cs.p1, cs.kind})
						right = append(right, byteCand{cs.p2, cs.kind})
					}
				}
				rp := func(side string) func(kind, what string, b []byte) {
					return func(kind, what string, b []byte) {
						run.Violate("C17:reused-buffer:"+side+":"+kind, fmt.Sprintf("SPOCKVerify (pair %s), %s proof of kind %s, %s", pairKind, side, kind, what), map[string]any{"pair": pairKind, "kind": kind, "k1": kk1.String(), "k2": kk2.String(), "proof": mon.Hex(b), "side": side})
					}
				}
				n := reusedBufferPass(base1, left, func(b []byte) (bool, error) { return crypto.SPOCKVerify(pk1, b, pk2, base2) }, func(b []byte) bool { return spockExpect(b, base2) }, rp("left"))
				n += reusedBufferPass(base2, right, func(b []byte) (bool, error) { return crypto.SPOCKVerify(pk1, base1, pk2, b) }, func(b []byte) bool { return spockExpect(base1, b) }, rp("right"))
				run.Eval(n)
			}
			for _, cs := range cases {
				expect := spockExpect(cs.p1, cs.p2)
				for swap := 0; swap < 2; swap++ {
					a1, b1, a2, b2 := pk1, cs.p1, pk2, cs.p2
					if swap == 1 {
						a1, b1, a2, b2 = pk2, cs.p2, pk1, cs.p1
					}
					var ok bool
					var err error
					rep := map[string]any{"pair": pairKind, "kind": cs.kind, "k1": kk1.String(), "k2": kk2.String(), "p1": mon.Hex(cs.p1), "p2": mon.Hex(cs.p2), "swapped": swap == 1}
					if run.Guard("SPOCKVerify", rep, func() { ok, err = crypto.SPOCKVerify(a1, b1, a2, b2) }) {
						continue
					}
					run.Eval(1)
					run.Count("case."+cs.kind, 1)
					if ok {
						run.Count("true."+cs.kind, 1)
					}
					if err != nil {
						run.Violate("C17:error:"+cs.kind, fmt.Sprintf("SPOCKVerify returned error %v", err), rep)
					} else if ok != expect {
						run.Violate(fmt.Sprintf("C17:verdict:%s:%s:expected-%v", pairKind, cs.kind, expect), fmt.Sprintf("SPOCKVerify = %v, reference predicate = %v (pair %s, proofs %s, swapped=%v)", ok, expect, pairKind, cs.kind, swap == 1), rep)
					}
				}
				run.Shape(pairKind + "|" + cs.kind)
			}
			if pi < 2 {
				run.Sample(map[string]any{"pair": pairKind, "cases": len(cases), "k1": k1.String()})
			}
		}(pi)
	}
	wg.Wait()
	// non-BLS keys
	for _, alg := range []crypto.SigningAlgorithm{crypto.ECDSAP256, crypto.ECDSASecp256k1} {
		sk, err := crypto.GeneratePrivateKey(alg, mon.RandBytes(r, 32))
		if err != nil {
			continue
		}
		bpk := skFromInt(big.NewInt(5)).PublicKey()
		_, e1 := crypto.SPOCKProve(sk, []byte("d"), h)
		v2, e2 := crypto.SPOCKVerifyAgainstData(sk.PublicKey(), make([]byte, 48), []byte("d"), h)
		v3, e3 := crypto.SPOCKVerify(sk.PublicKey(), make([]byte, 48), bpk, make([]byte, 48))
		v4, e4 := crypto.SPOCKVerify(bpk, make([]byte, 48), sk.PublicKey(), make([]byte, 48))
		run.Eval(4)
		if v2 || v3 || v4 {
			run.Violate("C17:non-bls-key:true-with-error", fmt.Sprintf("a verdict of true is returned together with the refusal of an ECDSA key: %v %v %v", v2, v3, v4), nil)
		}
		for i, e := range []error{e1, e2, e3, e4} {
			if !crypto.IsNotBLSKeyError(e) {
				run.Violate(fmt.Sprintf("C17:non-bls-key:%d", i), fmt.Sprintf("ECDSA key not refused with notBLSKey: %v", e), nil)
			}
		}
		run.Shape("non-bls|" + alg.String())
	}
	// the full cross product key type x proof length x hasher: the refusal (and its class) does not
	// depend on the other arguments being well formed, and with a BLS key SPOCKVerifyAgainstData and
	// SPOCKProve return exactly what Verify and Sign return (same boolean, same error class)
	{
		bsk := skFromInt(randScalar(r))
		e1, _ := crypto.GeneratePrivateKey(crypto.ECDSAP256, mon.RandBytes(r, 32))
		e2, _ := crypto.GeneratePrivateKey(crypto.ECDSASecp256k1, mon.RandBytes(r, 32))
		data := []byte("cross-product")
		good, _ := bsk.Sign(data, h)
		proofs := map[string][]byte{"nil": nil, "empty": {}, "47": good[:47], "48-valid": good, "48-zero": make([]byte, 48), "49": append(append([]byte{}, good...), 0), "64": make([]byte, 64), "96": make([]byte, 96)}
		hashers := map[string]hash.Hasher{"good": h, "nil": nil, "size-32": hash.NewSHA3_256(), "size-127": constHasher("c127", 1, 127), "size-129": constHasher("c129", 1, 129)}
		cls := func(e error) string {
			switch {
			case e == nil:
				return "nil"
			case crypto.IsNotBLSKeyError(e):
				return "not-bls-key"
			case crypto.IsNilHasherError(e):
				return "nil-hasher"
			case crypto.IsInvalidHasherSizeError(e):
				return "hasher-size"
			case crypto.IsInvalidInputsError(e):
				return "invalid-inputs"
			}
			return "other:" + e.Error()
		}
		for hn, hh := range hashers {
			for _, sk := range []crypto.PrivateKey{bsk, e1, e2} {
				isBLS := sk.Algorithm() == BLS
				rep := map[string]any{"key": sk.Algorithm().String(), "hasher": hn}
				var pe, se error
				var pr, sg crypto.Signature
				if run.Guard("SPOCKProve", rep, func() { pr, pe = crypto.SPOCKProve(sk, data, hh) }) {
					continue
				}
				run.Eval(1)
				if !isBLS {
					if !crypto.IsNotBLSKeyError(pe) {
						run.Violate("C17:non-bls-key:prove:"+hn, fmt.Sprintf("SPOCKProve with an ECDSA key and hasher %s: error %v", hn, pe), rep)
					}
				} else {
					sg, se = sk.Sign(data, hh)
					if cls(pe) != cls(se) || !bytes.Equal(pr, sg) {
						run.Violate("C17:prove-mismatch:"+hn, fmt.Sprintf("SPOCKProve (%x, %v) vs Sign (%x, %v) with hasher %s", pr, pe, sg, se, hn), rep)
					}
				}
				for pn, proof := range proofs {
					rep := map[string]any{"key": sk.Algorithm().String(), "hasher": hn, "proof": pn}
					var a bool
					var ea error
					if run.Guard("SPOCKVerifyAgainstData", rep, func() { a, ea = crypto.SPOCKVerifyAgainstData(sk.PublicKey(), proof, data, hh) }) {
						continue
					}
					run.Eval(1)
					if !isBLS {
						if a || !crypto.IsNotBLSKeyError(ea) {
							run.Violate("C17:non-bls-key:against-data:"+pn+":"+hn, fmt.Sprintf("SPOCKVerifyAgainstData with an ECDSA key, proof %s, hasher %s: (%v,%v), expected the not-a-BLS-key error", pn, hn, a, ea), rep)
						}
					} else {
						b, eb := sk.PublicKey().Verify(proof, data, hh)
						if a != b || cls(ea) != cls(eb) {
							run.Violate("C17:against-data-mismatch:"+pn+":"+hn, fmt.Sprintf("SPOCKVerifyAgainstData (%v,%v) vs Verify (%v,%v) for proof %s, hasher %s", a, ea, b, eb, pn, hn), rep)
						}
					}
					run.Shape(fmt.Sprintf("cross|%s|%s|%s", sk.Algorithm(), pn, hn))
				}
			}
		}
		// ... and whatever the OTHER key is: an identity BLS key (from every producer) in the other position
		for _, ik := range identityKeys(r) {
			for _, esk := range []crypto.PrivateKey{e1, e2} {
				va, ea := crypto.SPOCKVerify(ik.pk, good, esk.PublicKey(), good)
				vb, eb := crypto.SPOCKVerify(esk.PublicKey(), good, ik.pk, good)
				run.Eval(2)
				if va || vb || !crypto.IsNotBLSKeyError(ea) || !crypto.IsNotBLSKeyError(eb) {
					run.Violate("C17:non-bls-key:verify:with-identity-key", fmt.Sprintf("SPOCKVerify with an ECDSA key and the identity key %s in the other position: errors %v / %v", ik.name, ea, eb), nil)
				}
			}
		}
		// SPOCKVerify: a non-BLS key in either position is refused whatever the proofs look like
		for pn, proof := range proofs {
			for _, esk := range []crypto.PrivateKey{e1, e2} {
				va, ea := crypto.SPOCKVerify(esk.PublicKey(), proof, bsk.PublicKey(), good)
				vb, eb := crypto.SPOCKVerify(bsk.PublicKey(), good, esk.PublicKey(), proof)
				vc, ec := crypto.SPOCKVerify(esk.PublicKey(), proof, esk.PublicKey(), proof)
				run.Eval(3)
				if va || vb || vc || !crypto.IsNotBLSKeyError(ea) || !crypto.IsNotBLSKeyError(eb) || !crypto.IsNotBLSKeyError(ec) {
					run.Violate("C17:non-bls-key:verify:"+pn, fmt.Sprintf("SPOCKVerify with an ECDSA key and proof %s: (%v,%v) / (%v,%v) / (%v,%v), expected false with the not-a-BLS-key error", pn, va, ea, vb, eb, vc, ec), nil)
				}
			}
		}
	}
	run.Require(run.Counter("true.honest") > 0 && run.Counter("true.both-scaled") > 0 && run.Counter("true.both-identity") > 0, "accepting classes not observed")
}
