//go:build cgo && !no_cgo

package checks

import (
	"bytes"
	"fmt"
	"math/big"
	"math/rand/v2"
	"strings"
	"sync"

	"github.com/onflow/crypto"
	"github.com/onflow/crypto/hash"

	"verif/harness/mon"
	"verif/harness/ref"
)

func permute[T any](r *rand.Rand, xs []T) []T {
	out := append([]T{}, xs...)
	r.Shuffle(len(out), func(i, j int) { out[i], out[j] = out[j], out[i] })
	return out
}

// allPerms enumerates all permutations of 0..n-1 (n <= 5).
func allPerms(n int) [][]int {
	var res [][]int
	var rec func(cur []int, used int)
	rec = func(cur []int, used int) {
		if len(cur) == n {
			res = append(res, append([]int{}, cur...))
			return
		}
		for i := 0; i < n; i++ {
			if used&(1<<i) == 0 {
				rec(append(cur, i), used|1<<i)
			}
		}
	}
	rec(nil, 0)
	return res
}

// nestAggregatePks aggregates keys through a random binary nesting.
func nestAggregatePks(r *rand.Rand, pks []crypto.PublicKey) (crypto.PublicKey, error) {
	if len(pks) == 1 {
		return pks[0], nil
	}
	if len(pks) == 2 || r.IntN(4) == 0 {
		return crypto.AggregateBLSPublicKeys(pks)
	}
	cut := 1 + r.IntN(len(pks)-1)
	a, err := nestAggregatePks(r, pks[:cut])
	if err != nil {
		return nil, err
	}
	b, err := nestAggregatePks(r, pks[cut:])
	if err != nil {
		return nil, err
	}
	return crypto.AggregateBLSPublicKeys([]crypto.PublicKey{a, b})
}

func nestAggregateSigs(r *rand.Rand, sigs []crypto.Signature) (crypto.Signature, error) {
	if len(sigs) == 1 {
		return crypto.AggregateBLSSignatures(sigs)
	}
	if len(sigs) == 2 || r.IntN(4) == 0 {
		return crypto.AggregateBLSSignatures(sigs)
	}
	cut := 1 + r.IntN(len(sigs)-1)
	a, err := nestAggregateSigs(r, sigs[:cut])
	if err != nil {
		return nil, err
	}
	b, err := nestAggregateSigs(r, sigs[cut:])
	if err != nil {
		return nil, err
	}
	return crypto.AggregateBLSSignatures([]crypto.Signature{a, b})
}

func nestAggregateSks(r *rand.Rand, sks []crypto.PrivateKey) (crypto.PrivateKey, error) {
	if len(sks) <= 2 || r.IntN(4) == 0 {
		return crypto.AggregateBLSPrivateKeys(sks)
	}
	cut := 1 + r.IntN(len(sks)-1)
	a, err := nestAggregateSks(r, sks[:cut])
	if err != nil {
		return nil, err
	}
	b, err := nestAggregateSks(r, sks[cut:])
	if err != nil {
		return nil, err
	}
	return crypto.AggregateBLSPrivateKeys([]crypto.PrivateKey{a, b})
}

// C04: aggregation homomorphisms.
func C04(run *mon.Run) {
	run.Rule = "multisets of scalars with a composition kind {random, duplicates, inverses, zero-sum, with-identity-key, single}; shape = (kind, N bucket, operation); every library aggregate compared byte for byte with reference sums in F_r, G1, G2"
	run.Assumptions = []string{"reference G1/G2 arithmetic; G2 encodings compared under the measured coefficient order (only C05 judges that order)"}
	cv := measuredConv()
	r := run.Rand("main")
	nSets := run.Pick(300, 5000)
	maxN := run.Pick(8, 40)
	idPk := crypto.IdentityBLSPublicKey()
	infSig := ref.EncodeG1(ref.E1.Infinity())
	kinds := []string{"random", "duplicates", "inverses", "zero-sum", "with-identity-key", "single", "random"}
	var wg sync.WaitGroup
	sem := make(chan struct{}, 16)
	for si := 0; si < nSets; si++ {
		wg.Add(1)
		sem <- struct{}{}
		go func(si int) {
			defer wg.Done()
			defer func() { <-sem }()
			defer run.Protect("c04 worker")
			r := run.Rand(fmt.Sprintf("set-%d", si))
			kind := kinds[si%len(kinds)]
			n := 1 + r.IntN(maxN)
			if si < 40 {
				n = 1 + si%4
			}
			var ks []*big.Int
			switch kind {
			case "single":
				ks = []*big.Int{randScalar(r)}
			case "duplicates":
				base := randScalar(r)
				for i := 0; i < n; i++ {
					if i%2 == 0 {
						ks = append(ks, base)
					} else {
						ks = append(ks, randScalar(r))
					}
				}
			case "inverses":
				for i := 0; i < (n+1)/2; i++ {
					k := randScalar(r)
					ks = append(ks, k, ref.Fr.Neg(k))
				}
				ks = append(ks, randScalar(r))
			case "zero-sum":
				sum := new(big.Int)
				for i := 0; i < n; i++ {
					k := randScalar(r)
					ks = append(ks, k)
					sum = ref.Fr.Add(sum, k)
				}
				if sum.Sign() != 0 {
					ks = append(ks, ref.Fr.Neg(sum))
				}
			default:
				for i := 0; i < n; i++ {
					ks = append(ks, randScalar(r))
				}
			}
			ks = permute(r, ks)
			sks := make([]crypto.PrivateKey, len(ks))
			pks := make([]crypto.PublicKey, len(ks))
			sum := new(big.Int)
			for i, k := range ks {
				sks[i] = skFromInt(k)
				pks[i] = sks[i].PublicKey()
				if i%3 == 1 { // the same point in a differently-built object
					if d, err := crypto.DecodePublicKey(BLS, pks[i].Encode()); err == nil {
						pks[i] = d
					}
				} else if i%3 == 2 && si%2 == 0 && k.Sign() != 0 {
					// ... and in Jacobian form with Z != 1 (what RemoveBLSPublicKeys hands out)
					pks[i] = jacobianForm(pks[i], r)
				}
				sum = ref.Fr.Add(sum, k)
			}
			rep := map[string]any{"kind": kind, "scalars": scalarStrings(ks), "rejected_calls_first": si%2 == 1}
			// on odd sets every aggregation call is preceded, on this goroutine, by calls of the same function
			// that are REJECTED (a bad entry behind good ones, a foreign key, an empty list): what a rejected
			// call leaves behind (scratch buffers, pooled objects) must not leak into the next result
			poison := func(what string) {
				if si%2 == 0 {
					return
				}
				run.Count("rejected-call-first."+what, 1)
				switch what {
				case "sigs":
					good := ref.EncodeG1(ref.E1.Mul(ref.G1Gen, randScalar(r)))
					good2 := ref.EncodeG1(ref.E1.Mul(ref.G1Gen, randScalar(r)))
					for _, l := range [][]crypto.Signature{{good, good2, good[:47]}, {good, append(append([]byte{}, good2...), 0)}, {good, good2, crypto.BLSInvalidSignature()}, {}, {good, nil, good2}} {
						if _, e := crypto.AggregateBLSSignatures(l); e == nil {
							run.Violate("C04:error-class:rejected-list-accepted", "AggregateBLSSignatures accepted a list with a malformed entry", rep)
						}
					}
				case "pks":
					ec, _ := crypto.GeneratePrivateKey(crypto.ECDSAP256, bytes.Repeat([]byte{7}, 32))
					q := skFromInt(randScalar(r)).PublicKey()
					_, _ = crypto.AggregateBLSPublicKeys([]crypto.PublicKey{q, q, ec.PublicKey()})
					_, _ = crypto.AggregateBLSPublicKeys(nil)
					_, _ = crypto.RemoveBLSPublicKeys(q, []crypto.PublicKey{q, ec.PublicKey()})
				case "sks":
					ec, _ := crypto.GeneratePrivateKey(crypto.ECDSASecp256k1, bytes.Repeat([]byte{7}, 32))
					_, _ = crypto.AggregateBLSPrivateKeys([]crypto.PrivateKey{skFromInt(randScalar(r)), ec})
					_, _ = crypto.AggregateBLSPrivateKeys(nil)
				}
			}
			nb := "N<=4"
			if len(ks) > 4 {
				nb = "N>4"
			}
			// --- private keys
			var aggSk crypto.PrivateKey
			var err error
			poison("sks")
			if run.Guard("AggregateBLSPrivateKeys", rep, func() { aggSk, err = nestAggregateSks(r, sks) }) {
				return
			}
			run.Eval(1)
			if err != nil || !bytes.Equal(aggSk.Encode(), ref.ScalarBytes(sum)) {
				run.Violate("C04:private-sum:"+kind, fmt.Sprintf("AggregateBLSPrivateKeys = %x (err %v), reference sum = %x", encOrNil(aggSk), err, ref.ScalarBytes(sum)), rep)
				return
			}
			// --- public keys
			wantPk := ref.EncodeG2(ref.E2.Mul(ref.G2Gen, sum), cv)
			var aggPk crypto.PublicKey
			poison("pks")
			if run.Guard("AggregateBLSPublicKeys", rep, func() { aggPk, err = nestAggregatePks(r, pks) }) {
				return
			}
			run.Eval(1)
			if err != nil || !bytes.Equal(aggPk.Encode(), wantPk) {
				run.Violate("C04:public-sum:"+kind, fmt.Sprintf("AggregateBLSPublicKeys = %x (err %v), reference [sum]g2 = %x", pkEncOrNil(aggPk), err, wantPk), rep)
				return
			}
			skPk := aggSk.PublicKey()
			if !bytes.Equal(skPk.Encode(), wantPk) || !skPk.Equals(aggPk) || !aggPk.Equals(skPk) {
				run.Violate("C04:sk-pk-consistency:"+kind, "public key of the aggregated private key differs from the aggregated public keys", rep)
			}
			run.Eval(1)
			// the same with FRESH private key objects of which only a subset ever had PublicKey() called:
			// whatever is cached lazily in the inputs must not change the aggregated key's public key
			{
				var masks []int
				if len(ks) <= 4 {
					for m := 0; m < 1<<len(ks); m++ {
						masks = append(masks, m)
					}
				} else {
					all := 1<<len(ks) - 1
					masks = []int{0, all, 1 << (len(ks) - 1), all &^ 1, 1, all &^ (1 << (len(ks) - 1)), r.IntN(all + 1), r.IntN(all + 1)}
				}
				for _, m := range masks {
					fresh := make([]crypto.PrivateKey, len(ks))
					for i, k := range ks {
						if k.Sign() == 0 {
							fresh[i] = sks[i] // the zero key cannot be decoded: reuse the object
							continue
						}
						fresh[i] = skFromInt(k)
						if m>>i&1 == 1 {
							_ = fresh[i].PublicKey()
						}
					}
					var a crypto.PrivateKey
					var e error
					if m%2 == 0 {
						a, e = crypto.AggregateBLSPrivateKeys(fresh)
					} else {
						a, e = nestAggregateSks(r, fresh)
					}
					run.Eval(1)
					if e != nil || !bytes.Equal(a.PublicKey().Encode(), wantPk) || !a.PublicKey().Equals(aggPk) {
						run.Violate("C04:sk-pk-consistency:cached-subset", fmt.Sprintf("public key of the aggregated private key differs from the aggregated public keys when PublicKey() had been called on the inputs selected by mask %b only (err %v)", m, e), rep)
						break
					}
					if sum.Sign() == 0 {
						// keys summing to zero: the public key IS the identity key, whichever way it was computed
						if ok, _ := a.PublicKey().Verify(infSig, []byte("zero"), crypto.NewExpandMsgXOFKMAC128("c04-zero")); ok {
							run.Violate("C04:identity-result-not-treated-as-identity:aggregated-private-key", fmt.Sprintf("the public key of private keys summing to zero (PublicKey() called beforehand on the inputs selected by mask %b) accepts the identity signature", m), rep)
							break
						}
					}
				}
				run.Shape("cached-subset|" + nb)
			}
			// order independence (all permutations for small N, random otherwise)
			var perms [][]int
			if len(ks) <= 4 {
				perms = allPerms(len(ks))
			} else {
				for i := 0; i < 3; i++ {
					perms = append(perms, r.Perm(len(ks)))
				}
			}
			for _, pm := range perms {
				pp := make([]crypto.PublicKey, len(pm))
				ss := make([]crypto.PrivateKey, len(pm))
				for i, j := range pm {
					pp[i], ss[i] = pks[j], sks[j]
				}
				a, e1 := crypto.AggregateBLSPublicKeys(pp)
				b, e2 := crypto.AggregateBLSPrivateKeys(ss)
				run.Eval(2)
				if e1 != nil || e2 != nil || !bytes.Equal(a.Encode(), wantPk) || !bytes.Equal(b.Encode(), ref.ScalarBytes(sum)) {
					run.Violate("C04:order-dependence:"+kind, "aggregation result depends on input order", rep)
				}
			}
			// with the identity key as an input
			if kind == "with-identity-key" {
				pos := r.IntN(len(pks) + 1)
				withID := append(append(append([]crypto.PublicKey{}, pks[:pos]...), idPk), pks[pos:]...)
				a, e := crypto.AggregateBLSPublicKeys(withID)
				run.Eval(1)
				if e != nil || !bytes.Equal(a.Encode(), wantPk) {
					run.Violate("C04:identity-input", "aggregating with the identity key changed the sum", rep)
				}
			}
			// zero-sum: identity key and identity signature
			if sum.Sign() == 0 {
				run.Count("zero-sum", 1)
				infPk := make([]byte, 96)
				infPk[0] = 0xC0
				if !bytes.Equal(aggPk.Encode(), infPk) || !aggPk.Equals(idPk) || !idPk.Equals(aggPk) {
					run.Violate("C04:zero-sum-not-identity", "keys summing to zero do not aggregate to the identity key", rep)
				}
			}
			// --- signatures
			msg := mon.RandBytes(r, r.IntN(64))
			tag := fmt.Sprintf("c04-%d", si%5)
			h := crypto.NewExpandMsgXOFKMAC128(tag)
			H, err := hashPoint(msg, h, "kmac:"+tag)
			if err != nil {
				run.Violate("C04:hash-point", err.Error(), nil)
				return
			}
			sigs := make([]crypto.Signature, len(sks))
			for i := range sks {
				sigs[i], _ = sks[i].Sign(msg, h)
			}
			wantSig := ref.EncodeG1(ref.E1.Mul(H, sum))
			var aggSig crypto.Signature
			poison("sigs")
			if run.Guard("AggregateBLSSignatures", rep, func() { aggSig, err = nestAggregateSigs(r, permute(r, sigs)) }) {
				return
			}
			run.Eval(1)
			if err != nil || !bytes.Equal(aggSig, wantSig) {
				run.Violate("C04:signature-sum:"+kind, fmt.Sprintf("AggregateBLSSignatures = %x (err %v), reference [sum]H = %x", []byte(aggSig), err, wantSig), rep)
				return
			}
			if sum.Sign() != 0 {
				s2, e := aggSk.Sign(msg, h)
				run.Eval(1)
				if e != nil || !bytes.Equal(s2, wantSig) {
					run.Violate("C04:agg-key-signature:"+kind, "signature by the aggregated private key differs from the aggregated signatures", rep)
				}
				ok, e := aggPk.Verify(aggSig, msg, h)
				run.Eval(1)
				if !ok || e != nil {
					run.Violate("C04:agg-verify:"+kind, "aggregated signature does not verify under the aggregated key", rep)
				}
			}
			if crypto.IsBLSSignatureIdentity(aggSig) != (sum.Sign() == 0) || (sum.Sign() == 0 && !bytes.Equal(aggSig, infSig)) {
				run.Violate("C04:identity-signature", "IsBLSSignatureIdentity / identity encoding wrong for the aggregated signature", rep)
			}
			// --- Remove(Agg(A+B), B) == Agg(A)
			if len(ks) >= 2 {
				cut := 1 + r.IntN(len(ks)-1)
				A, B := pks[:cut], pks[cut:]
				sumA := new(big.Int)
				for _, k := range ks[:cut] {
					sumA = ref.Fr.Add(sumA, k)
				}
				wantA := ref.EncodeG2(ref.E2.Mul(ref.G2Gen, sumA), cv)
				var rem crypto.PublicKey
				poison("pks")
				if !run.Guard("RemoveBLSPublicKeys", rep, func() { rem, err = crypto.RemoveBLSPublicKeys(aggPk, permute(r, B)) }) {
					run.Eval(1)
					aggA, _ := crypto.AggregateBLSPublicKeys(A)
					if err != nil || !bytes.Equal(rem.Encode(), wantA) || !rem.Equals(aggA) || !aggA.Equals(rem) {
						run.Violate("C04:remove:"+kind, fmt.Sprintf("Remove(Agg(A+B),B) = %x (err %v), reference Agg(A) = %x", pkEncOrNil(rem), err, wantA), rep)
					}
					// the removed-form object (Jacobian, Z != 1) must behave like the affine one
					if sumA.Sign() != 0 {
						sA, _ := skFromInt(sumA).Sign(msg, h)
						ok, e := rem.Verify(sA, msg, h)
						run.Eval(1)
						if !ok || e != nil {
							run.Violate("C04:remove-verify", "key produced by Remove rejects a valid signature", rep)
						}
					}
					// the minuend in non-affine coordinates: the same removal from the Jacobian form of the
					// aggregate, and removal in two steps (the intermediate result, itself the output of a
					// removal, is the minuend of the second step)
					if jr, e := crypto.RemoveBLSPublicKeys(jacobianForm(aggPk, r), permute(r, B)); e != nil || !bytes.Equal(jr.Encode(), wantA) {
						run.Violate("C04:remove:jacobian-minuend", fmt.Sprintf("Remove(Agg(A+B) in Jacobian coordinates, B) = %x (err %v), reference Agg(A) = %x", pkEncOrNil(jr), e, wantA), rep)
					}
					if len(B) >= 2 {
						h := 1 + r.IntN(len(B)-1)
						step1, e1 := crypto.RemoveBLSPublicKeys(aggPk, B[:h])
						if e1 == nil {
							step2, e2 := crypto.RemoveBLSPublicKeys(step1, B[h:])
							run.Eval(2)
							if e2 != nil || !bytes.Equal(step2.Encode(), wantA) {
								run.Violate("C04:remove:nested", fmt.Sprintf("Remove(Remove(Agg(A+B), B1), B2) = %x (err %v), reference Agg(A) = %x", pkEncOrNil(step2), e2, wantA), rep)
							}
							// ... and aggregating the removed part back gives the original aggregate
							back, e3 := crypto.AggregateBLSPublicKeys(append([]crypto.PublicKey{step1}, B[:h]...))
							if e3 != nil || !bytes.Equal(back.Encode(), wantPk) {
								run.Violate("C04:remove:aggregate-back", fmt.Sprintf("Agg(Remove(Agg(A+B), B1), B1) = %x (err %v), reference Agg(A+B) = %x", pkEncOrNil(back), e3, wantPk), rep)
							}
						}
					}
					// removing everything gives the identity; removing nothing is a no-op
					all, e := crypto.RemoveBLSPublicKeys(aggPk, pks)
					none, e2 := crypto.RemoveBLSPublicKeys(aggPk, nil)
					run.Eval(2)
					if e != nil || e2 != nil || !all.Equals(idPk) || !bytes.Equal(none.Encode(), wantPk) {
						run.Violate("C04:remove-all-or-none", "Remove of all keys is not identity or Remove of no keys changed the key", rep)
					} else if ok, _ := all.Verify(infSig, msg, h); ok {
						run.Violate("C04:identity-result-not-treated-as-identity:remove", "the identity key produced by RemoveBLSPublicKeys accepts the identity signature", rep)
					}
				}
			}
			run.Shape(kind + "|" + nb + "|ok")
			if si < 3 {
				run.Sample(rep)
			}
		}(si)
	}
	wg.Wait()
	// signatures on E1 outside G1: aggregation adds in E1 without a subgroup check
	for i := 0; i < run.Pick(20, 200); i++ {
		a := ref.NonSubgroupE1(mon.RandBytes(r, 8))
		b := ref.E1.Mul(ref.G1Gen, randScalar(r))
		c := ref.E1.Add(tor3(), ref.E1.Mul(ref.G1Gen, randScalar(r)))
		got, err := crypto.AggregateBLSSignatures([]crypto.Signature{ref.EncodeG1(a), ref.EncodeG1(b), ref.EncodeG1(c)})
		run.Eval(1)
		want := ref.EncodeG1(ref.E1.Sum(a, b, c))
		if err != nil || !bytes.Equal(got, want) {
			run.Violate("C04:non-subgroup-sum", fmt.Sprintf("sum of E1 points outside G1: %x (err %v) vs %x", []byte(got), err, want), nil)
		}
		run.Shape("non-subgroup")
	}
	// every list size 1..N (quick 136, thorough 300): public keys (every third one in Jacobian form, one
	// identity key), private keys and signatures of the same scalars, against reference prefix sums
	{
		N := run.Pick(136, 300)
		rr := run.Rand("list-sizes")
		hh := crypto.NewExpandMsgXOFKMAC128("c04-sizes")
		msg := []byte("list sizes")
		H, err := hashPoint(msg, hh, "kmac:c04-sizes")
		if err != nil {
			run.Violate("C04:hash-point", err.Error(), nil)
			return
		}
		ks := make([]*big.Int, N)
		sks := make([]crypto.PrivateKey, N)
		pks := make([]crypto.PublicKey, N)
		sigs := make([]crypto.Signature, N)
		for i := range ks {
			ks[i] = randScalar(rr)
			if i == 5 {
				ks[i] = ref.Fr.Neg(ks[2]) // a cancelling pair inside every longer list
			}
			sks[i] = skFromInt(ks[i])
			pks[i] = sks[i].PublicKey()
			if i%3 == 2 {
				pks[i] = jacobianForm(pks[i], rr)
			}
			sigs[i], _ = sks[i].Sign(msg, hh)
		}
		sumK := new(big.Int)
		for n := 1; n <= N; n++ {
			sumK = ref.Fr.Add(sumK, ks[n-1])
			n, sum := n, new(big.Int).Set(sumK)
			wg.Add(1)
			sem <- struct{}{}
			go func() {
				defer wg.Done()
				defer func() { <-sem }()
				defer run.Protect("c04 worker")
				rep := map[string]any{"list_size": n}
				wantPk := ref.EncodeG2(ref.E2.Mul(ref.G2Gen, sum), cv)
				wantSig := ref.EncodeG1(ref.E1.Mul(H, sum))
				list := append([]crypto.PublicKey{}, pks[:n]...)
				if n%4 == 0 {
					list = append(list, idPk)
				}
				var aPk crypto.PublicKey
				var aSk crypto.PrivateKey
				var aSig crypto.Signature
				var e1, e2, e3 error
				if run.Guard("aggregation(list size)", rep, func() {
					aPk, e1 = crypto.AggregateBLSPublicKeys(list)
					aSk, e2 = crypto.AggregateBLSPrivateKeys(sks[:n])
					aSig, e3 = crypto.AggregateBLSSignatures(sigs[:n])
				}) {
					return
				}
				run.Eval(3)
				run.Count("list-sizes.sizes", 1)
				if e1 != nil || !bytes.Equal(aPk.Encode(), wantPk) {
					run.Violate("C04:public-sum:list-size", fmt.Sprintf("AggregateBLSPublicKeys of %d keys (every third in Jacobian form) = %x (err %v), reference %x", len(list), pkEncOrNil(aPk), e1, wantPk), rep)
				}
				if e2 != nil || !bytes.Equal(aSk.Encode(), ref.ScalarBytes(sum)) {
					run.Violate("C04:private-sum:list-size", fmt.Sprintf("AggregateBLSPrivateKeys of %d keys differs from the reference sum (err %v)", n, e2), rep)
				}
				if e3 != nil || !bytes.Equal(aSig, wantSig) {
					run.Violate("C04:signature-sum:list-size", fmt.Sprintf("AggregateBLSSignatures of %d signatures = %x (err %v), reference %x", n, []byte(aSig), e3, wantSig), rep)
				}
				if n >= 2 && e1 == nil {
					// Remove(Agg(first n), last n/2) == Agg(first n - n/2)
					cut := n - n/2
					sumA := new(big.Int)
					for _, k := range ks[:cut] {
						sumA = ref.Fr.Add(sumA, k)
					}
					rem, e := crypto.RemoveBLSPublicKeys(aPk, pks[cut:n])
					run.Eval(1)
					if wantA := ref.EncodeG2(ref.E2.Mul(ref.G2Gen, sumA), cv); e != nil || !bytes.Equal(rem.Encode(), wantA) {
						run.Violate("C04:remove:list-size", fmt.Sprintf("Remove(Agg of %d keys, the last %d) = %x (err %v), reference %x", n, n/2, pkEncOrNil(rem), e, wantA), rep)
					}
				}
				if n%16 == 0 {
					run.Shape(fmt.Sprintf("list-size|%d", n))
				}
			}()
		}
		wg.Wait()
		run.Require(run.Counter("list-sizes.sizes") == int64(N), "list-size sweep incomplete")
	}
	// a special element (identity, a copy of an earlier element, the opposite of its neighbour) at every
	// position of a list longer than any internal chunk
	c04SpecialAtEveryPosition(run, cv)
	// algebraic corners: identity operands at each position, equal operands (doubling), opposite
	// operands (cancellation), and removal whose intermediate sum equals +-the minuend
	c04Corners(run, r, cv)
	c04IdentityHelpers(run, r, cv)
	// error classes
	c04Errors(run, r)
	run.Require(run.Counter("zero-sum") >= 10, "fewer than 10 zero-sum multisets")
}

// c04SpecialAtEveryPosition: lists of M signatures / public keys in which exactly one position p holds a
// special element - the identity, a copy of the element 1, 64 or 128 places earlier, or the opposite of
// the previous element - for every p: the sum is the reference sum. (Buffers, chunks or accumulators that
// are reused inside a long list treat such elements differently from the first chunk.)
func c04SpecialAtEveryPosition(run *mon.Run, cv ref.Conv) {
	M := run.Pick(270, 530)
	rr := run.Rand("special-positions")
	hh := crypto.NewExpandMsgXOFKMAC128("c04-special")
	msg := []byte("special positions")
	H, err := hashPoint(msg, hh, "kmac:c04-special")
	if err != nil {
		run.Violate("C04:hash-point", err.Error(), nil)
		return
	}
	ks := make([]*big.Int, M)
	sigPts := make([]ref.G1, M)
	pkPts := make([]ref.G2, M)
	sigs := make([]crypto.Signature, M)
	pks := make([]crypto.PublicKey, M)
	var wg sync.WaitGroup
	sem := make(chan struct{}, 16)
	for i := 0; i < M; i++ {
		ks[i] = randScalar(rr)
	}
	for i := 0; i < M; i++ {
		i := i
		wg.Add(1)
		sem <- struct{}{}
		go func() {
			defer wg.Done()
			defer func() { <-sem }()
			sigPts[i] = ref.E1.Mul(H, ks[i])
			pkPts[i] = ref.E2.Mul(ref.G2Gen, ks[i])
			sigs[i] = ref.EncodeG1(sigPts[i])
			pks[i] = skFromInt(ks[i]).PublicKey()
		}()
	}
	wg.Wait()
	totalSig, totalPk := ref.E1.Sum(sigPts...), ref.E2.Sum(pkPts...)
	idPk := crypto.IdentityBLSPublicKey()
	idSig := ref.EncodeG1(ref.E1.Infinity())
	kinds := []string{"identity", "copy-of-previous", "copy-of-64-earlier", "copy-of-128-earlier", "opposite-of-previous"}
	for p := 0; p < M; p++ {
		p := p
		wg.Add(1)
		sem <- struct{}{}
		go func() {
			defer wg.Done()
			defer func() { <-sem }()
			defer run.Protect("c04 worker")
			for ki, kind := range kinds {
				if run.Quick() && (p+ki)%2 == 1 && p != 128 && p != 129 && p != 256 && p != 64 {
					continue
				}
				src := -1
				switch kind {
				case "copy-of-previous", "opposite-of-previous":
					src = p - 1
				case "copy-of-64-earlier":
					src = p - 64
				case "copy-of-128-earlier":
					src = p - 128
				}
				if kind != "identity" && src < 0 {
					continue
				}
				sl := append([]crypto.Signature{}, sigs...)
				kl := append([]crypto.PublicKey{}, pks...)
				wantSig, wantPk := ref.E1.Sub(totalSig, sigPts[p]), ref.E2.Sub(totalPk, pkPts[p])
				switch kind {
				case "identity":
					sl[p], kl[p] = idSig, idPk
				case "opposite-of-previous":
					sl[p] = ref.EncodeG1(ref.E1.Neg(sigPts[src]))
					kl[p] = skFromInt(ref.Fr.Neg(ks[src])).PublicKey()
					wantSig, wantPk = ref.E1.Sub(wantSig, sigPts[src]), ref.E2.Sub(wantPk, pkPts[src])
				default:
					sl[p], kl[p] = sigs[src], pks[src] // the same objects a second time
					wantSig, wantPk = ref.E1.Add(wantSig, sigPts[src]), ref.E2.Add(wantPk, pkPts[src])
				}
				rep := map[string]any{"list_size": M, "position": p, "kind": kind, "seed_label": "special-positions"}
				var aSig crypto.Signature
				var aPk crypto.PublicKey
				var e1, e2 error
				if run.Guard("aggregation(special element)", rep, func() {
					aSig, e1 = crypto.AggregateBLSSignatures(sl)
					aPk, e2 = crypto.AggregateBLSPublicKeys(kl)
				}) {
					return
				}
				run.Eval(2)
				run.Count("special-positions.cases", 1)
				if want := ref.EncodeG1(wantSig); e1 != nil || !bytes.Equal(aSig, want) {
					run.Violate("C04:signature-sum:special-element:"+kind, fmt.Sprintf("AggregateBLSSignatures of %d signatures with %s at position %d = %x (err %v), reference %x", M, kind, p, []byte(aSig), e1, want), rep)
				}
				if want := ref.EncodeG2(wantPk, cv); e2 != nil || !bytes.Equal(pkEncOrNil(aPk), want) {
					run.Violate("C04:public-sum:special-element:"+kind, fmt.Sprintf("AggregateBLSPublicKeys of %d keys with %s at position %d = %x (err %v), reference %x", M, kind, p, pkEncOrNil(aPk), e2, want), rep)
				}
			}
			// a malformed (but 48-byte) element at this position: the whole aggregation is refused, wherever in
			// the list the element sits
			if !run.Quick() || p%3 == 0 || p == 63 || p == 64 || p == 65 || p == 127 || p == 128 || p == 129 || p == M-1 {
				bads := map[string][]byte{"bad-header": append([]byte{0xE0}, make([]byte, 47)...), "infinity-with-garbage": append(append([]byte{0xC0}, make([]byte, 46)...), 1), "uncompressed-flag": append([]byte{}, sigs[p]...), "x-not-on-curve": nil, "x-equals-p": nil}
				bads["uncompressed-flag"][0] &= 0x7f
				for x := int64(1); x < 40; x++ {
					c := make([]byte, 48)
					c[47] = byte(x)
					c[0] = 0x80
					if _, cls := ref.DecodeG1(c); cls != ref.DecOK {
						bads["x-not-on-curve"] = c
						break
					}
				}
				pb := ref.P.FillBytes(make([]byte, 48))
				pb[0] |= 0x80
				bads["x-equals-p"] = pb
				names := []string{"bad-header", "infinity-with-garbage", "uncompressed-flag", "x-not-on-curve", "x-equals-p"}
				for bi, name := range names {
					if bads[name] == nil || (run.Quick() && (p+bi)%2 == 1) {
						continue
					}
					sl := append([]crypto.Signature{}, sigs...)
					sl[p] = bads[name]
					var out crypto.Signature
					var e error
					rep := map[string]any{"list_size": M, "position": p, "kind": name}
					if run.Guard("aggregation(malformed element)", rep, func() { out, e = crypto.AggregateBLSSignatures(sl) }) {
						return
					}
					run.Eval(1)
					run.Count("special-positions.malformed", 1)
					if e == nil || !crypto.IsInvalidSignatureError(e) || out != nil {
						run.Violate("C04:error-class:malformed-element-in-long-list", fmt.Sprintf("AggregateBLSSignatures of %d signatures with a malformed one (%s) at position %d returned (%x, %v); an invalid-signature error is documented", M, name, p, []byte(out), e), rep)
					}
				}
			}
			if p%32 == 0 {
				run.Shape(fmt.Sprintf("special-position|%d", p))
			}
		}()
	}
	wg.Wait()
	run.Require(run.Counter("special-positions.cases") >= int64(M), "special-element sweep incomplete")
	run.Require(run.Counter("special-positions.malformed") >= int64(M/4), "malformed-element sweep incomplete")
}

func c04Corners(run *mon.Run, r *rand.Rand, cv ref.Conv) {
	h := crypto.NewExpandMsgXOFKMAC128("c04-corner")
	infSig := ref.EncodeG1(ref.E1.Infinity())
	idPk := crypto.IdentityBLSPublicKey()
	for it := 0; it < run.Pick(12, 200); it++ {
		msg := mon.RandBytes(r, 1+r.IntN(20))
		H, err := hashPoint(msg, h, "kmac:c04-corner")
		if err != nil {
			run.Violate("C04:hash-point", err.Error(), nil)
			return
		}
		k := randScalar(r)
		k2 := randScalar(r)
		P := ref.E1.Mul(H, k)
		Q := ref.E1.Mul(H, k2)
		e := ref.EncodeG1
		neg := ref.E1.Neg
		type sc struct {
			name string
			in   [][]byte
			want ref.G1
		}
		sigCases := []sc{
			{"[P,O]", [][]byte{e(P), infSig}, P},
			{"[O,P]", [][]byte{infSig, e(P)}, P},
			{"[O,O]", [][]byte{infSig, infSig}, ref.E1.Infinity()},
			{"[O]", [][]byte{infSig}, ref.E1.Infinity()},
			{"[P,O,Q]", [][]byte{e(P), infSig, e(Q)}, ref.E1.Add(P, Q)},
			{"[P,Q,O]", [][]byte{e(P), e(Q), infSig}, ref.E1.Add(P, Q)},
			{"[P,P]", [][]byte{e(P), e(P)}, ref.E1.Double(P)},
			{"[P,-P]", [][]byte{e(P), e(neg(P))}, ref.E1.Infinity()},
			{"[P,-P,Q]", [][]byte{e(P), e(neg(P)), e(Q)}, Q},
			{"[P,P,-2P]", [][]byte{e(P), e(P), e(neg(ref.E1.Double(P)))}, ref.E1.Infinity()},
			{"[P,Q,P+Q]", [][]byte{e(P), e(Q), e(ref.E1.Add(P, Q))}, ref.E1.Double(ref.E1.Add(P, Q))},
			{"[P,Q,-(P+Q),Q]", [][]byte{e(P), e(Q), e(neg(ref.E1.Add(P, Q))), e(Q)}, Q},
		}
		for _, c := range sigCases {
			var got crypto.Signature
			rep := map[string]any{"case": c.name, "k": k.Text(16), "k2": k2.Text(16), "msg": mon.Hex(msg)}
			if run.Guard("AggregateBLSSignatures", rep, func() { got, err = crypto.AggregateBLSSignatures(toSigs(c.in)) }) {
				continue
			}
			run.Eval(1)
			if err != nil || !bytes.Equal(got, e(c.want)) {
				run.Violate("C04:signature-corner:"+c.name, fmt.Sprintf("AggregateBLSSignatures(%s) = %x (err %v), reference %x", c.name, []byte(got), err, e(c.want)), rep)
			}
			// the returned signature is the caller's: it is reused as a scratch buffer, then everything that
			// depends on "the identity signature" or on this aggregate is asked again
			if err == nil {
				for i := range got {
					got[i] = 0x99
				}
				again, err2 := crypto.AggregateBLSSignatures(toSigs(c.in))
				fresh := ref.EncodeG1(ref.E1.Infinity())
				run.Eval(2)
				if err2 != nil || !bytes.Equal(again, e(c.want)) || !crypto.IsBLSSignatureIdentity(fresh) || crypto.IsBLSSignatureIdentity(bytes.Repeat([]byte{0x99}, 48)) {
					run.Violate("C04:returned-signature-aliases-internal-state", fmt.Sprintf("after the caller overwrote the slice returned by AggregateBLSSignatures(%s): the same aggregation gives %x (err %v, expected %x), IsBLSSignatureIdentity(c000..) = %v, IsBLSSignatureIdentity(9999..) = %v", c.name, []byte(again), err2, e(c.want), crypto.IsBLSSignatureIdentity(fresh), crypto.IsBLSSignatureIdentity(bytes.Repeat([]byte{0x99}, 48))), rep)
				}
			}
			run.Shape("corner|sig|" + c.name)
		}
		// public keys: same shapes in G2, and removal corners
		pk := func(x *big.Int) crypto.PublicKey {
			if x.Sign() == 0 {
				return idPk
			}
			return skFromInt(x).PublicKey()
		}
		mulK := func(c int64) *big.Int { return ref.Fr.Mul(k, ref.Fr.FromInt(c)) }
		type pc struct {
			name string
			in   []*big.Int
		}
		zero := new(big.Int)
		pkCases := []pc{
			{"[P,O]", []*big.Int{k, zero}}, {"[O,P]", []*big.Int{zero, k}}, {"[O,O]", []*big.Int{zero, zero}}, {"[P,P]", []*big.Int{k, k}},
			{"[P,-P]", []*big.Int{k, mulK(-1)}}, {"[P,P,-2P]", []*big.Int{k, k, mulK(-2)}}, {"[P,Q,O,P]", []*big.Int{k, k2, zero, k}},
			{"[P,-P,Q]", []*big.Int{k, mulK(-1), k2}}, {"[P,2P,3P]", []*big.Int{k, mulK(2), mulK(3)}},
		}
		for _, c := range pkCases {
			var keys []crypto.PublicKey
			sum := new(big.Int)
			for _, x := range c.in {
				keys = append(keys, pk(x))
				sum = ref.Fr.Add(sum, x)
			}
			want := ref.EncodeG2(ref.E2.Mul(ref.G2Gen, sum), cv)
			var got crypto.PublicKey
			rep := map[string]any{"case": c.name, "k": k.Text(16), "k2": k2.Text(16)}
			if run.Guard("AggregateBLSPublicKeys", rep, func() { got, err = crypto.AggregateBLSPublicKeys(keys) }) {
				continue
			}
			run.Eval(1)
			if err != nil || !bytes.Equal(got.Encode(), want) {
				run.Violate("C04:public-corner:"+c.name, fmt.Sprintf("AggregateBLSPublicKeys(%s) = %x (err %v), reference %x", c.name, pkEncOrNil(got), err, want), rep)
			} else if sum.Sign() == 0 {
				if ok1, _ := got.Verify(infSig, msg, h); ok1 || !got.Equals(idPk) {
					run.Violate("C04:identity-result-not-treated-as-identity:aggregate", fmt.Sprintf("AggregateBLSPublicKeys(%s) gives the identity point but the key accepts the identity signature", c.name), rep)
				}
			}
			run.Shape("corner|pk|" + c.name)
		}
		// Remove(x, ys): x = [a]g2, ys scalars; corners where sum(ys) = a (result identity), = -a
		// (x + x: doubling), = 2a, and where the list itself cancels
		type rc struct {
			name string
			a    *big.Int
			ys   []*big.Int
		}
		remCases := []rc{
			{"x-[x]", k, []*big.Int{k}},
			{"x-[-x]", k, []*big.Int{mulK(-1)}},
			{"x-[2x]", k, []*big.Int{mulK(2)}},
			{"x-[-x/2,-x/2]", mulK(2), []*big.Int{mulK(-1), mulK(-1)}},
			{"x-[y,-y]", k, []*big.Int{k2, ref.Fr.Neg(k2)}},
			{"x-[x,y,-y]", k, []*big.Int{k, k2, ref.Fr.Neg(k2)}},
			{"O-[y]", zero, []*big.Int{k2}},
			{"x-[O]", k, []*big.Int{zero}},
			{"x-[y,y]", k, []*big.Int{k2, k2}},
			{"(-y)-[y] (seed: Agg(A+B) = -Agg(B))", ref.Fr.Neg(k2), []*big.Int{k2}},
		}
		for _, c := range remCases {
			var ys []crypto.PublicKey
			sum := new(big.Int).Set(c.a)
			for _, y := range c.ys {
				ys = append(ys, pk(y))
				sum = ref.Fr.Sub(sum, y)
			}
			want := ref.EncodeG2(ref.E2.Mul(ref.G2Gen, sum), cv)
			var got crypto.PublicKey
			rep := map[string]any{"case": c.name, "k": k.Text(16), "k2": k2.Text(16)}
			if run.Guard("RemoveBLSPublicKeys", rep, func() { got, err = crypto.RemoveBLSPublicKeys(pk(c.a), ys) }) {
				continue
			}
			run.Eval(1)
			if err != nil || !bytes.Equal(got.Encode(), want) {
				run.Violate("C04:remove-corner:"+strings.SplitN(c.name, " ", 2)[0], fmt.Sprintf("RemoveBLSPublicKeys %s = %x (err %v), reference %x", c.name, pkEncOrNil(got), err, want), rep)
			} else if sum.Sign() == 0 {
				// an identity result must be an identity key in every respect
				ok1, _ := got.Verify(infSig, msg, h)
				ok2, _ := crypto.VerifyBLSSignatureManyMessages([]crypto.PublicKey{got}, infSig, [][]byte{msg}, []hash.Hasher{h})
				ok3, _ := crypto.BLSVerifyPOP(got, infSig)
				if ok1 || ok2 || ok3 || !got.Equals(idPk) {
					run.Violate("C04:identity-result-not-treated-as-identity:remove", fmt.Sprintf("RemoveBLSPublicKeys %s gives the identity point but the key accepts the identity signature (Verify %v, ManyMessages %v, PoP %v)", c.name, ok1, ok2, ok3), rep)
				}
			}
			run.Shape("corner|remove|" + c.name)
		}
		// private keys with zero operands
		for _, c := range pkCases {
			var sks []crypto.PrivateKey
			sum := new(big.Int)
			skip := false
			for _, x := range c.in {
				if x.Sign() == 0 {
					// a zero private key can only come from an aggregation
					z, e := crypto.AggregateBLSPrivateKeys([]crypto.PrivateKey{skFromInt(k), skFromInt(ref.Fr.Neg(k))})
					if e != nil {
						skip = true
						break
					}
					sks = append(sks, z)
				} else {
					sks = append(sks, skFromInt(x))
				}
				sum = ref.Fr.Add(sum, x)
			}
			if skip {
				continue
			}
			got, err := crypto.AggregateBLSPrivateKeys(sks)
			run.Eval(1)
			if err != nil || !bytes.Equal(got.Encode(), ref.ScalarBytes(sum)) {
				run.Violate("C04:private-corner:"+c.name, fmt.Sprintf("AggregateBLSPrivateKeys(%s) = %x (err %v), reference %x", c.name, encOrNil(got), err, ref.ScalarBytes(sum)), nil)
			}
		}
	}
}

// c04IdentityHelpers: IsBLSSignatureIdentity is true for exactly one string (0xC0 followed by 47 zero
// bytes); BLSInvalidSignature() is a 48-byte string that no key accepts and that aggregation refuses;
// IdentityBLSPublicKey() is the canonical infinity encoding and is neutral in sums.
func c04IdentityHelpers(run *mon.Run, r *rand.Rand, cv ref.Conv) {
	inf := append([]byte{0xC0}, make([]byte, 47)...)
	sk := skFromInt(randScalar(r))
	h := crypto.NewExpandMsgXOFKMAC128("c04-helpers")
	good, _ := sk.Sign([]byte("m"), h)
	cands := map[string][]byte{"identity": inf, "nil": nil, "empty": {}, "47-bytes": inf[:47], "49-bytes": append(append([]byte{}, inf...), 0), "96-bytes": append(append([]byte{}, inf...), inf...),
		"header-40": append([]byte{0x40}, make([]byte, 47)...), "header-80": append([]byte{0x80}, make([]byte, 47)...), "header-E0": append([]byte{0xE0}, make([]byte, 47)...), "header-C1": append([]byte{0xC1}, make([]byte, 47)...),
		"all-zero": make([]byte, 48), "valid-signature": good, "invalid-signature-helper": crypto.BLSInvalidSignature()}
	for pos := 1; pos < 48; pos++ {
		g := append([]byte{}, inf...)
		g[pos] = byte(1 + r.IntN(255))
		cands[fmt.Sprintf("garbage-at-%d", pos)] = g
	}
	for gi, gb := range cancellingGarbage(r, 48) {
		g := append([]byte{}, inf...)
		for i, v := range gb {
			g[i] |= v
		}
		cands[fmt.Sprintf("cancelling-garbage-%d", gi)] = g
	}
	for name, c := range cands {
		run.Eval(1)
		if got, want := crypto.IsBLSSignatureIdentity(c), name == "identity"; got != want {
			run.Violate("C04:is-identity-signature:"+strings.SplitN(name, "-at-", 2)[0], fmt.Sprintf("IsBLSSignatureIdentity(%x) = %v (candidate %s)", c, got, name), map[string]any{"candidate": mon.Hex(c)})
		}
	}
	bad := crypto.BLSInvalidSignature()
	run.Eval(3)
	if len(bad) != 48 || sigClass(bad) == "in-G1" || sigClass(bad) == "infinity" {
		run.Violate("C04:invalid-signature-helper", fmt.Sprintf("BLSInvalidSignature() = %x is a decodable signature", []byte(bad)), nil)
	}
	for _, k := range []crypto.PublicKey{sk.PublicKey(), crypto.IdentityBLSPublicKey(), skFromInt(big.NewInt(1)).PublicKey()} {
		if ok, err := k.Verify(bad, []byte("m"), h); ok || err != nil {
			run.Violate("C04:invalid-signature-helper", fmt.Sprintf("Verify(BLSInvalidSignature()) = (%v, %v)", ok, err), nil)
		}
	}
	bad[5] ^= 0xff // the returned slice is the caller's
	if again := crypto.BLSInvalidSignature(); sigClass(again) == "in-G1" || !bytes.Equal(again, crypto.BLSInvalidSignature()) {
		run.Violate("C04:invalid-signature-helper", "BLSInvalidSignature() changes after the caller modified an earlier result", nil)
	}
	id := crypto.IdentityBLSPublicKey()
	wantId := ref.EncodeG2(ref.E2.Infinity(), cv)
	pk := sk.PublicKey()
	sum, err := crypto.AggregateBLSPublicKeys([]crypto.PublicKey{id, pk, crypto.IdentityBLSPublicKey()})
	run.Eval(2)
	if !bytes.Equal(id.Encode(), wantId) || !id.Equals(crypto.IdentityBLSPublicKey()) || id.Equals(pk) || pk.Equals(id) {
		run.Violate("C04:identity-key-helper", fmt.Sprintf("IdentityBLSPublicKey() encodes to %x (canonical infinity: %x) or compares wrongly", id.Encode(), wantId), nil)
	}
	if err != nil || !sum.Equals(pk) || !bytes.Equal(sum.Encode(), pk.Encode()) {
		run.Violate("C04:identity-key-helper", "the identity key is not neutral in AggregateBLSPublicKeys", nil)
	}
	run.Shape("identity-helpers")
}

func c04Errors(run *mon.Run, r *rand.Rand) {
	ecSk, _ := crypto.GeneratePrivateKey(crypto.ECDSAP256, mon.RandBytes(r, 32))
	bsk := skFromInt(big.NewInt(9))
	check := func(name string, err error, pred func(error) bool) {
		run.Eval(1)
		if !pred(err) {
			run.Violate("C04:error-class:"+name, fmt.Sprintf("%s: unexpected error %v", name, err), nil)
		}
		run.Shape("error|" + name)
	}
	_, err := crypto.AggregateBLSSignatures(nil)
	check("sigs-empty", err, crypto.IsBLSAggregateEmptyListError)
	_, err = crypto.AggregateBLSSignatures([]crypto.Signature{})
	check("sigs-empty2", err, crypto.IsBLSAggregateEmptyListError)
	_, err = crypto.AggregateBLSPrivateKeys(nil)
	check("sks-empty", err, crypto.IsBLSAggregateEmptyListError)
	_, err = crypto.AggregateBLSPublicKeys(nil)
	check("pks-empty", err, crypto.IsBLSAggregateEmptyListError)
	good, _ := bsk.Sign([]byte("m"), crypto.NewExpandMsgXOFKMAC128("t"))
	for pos := 0; pos < 3; pos++ {
		offcurve := append([]byte{}, good...)
		for tries := 0; tries < 200; tries++ {
			offcurve[47] ^= byte(1 + tries)
			if sigClass(offcurve) == "offcurve" {
				break
			}
		}
		xgep := ref.P.FillBytes(make([]byte, 48))
		xgep[0] |= 0x80
		infGarbage := make([]byte, 48)
		infGarbage[0], infGarbage[20] = 0xC0, 7
		uncompressed := append([]byte{}, good...)
		uncompressed[0] &= 0x7F
		for _, bad := range [][]byte{nil, {}, good[:47], append(append([]byte{}, good...), 0), crypto.BLSInvalidSignature(), mon.RandBytes(r, 48)[:48], offcurve, xgep, infGarbage, uncompressed} {
			if len(bad) == 48 && sigClass(bad) != "flags" && sigClass(bad) != "range" && sigClass(bad) != "offcurve" {
				continue
			}
			l := []crypto.Signature{good, good, good}
			l[pos] = bad
			var e error
			if run.Guard("AggregateBLSSignatures(bad)", mon.Hex(bad), func() { _, e = crypto.AggregateBLSSignatures(l) }) {
				continue
			}
			check("sig-malformed", e, crypto.IsInvalidSignatureError)
		}
	}
	// wrong lengths that compensate each other: the concatenation of the list is a multiple of 48 bytes
	// (and even re-splits into valid signatures), but no entry is a signature
	{
		g1, _ := bsk.Sign([]byte("c1"), crypto.NewExpandMsgXOFKMAC128("c04"))
		g2, _ := bsk.Sign([]byte("c2"), crypto.NewExpandMsgXOFKMAC128("c04"))
		cat := append(append([]byte{}, g1...), g2...)
		for _, cuts := range [][]int{{47}, {49}, {0}, {96}, {1}, {95}, {24, 72}, {0, 96}, {47, 49}, {40, 56}} {
			var l []crypto.Signature
			prev := 0
			for _, c := range cuts {
				l = append(l, append([]byte{}, cat[prev:c]...))
				prev = c
			}
			l = append(l, append([]byte{}, cat[prev:]...))
			if len(cuts) == 2 && cuts[0] == 47 && cuts[1] == 49 {
				l = []crypto.Signature{cat[:47], cat[47:96], g1} // 47 + 49 + 48
			}
			wellFormed := true
			for _, e := range l {
				wellFormed = wellFormed && len(e) == 48
			}
			if wellFormed {
				continue
			}
			var e error
			var out crypto.Signature
			if run.Guard("AggregateBLSSignatures(compensating lengths)", cuts, func() { out, e = crypto.AggregateBLSSignatures(l) }) {
				continue
			}
			if e == nil {
				run.Violate("C04:error-class:compensating-lengths", fmt.Sprintf("AggregateBLSSignatures of entries with lengths split at %v of two concatenated signatures returned %x without error", cuts, []byte(out)), nil)
			} else {
				check("compensating-lengths", e, crypto.IsInvalidSignatureError)
			}
		}
	}
	_, err = crypto.AggregateBLSPrivateKeys([]crypto.PrivateKey{bsk, ecSk})
	check("sks-ecdsa", err, crypto.IsNotBLSKeyError)
	_, err = crypto.AggregateBLSPublicKeys([]crypto.PublicKey{ecSk.PublicKey(), bsk.PublicKey()})
	check("pks-ecdsa", err, crypto.IsNotBLSKeyError)
	_, err = crypto.RemoveBLSPublicKeys(ecSk.PublicKey(), []crypto.PublicKey{bsk.PublicKey()})
	check("remove-agg-ecdsa", err, crypto.IsNotBLSKeyError)
	_, err = crypto.RemoveBLSPublicKeys(bsk.PublicKey(), []crypto.PublicKey{ecSk.PublicKey()})
	check("remove-list-ecdsa", err, crypto.IsNotBLSKeyError)
}

func scalarStrings(ks []*big.Int) []string {
	out := make([]string, len(ks))
	for i, k := range ks {
		out[i] = k.Text(16)
	}
	return out
}

func encOrNil(sk crypto.PrivateKey) []byte {
	if sk == nil {
		return nil
	}
	return sk.Encode()
}

func pkEncOrNil(pk crypto.PublicKey) []byte {
	if pk == nil {
		return nil
	}
	return pk.Encode()
}
