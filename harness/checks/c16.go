//go:build cgo && !no_cgo

package checks

import (
	"bytes"
	"fmt"
	"math/big"
	"strings"
	"sync"

	"github.com/onflow/crypto"
	"github.com/onflow/crypto/hash"

	"verif/harness/mon"
	"verif/harness/ref"
)

const (
	sigSuite = "BLS_SIG_BLS12381G1_XOF:KMAC128_SSWU_RO_POP_"
	popSuite = "BLS_POP_BLS12381G1_XOF:KMAC128_SSWU_RO_POP_"
)

// popHasher rebuilds the proof-of-possession expander from the documented ciphersuite
// string only (KMAC128 keyed with the suite, customizer "H2C", 128 bytes).
func popHasher() hash.Hasher {
	return &fixedHasher{name: "ref-pop", size: 128, f: func(d []byte, n int) []byte {
		return ref.KMAC128([]byte(popSuite), d, n, []byte("H2C"))
	}}
}

func c16Tags() []string {
	tags := []string{"", "BLS_POP_", "BLS_SIG_", popSuite, sigSuite, "POP_", "H2C", "verif", "Flow-V00-CS00-with-"}
	// the PoP suite minus each suffix of the signature suite: tag||sigSuite may collide textually
	for i := 0; i <= len(sigSuite); i++ {
		suf := sigSuite[i:]
		if strings.HasSuffix(popSuite, suf) {
			tags = append(tags, popSuite[:len(popSuite)-len(suf)])
		}
	}
	// tags making tag||sigSuite begin or end like the PoP suite
	tags = append(tags, "BLS_POP_BLS12381G1_XOF:KMAC128_SSWU_RO_POP_BLS_SIG_", popSuite+popSuite, "BLS_POP_BLS12381G1_XOF:KMAC128_SSWU_RO_")
	for _, n := range []int{1, 15, 16, 17, 119, 120, 121, 122, 123, 124, 125, 200, 288, 300} {
		tags = append(tags, strings.Repeat("t", n))
	}
	return tags
}

// C16: proofs of possession.
func C16(run *mon.Run) {
	run.Rule = "keys x {PoP candidate family (C01 kinds), foreign keys, identity keys} and keys x crafted domain tags for the two separation directions; shape = (key kind, candidate kind) or (direction, tag)"
	run.Assumptions = []string{"PoP hasher rebuilt from the documented suite string BLS_POP_BLS12381G1_XOF:KMAC128_SSWU_RO_POP_ with customizer H2C", "same trusted base as C01"}
	r := run.Rand("main")
	keys := c01Keys(r, run.Pick(12, 80))
	ph := popHasher()
	ids := identityKeys(r)
	tags := c16Tags()
	if !run.Quick() {
		for i := 0; i < 300; i++ {
			tags = append(tags, string(mon.RandBytes(r, r.IntN(300))))
		}
	}
	// the two expansions must differ
	if bytes.Equal(ph.ComputeHash([]byte("x")), crypto.NewExpandMsgXOFKMAC128("").ComputeHash([]byte("x"))) {
		run.Violate("C16:expansions-equal", "PoP and signature expansions coincide", nil)
	}
	var wg sync.WaitGroup
	sem := make(chan struct{}, 16)
	for ki, key := range keys {
		if ki > 0 && ki <= soloWorkers {
			wg.Wait() // the first workers run alone (see soloWorkers)
		}
		wg.Add(1)
		sem <- struct{}{}
		go func(ki int, key namedKey) {
			defer wg.Done()
			defer func() { <-sem }()
			defer run.Protect("c16 worker")
			r := run.Rand(fmt.Sprintf("key-%d", ki))
			ph := popHasher()
			pk := key.sk.PublicKey()
			enc := pk.Encode()
			H, err := hashPoint(enc, ph, "pop")
			if err != nil {
				run.Violate("C16:hash-point", err.Error(), nil)
				return
			}
			E := ref.E1.Mul(H, key.k)
			encE := ref.EncodeG1(E)
			var pop crypto.Signature
			if run.Guard("BLSGeneratePOP", key.name, func() { pop, err = crypto.BLSGeneratePOP(key.sk) }) {
				return
			}
			run.Eval(1)
			if err != nil || !bytes.Equal(pop, encE) {
				run.Violate("C16:pop-mismatch:"+key.name, fmt.Sprintf("BLSGeneratePOP = %x (err %v), reference [k]H_pop(enc(pk)) = %x", pop, err, encE), map[string]any{"k": key.k.String()})
			}
			full := ki < run.Pick(3, 10)
			cs := g1Candidates(E, H, r, 20, full)
			// the same candidates through one reused buffer (a caller reading proofs into one buffer);
			// this is the FIRST verification under this key object and these key bytes in the process
			{
				var bc []byteCand
				for ci, c := range cs {
					if ci < 30 || ci%5 == 0 {
						bc = append(bc, byteCand{c.b, c.kind})
					}
				}
				for _, tag := range []string{"", "BLS_POP_", popSuite} {
					if s, e := key.sk.Sign(enc, crypto.NewExpandMsgXOFKMAC128(tag)); e == nil {
						bc = append(bc, byteCand{s, "signature-of-enc-pk"})
					}
				}
				n := reusedBufferPass(encE, bc, func(sig []byte) (bool, error) { return crypto.BLSVerifyPOP(pk, sig) },
					func(b []byte) bool { return bytes.Equal(b, encE) },
					func(kind, what string, b []byte) {
						run.Violate("C16:reused-buffer:"+kind, fmt.Sprintf("BLSVerifyPOP, candidate kind %s, %s", kind, what), map[string]any{"k": key.k.String(), "candidate": mon.Hex(b), "kind": kind})
					})
				run.Eval(n)
			}
			// the key decoded from a receive buffer that the caller overwrites afterwards: its PoP still verifies
			{
				buf := append([]byte{}, enc...)
				if dk, e := crypto.DecodePublicKey(BLS, buf); e == nil {
					for i := range buf {
						buf[i] = 0xAA
					}
					ok, e2 := crypto.BLSVerifyPOP(dk, encE)
					copy(buf, keys[(ki+1)%len(keys)].sk.PublicKey().Encode())
					ok3, e3 := crypto.BLSVerifyPOP(dk, encE)
					run.Eval(2)
					if !ok || e2 != nil || !ok3 || e3 != nil {
						run.Violate("C16:rejects-own-pop:key-decoded-from-reused-buffer", fmt.Sprintf("BLSVerifyPOP under a key decoded from a buffer that was overwritten afterwards = (%v,%v) / (%v,%v)", ok, e2, ok3, e3), map[string]any{"k": key.k.String()})
					}
				}
			}
			// the same key held in non-affine coordinates, and Encode() must not hand out internal storage
			jk := jacobianForm(pk, r)
			if ok, e := crypto.BLSVerifyPOP(jk, encE); !ok || e != nil {
				run.Violate("C16:rejects-own-pop:jacobian-form-key", fmt.Sprintf("BLSVerifyPOP under the same key in Jacobian form = (%v,%v)", ok, e), map[string]any{"k": key.k.String()})
			}
			scratch := pk.Encode()
			for i := range scratch {
				scratch[i] ^= 0xA5
			}
			if ok, e := crypto.BLSVerifyPOP(pk, encE); !ok || e != nil || !bytes.Equal(pk.Encode(), enc) {
				run.Violate("C16:encode-aliases-internal-state", "after the caller modified the slice returned by Encode(), the key's PoP no longer verifies or Encode() changed", map[string]any{"k": key.k.String()})
			}
			if p2, e := crypto.BLSGeneratePOP(key.sk); e != nil || !bytes.Equal(p2, encE) {
				run.Violate("C16:encode-aliases-internal-state", "after the caller modified the slice returned by Encode(), BLSGeneratePOP changed", map[string]any{"k": key.k.String()})
			}
			run.Eval(3)
			for _, c := range cs {
				expect := bytes.Equal(c.b, encE)
				var ok bool
				rep := map[string]any{"k": key.k.String(), "candidate": mon.Hex(c.b), "kind": c.kind}
				if run.Guard("BLSVerifyPOP", rep, func() { ok, err = crypto.BLSVerifyPOP(pk, c.b) }) {
					continue
				}
				run.Eval(1)
				run.Count("cand."+c.kind, 1)
				if err != nil {
					run.Violate("C16:verifypop-error:"+c.kind, fmt.Sprintf("BLSVerifyPOP error %v", err), rep)
				} else if ok != expect {
					if expect {
						run.Violate("C16:rejects-own-pop:"+key.name, "BLSVerifyPOP rejected the reference PoP", rep)
					} else {
						run.Violate("C16:accepts:"+c.kind, fmt.Sprintf("BLSVerifyPOP accepted a %s candidate (class %s)", c.kind, sigClass(c.b)), rep)
					}
				}
				run.Shape(key.name + "|" + c.kind)
			}
			// under another key and under identity keys
			other := keys[(ki+1)%len(keys)]
			if other.k.Cmp(key.k) != 0 {
				ok, err := crypto.BLSVerifyPOP(other.sk.PublicKey(), encE)
				run.Eval(1)
				if ok || err != nil {
					run.Violate("C16:pop-under-other-key", fmt.Sprintf("PoP of one key verified under another (%v,%v)", ok, err), map[string]any{"k": key.k.String(), "other": other.k.String()})
				}
				// a PoP-style signature by this key over the *other* key's bytes must not verify for the other key
				forged, _ := key.sk.Sign(other.sk.PublicKey().Encode(), ph)
				ok, err = crypto.BLSVerifyPOP(other.sk.PublicKey(), forged)
				run.Eval(1)
				if ok || err != nil {
					run.Violate("C16:rogue-pop", "signature by key A over enc(pk_B) verified as PoP of B", nil)
				}
				run.Shape("other-key|" + key.name)
			}
			for _, ik := range ids {
				for _, s := range [][]byte{encE, ref.EncodeG1(ref.E1.Infinity())} {
					ok, err := crypto.BLSVerifyPOP(ik.pk, s)
					run.Eval(1)
					if ok || err != nil {
						run.Violate("C16:identity-key-accepts", fmt.Sprintf("BLSVerifyPOP under %s = (%v,%v)", ik.name, ok, err), nil)
					}
				}
				run.Shape("identity|" + ik.name)
			}
			// separation, both directions, per tag
			nt := len(tags)
			if run.Quick() && ki >= 4 {
				nt = 12
			}
			for ti := 0; ti < nt; ti++ {
				tag := tags[(ti+ki*7)%len(tags)]
				if ki < 4 || !run.Quick() {
					tag = tags[ti]
				}
				th := crypto.NewExpandMsgXOFKMAC128(tag)
				sig, err := key.sk.Sign(enc, th)
				if err != nil {
					run.Violate("C16:sign-error", err.Error(), tag)
					continue
				}
				ok, err := crypto.BLSVerifyPOP(pk, sig)
				run.Eval(1)
				if ok || err != nil {
					run.Violate("C16:signature-verifies-as-pop", fmt.Sprintf("signature of enc(pk) under tag %q verified as PoP (%v,%v)", tag, ok, err), map[string]any{"tag": tag, "k": key.k.String()})
				}
				ok, err = pk.Verify(encE, enc, th)
				run.Eval(1)
				if ok || err != nil {
					run.Violate("C16:pop-verifies-as-signature", fmt.Sprintf("PoP verified as signature under tag %q (%v,%v)", tag, ok, err), map[string]any{"tag": tag, "k": key.k.String()})
				}
				if bytes.Equal(th.ComputeHash(enc), ph.ComputeHash(enc)) {
					run.Violate("C16:expansion-collision", fmt.Sprintf("tag %q expands like the PoP suite", tag), tag)
				}
				run.Shape(fmt.Sprintf("sep|%d", (ti+ki*7)%len(tags)))
				run.Count("tags", 1)
			}
			if ki < 2 {
				run.Sample(map[string]any{"key": key.name, "pop": mon.Hex(encE), "tags_tried": nt})
			}
		}(ki, key)
	}
	wg.Wait()
	// non-BLS keys
	for _, alg := range []crypto.SigningAlgorithm{crypto.ECDSAP256, crypto.ECDSASecp256k1} {
		sk, err := crypto.GeneratePrivateKey(alg, mon.RandBytes(r, 32))
		if err != nil {
			continue
		}
		_, err = crypto.BLSGeneratePOP(sk)
		ok, err2 := crypto.BLSVerifyPOP(sk.PublicKey(), make([]byte, 48))
		run.Eval(2)
		if !crypto.IsNotBLSKeyError(err) || ok || !crypto.IsNotBLSKeyError(err2) {
			run.Violate("C16:non-bls-key", fmt.Sprintf("ECDSA key: GeneratePOP err %v, VerifyPOP (%v,%v)", err, ok, err2), nil)
		}
		run.Shape("non-bls|" + alg.String())
	}
	run.Require(run.Counter("tags") >= 60, "fewer than 60 tag separations exercised")
	_ = big.NewInt
}
