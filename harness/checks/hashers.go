package checks

import (
	"bytes"
	"crypto/sha256"
	"encoding/binary"

	"github.com/onflow/crypto/hash"
)

// ---- harness-defined hashers -------------------------------------------------------

// fixedHasher is a hash.Hasher with a caller-chosen expansion function (for 128-byte
// outputs the library's KMAC would never produce: all zero, all 0xff, chunks >= p).
type fixedHasher struct {
	name string
	size int
	f    func(data []byte, size int) []byte
	buf  []byte
}

func (h *fixedHasher) Algorithm() hash.HashingAlgorithm { return hash.UnknownHashingAlgorithm }
func (h *fixedHasher) Size() int                        { return h.size }
func (h *fixedHasher) ComputeHash(d []byte) hash.Hash   { return h.f(d, h.size) }
func (h *fixedHasher) Write(p []byte) (int, error)      { h.buf = append(h.buf, p...); return len(p), nil }
func (h *fixedHasher) SumHash() hash.Hash               { return h.f(h.buf, h.size) }
func (h *fixedHasher) Reset()                           { h.buf = nil }

func constHasher(name string, b byte, size int) hash.Hasher {
	return &fixedHasher{name: name, size: size, f: func(_ []byte, n int) []byte { return bytes.Repeat([]byte{b}, n) }}
}

// ctrHasher expands with SHA-256 in counter mode; if hi is true the top bytes of both
// 64-byte halves are forced to 0xff so that each chunk is far above p.
func ctrHasher(name string, hi bool, size int) hash.Hasher {
	return &fixedHasher{name: name, size: size, f: func(d []byte, n int) []byte {
		out := make([]byte, 0, n+32)
		for c := uint32(0); len(out) < n; c++ {
			var cb [4]byte
			binary.BigEndian.PutUint32(cb[:], c)
			s := sha256.Sum256(append(append([]byte(name), cb[:]...), d...))
			out = append(out, s[:]...)
		}
		out = out[:n]
		if hi && n >= 128 {
			for _, o := range []int{0, 1, 2, 64, 65, 66} {
				out[o] = 0xff
			}
		}
		return out
	}}
}

// ownBufferHasher is ctrHasher whose ComputeHash/SumHash return the SAME backing array every time (a
// hasher that avoids allocating): a caller must have finished with one digest before asking for the next,
// and the library must not keep referring to a digest after the call that obtained it.
func ownBufferHasher(name string, size int) hash.Hasher {
	inner := ctrHasher(name, false, size).(*fixedHasher)
	own := make([]byte, size)
	return &fixedHasher{name: name, size: size, f: func(d []byte, n int) []byte {
		copy(own, inner.f(d, n))
		return own[:n]
	}}
}

type namedHasher struct {
	name string
	mk   func() hash.Hasher
}

// labelledHasher is a fixedHasher that announces a caller-chosen algorithm identifier (a wrapper that
// truncates or stretches a standard hasher would look like this): what matters to a consumer is Size()
// and the bytes returned, not the label.
type labelledHasher struct {
	fixedHasher
	alg hash.HashingAlgorithm
}

func (h *labelledHasher) Algorithm() hash.HashingAlgorithm { return h.alg }

func newLabelledHasher(alg hash.HashingAlgorithm, size int) hash.Hasher {
	inner := ctrHasher("labelled", false, size).(*fixedHasher)
	return &labelledHasher{fixedHasher: *inner, alg: alg}
}
