package checks

import "bytes"

// Spare-capacity monitor: byte-slice arguments are handed to the library as the front part of a larger
// buffer (len < cap), with a known pattern behind them. A callee that appends to its argument, or writes
// past len, changes the caller's memory without changing any returned value; spareIntact sees it.

const spareLen = 24

func sparePattern(i int) byte { return 0xA5 ^ byte(i*7) }

// withSpare returns a copy of b with spareLen patterned bytes of capacity behind it.
func withSpare(b []byte) []byte {
	buf := make([]byte, len(b)+spareLen)
	copy(buf, b)
	for i := 0; i < spareLen; i++ {
		buf[len(b)+i] = sparePattern(i)
	}
	return buf[:len(b):len(buf)]
}

// spareIntact reports whether s (made by withSpare from orig) still holds orig followed by the pattern.
func spareIntact(s, orig []byte) bool {
	if len(s) != len(orig) || cap(s) < len(s)+spareLen {
		return false
	}
	full := s[:len(s)+spareLen]
	if !bytes.Equal(full[:len(orig)], orig) {
		return false
	}
	for i := 0; i < spareLen; i++ {
		if full[len(orig)+i] != sparePattern(i) {
			return false
		}
	}
	return true
}

// adjacent lays a and b out back to back in one allocation (a's capacity runs into b).
func adjacent(a, b []byte) (sa, sb []byte) {
	buf := make([]byte, len(a)+len(b))
	copy(buf, a)
	copy(buf[len(a):], b)
	return buf[:len(a)], buf[len(a):]
}
