package checks

import (
	"bytes"
	"encoding/binary"
	"fmt"
	"hash/crc32"
	"sync"
	"sync/atomic"
)

// Spare-capacity monitor: byte-slice arguments are handed to the library as the front part of a larger
// buffer (len < cap), with a known pattern behind them. A callee that appends to its argument, or writes
// past len, changes the caller's memory without changing any returned value; spareIntact sees it.

const spareLen = 24

func sparePattern(i int) byte { return 0xA5 ^ byte(i*7) }

// withSpare returns a copy of b with spareLen patterned bytes of capacity behind it.
func withSpare(b []byte) []byte {
	buf := make([]byte, len(b)+spareLen)
	copy(buf, b)
	for i := 0; i < spareLen; i++ {
		buf[len(b)+i] = sparePattern(i)
	}
	return buf[:len(b):len(buf)]
}

// spareIntact reports whether s (made by withSpare from orig) still holds orig followed by the pattern.
func spareIntact(s, orig []byte) bool {
	if len(s) != len(orig) || cap(s) < len(s)+spareLen {
		return false
	}
	full := s[:len(s)+spareLen]
	if !bytes.Equal(full[:len(orig)], orig) {
		return false
	}
	for i := 0; i < spareLen; i++ {
		if full[len(orig)+i] != sparePattern(i) {
			return false
		}
	}
	return true
}

// adjacent lays a and b out back to back in one allocation (a's capacity runs into b).
func adjacent(a, b []byte) (sa, sb []byte) {
	buf := make([]byte, len(a)+len(b))
	copy(buf, a)
	copy(buf[len(a):], b)
	return buf[:len(a)], buf[len(a):]
}

// Reused-buffer monitor: a caller that verifies many candidates typically reads each one into the SAME
// buffer. A callee that keeps a reference to an argument (a cache of "already verified" inputs, a parsed
// object pointing into the input) is invisible while every call gets a fresh slice, and wrong as soon as
// the buffer is overwritten. reusedBufferPass drives call() with the known-valid string and the
// candidates alternately, all through one backing array; judge() returns the expected verdict.
type byteCand struct {
	b    []byte
	kind string
}

func reusedBufferPass(valid []byte, cands []byteCand, call func(sig []byte) (bool, error), expect func(b []byte) bool, report func(kind, what string, b []byte)) (calls int) {
	buf := make([]byte, 0, 512)
	load := func(b []byte) []byte {
		if len(b) > cap(buf) {
			buf = make([]byte, 0, 2*len(b))
		}
		buf = buf[:len(b)]
		copy(buf, b)
		return buf
	}
	one := func(kind string, b []byte) bool {
		arg := load(b)
		ok, err := call(arg)
		calls++
		want := expect(b)
		if err != nil || ok != want {
			report(kind, fmt.Sprintf("with every candidate passed through one reused buffer: verdict (%v,%v), expected %v", ok, err, want), b)
			return false
		}
		if !bytes.Equal(arg, b) {
			report(kind, "the reused argument buffer was modified by the call", b)
			return false
		}
		return true
	}
	if !one("valid-first", valid) {
		return
	}
	for i, c := range cands {
		if !one(c.kind, c.b) {
			return
		}
		if i%3 == 2 && !one("valid-again", valid) {
			return
		}
	}
	// the valid string from a fresh slice, after the buffer last held something else
	fresh := append([]byte{}, valid...)
	ok, err := call(fresh)
	calls++
	if want := expect(valid); err != nil || ok != want {
		report("valid-fresh-slice", fmt.Sprintf("the valid string in a fresh slice after the reused-buffer pass: verdict (%v,%v), expected %v", ok, err, want), valid)
	}
	return
}

// parallelReplay: functions that share no object with their caller (constructors, one-shot helpers, key
// derivation, decoders) are called from many goroutines at once by any server. Each table entry is run
// once alone to record its output, then 16 goroutines replay random entries in tight loops; every output
// must equal the recorded one. A package-level scratch buffer, pool or cache that is not safe under
// parallel use shows as a differing output (or as a crash, which the supervisor reports).
func parallelReplay(table []func() []byte, iters int, seed uint64) (calls int64, firstDiff string) {
	want := make([][]byte, len(table))
	for i, f := range table {
		want[i] = f()
	}
	var wg sync.WaitGroup
	var diff atomic.Value
	var n atomic.Int64
	for g := 0; g < 16; g++ {
		wg.Add(1)
		go func(g int) {
			defer wg.Done()
			x := seed*2654435761 + uint64(g)*40503 + 1
			for i := 0; i < iters && diff.Load() == nil; i++ {
				x ^= x << 13
				x ^= x >> 7
				x ^= x << 17
				k := int(x % uint64(len(table)))
				if g%4 == 3 {
					k = (g + i) % len(table) // some goroutines walk the table in step
				}
				got := table[k]()
				n.Add(1)
				if !bytes.Equal(got, want[k]) {
					diff.CompareAndSwap(nil, fmt.Sprintf("table entry %d: alone it returns %x, among 16 goroutines it returned %x", k, want[k][:min(len(want[k]), 48)], got[:min(len(got), 48)]))
				}
			}
		}(g)
	}
	wg.Wait()
	if d, ok := diff.Load().(string); ok {
		return n.Load(), d
	}
	return n.Load(), ""
}

// crc32Twin returns a string of the same length as s, different from s, with the same CRC-32 (IEEE): the
// four bytes at position at..at+3 of a copy whose byte at+4 was changed are recomputed so that the checksum
// comes out equal. (Identifiers that are told apart by a checksum of their bytes collide on such pairs;
// len(s) >= at+5.) The patch bytes are arbitrary binary.
func crc32Twin(s []byte, at int) []byte {
	tab := crc32.IEEETable
	fwd := func(state uint32, b []byte) uint32 {
		for _, x := range b {
			state = tab[byte(state)^x] ^ (state >> 8)
		}
		return state
	}
	back := func(state uint32, b []byte) uint32 { // state before processing b, given the state after
		for i := len(b) - 1; i >= 0; i-- {
			var idx int
			for j := 0; j < 256; j++ {
				if tab[j]>>24 == state>>24 {
					idx = j
					break
				}
			}
			state = (state^tab[idx])<<8 | uint32(byte(idx)^b[i])
		}
		return state
	}
	t := append([]byte{}, s...)
	t[at+4] ^= 0x5a
	target := fwd(^uint32(0), s)        // internal state after all of s (before the final inversion)
	need := back(target, t[at+4:])      // state required right after the four patch bytes
	w := back(need, []byte{0, 0, 0, 0}) // a state from which four zero bytes lead to `need`
	x := w ^ fwd(^uint32(0), t[:at])    // xor of the patch bytes (little endian) into the running state
	binary.LittleEndian.PutUint32(t[at:], x)
	if crc32.ChecksumIEEE(t) != crc32.ChecksumIEEE(s) || bytes.Equal(t, s) {
		panic("harness: crc32Twin failed to build a collision")
	}
	return t
}

// soloWorkers: in the checks that run their cases on parallel workers, the first few workers run one at a
// time. A defect that lives in process-wide state (a memo of "the last verified signature", a pooled
// buffer) is disturbed by whatever the other workers do between two calls of one sequence; run alone,
// the reused-buffer and call-sequence monitors of those workers see it deterministically.
const soloWorkers = 6
