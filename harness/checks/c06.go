//go:build cgo && !no_cgo

package checks

import (
	"bytes"
	"fmt"
	"math/big"
	"math/rand/v2"
	"sort"
	"sync"

	"github.com/onflow/crypto"

	"verif/harness/mon"
	"verif/harness/ref"
)

type thrGroup struct {
	n, t  int
	sks   []crypto.PrivateKey
	pks   []crypto.PublicKey
	gpk   crypto.PublicKey
	ks    []*big.Int // private shares as integers
	p0    *big.Int   // P(0)
	seed  []byte
	msg   []byte
	tag   string
	H     ref.G1
	E     []byte // enc([P(0)]H)
	share [][]byte
}

func newThrGroup(run *mon.Run, r *rand.Rand, n, t int, refPub int) (*thrGroup, bool) {
	g := &thrGroup{n: n, t: t, seed: mon.RandBytes(r, 32+r.IntN(33)), msg: mon.RandBytes(r, r.IntN(50)), tag: fmt.Sprintf("thr-%d", r.IntN(3))}
	rep := map[string]any{"n": n, "t": t, "seed": mon.Hex(g.seed)}
	var err error
	if run.Guard("BLSThresholdKeyGen", rep, func() { g.sks, g.pks, g.gpk, err = crypto.BLSThresholdKeyGen(n, t, g.seed) }) {
		return nil, false
	}
	run.Eval(1)
	if err != nil || len(g.sks) != n || len(g.pks) != n {
		run.Violate("C06:keygen-error", fmt.Sprintf("BLSThresholdKeyGen(%d,%d) error %v", n, t, err), rep)
		return nil, false
	}
	xs := make([]int64, n)
	for i := range g.sks {
		g.ks = append(g.ks, skScalar(g.sks[i]))
		xs[i] = int64(i + 1)
	}
	// all shares on the polynomial through the first t+1; degree <= t
	g.p0 = ref.InterpolateAt(xs[:t+1], g.ks[:t+1], 0)
	for i := t + 1; i < n; i++ {
		if ref.InterpolateAt(xs[:t+1], g.ks[:t+1], xs[i]).Cmp(g.ks[i]) != 0 {
			run.Violate("C06:shares-not-on-polynomial", fmt.Sprintf("share %d of (n=%d,t=%d) is not on the degree-t polynomial through shares 0..t", i, n, t), rep)
			return nil, false
		}
	}
	// the dealt polynomial is a random one of degree exactly t: its t+1 coefficients (recovered from the
	// first t+1 shares) are all non-zero and pairwise distinct - a zero, repeated or missing coefficient
	// has probability about t^2 / 2^255 for a polynomial drawn as documented
	if t <= 40 {
		co := polyCoeffs(xs[:t+1], g.ks[:t+1])
		seen := map[string]int{}
		for i, c := range co {
			if c.Sign() == 0 {
				run.Violate("C06:keygen-polynomial:zero-coefficient", fmt.Sprintf("BLSThresholdKeyGen(%d,%d): coefficient a_%d of the dealt polynomial is zero (the polynomial is documented as random of degree t with non-zero a_0 and a_t)", n, t, i), rep)
				break
			}
			if j, dup := seen[c.String()]; dup {
				run.Violate("C06:keygen-polynomial:repeated-coefficient", fmt.Sprintf("BLSThresholdKeyGen(%d,%d): coefficients a_%d and a_%d of the dealt polynomial are equal", n, t, j, i), rep)
				break
			}
			seen[c.String()] = i
		}
		run.Count("keygen.polynomials-recovered", 1)
	}
	// each private share matches its public share (library Equals always; reference [sk]g2 on a sample)
	cv := measuredConv()
	for i := range g.sks {
		if !g.sks[i].PublicKey().Equals(g.pks[i]) {
			run.Violate("C06:share-public-mismatch", fmt.Sprintf("private share %d does not match its public share", i), rep)
		}
	}
	idxs := r.Perm(n)
	if refPub < n {
		idxs = idxs[:refPub]
	}
	for _, i := range idxs {
		run.Eval(1)
		if want := ref.EncodeG2(ref.E2.Mul(ref.G2Gen, g.ks[i]), cv); !bytes.Equal(g.pks[i].Encode(), want) {
			run.Violate("C06:public-share-value", fmt.Sprintf("public share %d differs from reference [sk_%d]g2", i, i), rep)
		}
	}
	run.Eval(1)
	if want := ref.EncodeG2(ref.E2.Mul(ref.G2Gen, g.p0), cv); !bytes.Equal(g.gpk.Encode(), want) {
		run.Violate("C06:group-key-value", "group public key differs from reference [P(0)]g2", rep)
	}
	h := crypto.NewExpandMsgXOFKMAC128(g.tag)
	H, err := hashPoint(g.msg, h, "kmac:"+g.tag)
	if err != nil {
		run.Violate("C06:hash-point", err.Error(), nil)
		return nil, false
	}
	g.H = H
	g.E = ref.EncodeG1(ref.E1.Mul(H, g.p0))
	for i := range g.sks {
		s, err := g.sks[i].Sign(g.msg, h)
		if err != nil {
			return nil, false
		}
		g.share = append(g.share, s)
	}
	return g, true
}

// reconstructStateless checks one signer list through the stateless API.
func (g *thrGroup) reconstructStateless(run *mon.Run, signers []int, label string) {
	shares := make([]crypto.Signature, len(signers))
	for i, s := range signers {
		shares[i] = g.share[s]
	}
	rep := map[string]any{"n": g.n, "t": g.t, "seed": mon.Hex(g.seed), "signers": signers, "msg": mon.Hex(g.msg), "tag": g.tag, "api": "stateless", "pattern": label}
	var out crypto.Signature
	var err error
	// every other reconstruction is preceded, on this goroutine, by calls that are REJECTED (duplicate
	// signer behind good entries, index out of range, a short share, too few shares): what they leave
	// behind must not reach the next result
	if (len(signers)+signers[0]+len(label))%2 == 1 && len(signers) >= 2 {
		run.Count("reconstructions.after-rejected-calls", 1)
		dup := append(append([]int{}, signers...), signers[len(signers)-1])
		dupShares := append(append([]crypto.Signature{}, shares...), shares[len(shares)-1])
		_, _ = crypto.BLSReconstructThresholdSignature(g.n, g.t, dupShares, dup)
		oor := append([]int{}, signers...)
		oor[len(oor)-1] = g.n
		_, _ = crypto.BLSReconstructThresholdSignature(g.n, g.t, shares, oor)
		short := append([]crypto.Signature{}, shares...)
		short[len(short)-1] = short[len(short)-1][:47]
		_, _ = crypto.BLSReconstructThresholdSignature(g.n, g.t, short, signers)
		_, _ = crypto.BLSReconstructThresholdSignature(g.n, g.t, shares[:1], signers[:1])
		_, _ = crypto.BLSReconstructThresholdSignature(g.n, g.t, shares, signers[:len(signers)-1])
	}
	if run.Guard("BLSReconstructThresholdSignature", rep, func() { out, err = crypto.BLSReconstructThresholdSignature(g.n, g.t, shares, signers) }) {
		return
	}
	run.Eval(1)
	run.Count("reconstructions.stateless", 1)
	if err != nil || !bytes.Equal(out, g.E) {
		run.Violate("C06:stateless-reconstruction:"+label, fmt.Sprintf("BLSReconstructThresholdSignature(n=%d,t=%d,signers=%v) = %x (err %v), reference [P(0)]H = %x", g.n, g.t, signers, []byte(out), err, g.E), rep)
	}
}

func (g *thrGroup) inspector() (crypto.ThresholdSignatureInspector, error) {
	return crypto.NewBLSThresholdSignatureInspector(g.gpk, g.pks, g.t, g.msg, g.tag)
}

// reconstructStateful feeds the signer list to a fresh stateful object.
func (g *thrGroup) reconstructStateful(run *mon.Run, signers []int, trusted bool, participant bool, label string) {
	rep := map[string]any{"n": g.n, "t": g.t, "seed": mon.Hex(g.seed), "signers": signers, "msg": mon.Hex(g.msg), "tag": g.tag, "api": "stateful", "trusted": trusted, "pattern": label}
	var ins crypto.ThresholdSignatureInspector
	var err error
	if participant {
		me := signers[0]
		ins, err = crypto.NewBLSThresholdSignatureParticipant(g.gpk, g.pks, g.t, me, g.sks[me], g.msg, g.tag)
	} else {
		ins, err = g.inspector()
	}
	if err != nil {
		run.Violate("C06:constructor", err.Error(), rep)
		return
	}
	// every other object gets its shares the way a receive loop delivers them: read into ONE buffer that
	// is overwritten by the next share; and the message buffer given to the constructor is overwritten
	// once the object exists. The object must have taken what it needs.
	reuse := (len(signers)+signers[0])%2 == 0 && !participant
	var shareBuf []byte
	if reuse {
		run.Count("reconstructions.stateful-with-reused-buffers", 1)
		msgBuf := append([]byte{}, g.msg...)
		ins, err = crypto.NewBLSThresholdSignatureInspector(g.gpk, g.pks, g.t, msgBuf, g.tag)
		if err != nil {
			run.Violate("C06:constructor", err.Error(), rep)
			return
		}
		for i := range msgBuf {
			msgBuf[i] ^= 0x77
		}
		shareBuf = make([]byte, 48)
		rep["reused_buffers"] = true
	}
	// controlOK: the same shares from fresh slices on a fresh object reconstruct correctly (so a failure
	// seen with reused buffers is about the buffers, not about the reconstruction itself)
	controlOK := func() bool {
		c, e := g.inspector()
		if e != nil {
			return false
		}
		for _, sg := range signers {
			_, _ = c.TrustedAdd(sg, append([]byte{}, g.share[sg]...))
		}
		o, e := c.ThresholdSignature()
		return e == nil && bytes.Equal(o, g.E)
	}
	run.Guard("stateful-sequence", rep, func() {
		defer func() {
			for i := range shareBuf {
				shareBuf[i] = 0xEE
			}
		}()
		for i, s := range signers {
			if _, e := ins.ThresholdSignature(); i <= g.t && !crypto.IsNotEnoughSharesError(e) {
				run.Violate("C06:not-enough-shares-error", fmt.Sprintf("ThresholdSignature with %d < t+1 shares: error %v", i, e), rep)
			}
			if ins.EnoughShares() != (i > g.t) {
				run.Violate("C06:enough-shares", fmt.Sprintf("EnoughShares()=%v after %d adds (t=%d)", ins.EnoughShares(), i, g.t), rep)
			}
			var enough, valid bool
			shareArg := crypto.Signature(g.share[s])
			if reuse {
				copy(shareBuf, g.share[s])
				shareArg = shareBuf
			}
			if trusted {
				enough, err = ins.TrustedAdd(s, shareArg)
				valid = true
			} else {
				valid, enough, err = ins.VerifyAndAdd(s, shareArg)
			}
			if reuse && (err != nil || !valid || enough != (i+1 > g.t)) && controlOK() {
				run.Violate("C06:stateful-object-keeps-callers-buffers", fmt.Sprintf("the message buffer was overwritten after construction and shares arrive in one reused buffer: add #%d of signer %d (a valid share): valid=%v enough=%v err=%v", i, s, valid, enough, err), rep)
				return
			}
			if err != nil || !valid || enough != (i+1 > g.t) {
				run.Violate("C06:add-result", fmt.Sprintf("add #%d of signer %d: valid=%v enough=%v err=%v", i, s, valid, enough, err), rep)
			}
		}
		out, err := ins.ThresholdSignature()
		// the returned slice is the caller's: scribbling on it must not change what the object returns later
		scribble := append([]byte{}, out...)
		for i := range out {
			out[i] ^= 0xA5
		}
		out2, err2 := ins.ThresholdSignature()
		out = scribble
		if err == nil && err2 == nil && bytes.Equal(scribble, g.E) && !bytes.Equal(out2, g.E) {
			xored := append([]byte{}, scribble...)
			for i := range xored {
				xored[i] ^= 0xA5
			}
			if bytes.Equal(out2, xored) {
				run.Violate("C06:returned-signature-aliases-cache", fmt.Sprintf("ThresholdSignature() returned %x; after the caller overwrote that slice, the next call returns the overwritten bytes %x (an invalid signature)", scribble, []byte(out2)), rep)
				return
			}
		}
		run.Eval(1)
		run.Count("reconstructions.stateful", 1)
		if reuse && (err != nil || err2 != nil || !bytes.Equal(out, g.E) || !bytes.Equal(out2, g.E)) && controlOK() {
			run.Violate("C06:stateful-object-keeps-callers-buffers", fmt.Sprintf("t+1 valid shares were added from one receive buffer (overwritten by each next share) and the message buffer was overwritten after construction: ThresholdSignature (signers=%v) = %x (err %v), reference %x", signers, []byte(out), err, g.E), rep)
			return
		}
		if err != nil || err2 != nil || !bytes.Equal(out, g.E) || !bytes.Equal(out2, g.E) {
			run.Violate("C06:stateful-reconstruction:"+label, fmt.Sprintf("ThresholdSignature (signers=%v) = %x (err %v), reference %x", signers, []byte(out), err, g.E), rep)
		}
		ok, err := ins.VerifyThresholdSignature(g.E)
		if !ok || err != nil {
			run.Violate("C06:group-signature-invalid", "reference group signature does not verify under the group key", rep)
		}
		// objects that reconstructed earlier (other groups, other messages) are asked again after this one
		// did: what one object returned once it keeps returning, whatever other objects do in between
		for _, old := range olderInspectors(ins, g.E) {
			got, e := old.ins.ThresholdSignature()
			run.Eval(1)
			run.Count("reconstructions.older-object-asked-again", 1)
			if e != nil || !bytes.Equal(got, old.want) {
				run.Violate("C06:stateful-object-disturbed-by-another-object", fmt.Sprintf("an object that had returned the threshold signature %x returns (%x, %v) after OTHER objects reconstructed theirs", old.want, []byte(got), e), rep)
				return
			}
		}
	})
}

type keptInspector struct {
	ins  crypto.ThresholdSignatureInspector
	want []byte
}

var (
	keptMu   sync.Mutex
	keptRing []keptInspector
)

// olderInspectors registers (ins, want) and returns up to three objects registered earlier.
func olderInspectors(ins crypto.ThresholdSignatureInspector, want []byte) []keptInspector {
	keptMu.Lock()
	defer keptMu.Unlock()
	var out []keptInspector
	for i := len(keptRing) - 1; i >= 0 && len(out) < 3; i -= 1 + len(keptRing)/7 {
		out = append(out, keptRing[i])
	}
	keptRing = append(keptRing, keptInspector{ins, append([]byte{}, want...)})
	if len(keptRing) > 64 {
		keptRing = keptRing[len(keptRing)-64:]
	}
	return out
}

// c06CraftedPolynomials: groups whose polynomial is chosen by the harness (any t+1 share values define
// one) so that, for a given signer order, the Lagrange-weighted terms L_k*S_k of the interpolation
// coincide (two equal terms, a term equal to the sum of the previous ones) or cancel (opposite terms, a
// partial sum at infinity). All shares are valid shares of that polynomial, so the promise of the property
// applies unchanged: every qualifying set reconstructs enc([P(0)]H), statelessly and statefully.
func c06CraftedPolynomials(run *mon.Run) {
	type job struct {
		n, t     int
		relation string
		a, b     int // positions in the signer list
	}
	var jobs []job
	for _, nt := range [][2]int{{2, 1}, {3, 1}, {3, 2}, {4, 2}, {4, 3}, {5, 3}, {6, 4}, {9, 4}, {9, 7}, {12, 8}, {20, 9}} {
		n, t := nt[0], nt[1]
		if run.Quick() && t > 4 && t != 8 {
			continue
		}
		for a := 0; a <= t; a++ {
			for b := a + 1; b <= t; b++ {
				if run.Quick() && t > 3 && (a+b)%3 != 0 {
					continue
				}
				jobs = append(jobs, job{n, t, "equal-terms", a, b})
				if t >= 2 {
					jobs = append(jobs, job{n, t, "opposite-terms", a, b})
				}
			}
		}
		for m := 2; m <= t; m++ {
			jobs = append(jobs, job{n, t, "term-equals-prefix-sum", 0, m}, job{n, t, "term-cancels-prefix-sum", 0, m})
		}
	}
	var wg sync.WaitGroup
	sem := make(chan struct{}, 16)
	for ji, j := range jobs {
		wg.Add(1)
		sem <- struct{}{}
		go func(ji int, j job) {
			defer wg.Done()
			defer func() { <-sem }()
			defer run.Protect("c06 crafted")
			r := run.Rand(fmt.Sprintf("crafted-%d", ji))
			for attempt := 0; attempt < 8; attempt++ {
				signers := r.Perm(j.n)[:j.t+1]
				xs := make([]int64, j.t+1)
				for k, sgn := range signers {
					xs[k] = int64(sgn + 1)
				}
				L := make([]*big.Int, j.t+1)
				for k := range L {
					unit := make([]*big.Int, j.t+1)
					for m := range unit {
						unit[m] = new(big.Int)
					}
					unit[k] = big.NewInt(1)
					L[k] = ref.InterpolateAt(xs, unit, 0)
				}
				ys := make([]*big.Int, j.t+1)
				for k := range ys {
					ys[k] = randScalar(r)
				}
				switch j.relation {
				case "equal-terms": // L_b*y_b = L_a*y_a
					ys[j.b] = ref.Fr.Mul(ref.Fr.Mul(L[j.a], ys[j.a]), ref.Fr.Inv(L[j.b]))
				case "opposite-terms":
					ys[j.b] = ref.Fr.Neg(ref.Fr.Mul(ref.Fr.Mul(L[j.a], ys[j.a]), ref.Fr.Inv(L[j.b])))
				default:
					sum := new(big.Int)
					for k := 0; k < j.b; k++ {
						sum = ref.Fr.Add(sum, ref.Fr.Mul(L[k], ys[k]))
					}
					v := ref.Fr.Mul(sum, ref.Fr.Inv(L[j.b]))
					if j.relation == "term-cancels-prefix-sum" {
						v = ref.Fr.Neg(v)
					}
					ys[j.b] = v
				}
				p0 := ref.InterpolateAt(xs, ys, 0)
				all := make([]*big.Int, j.n)
				okAll := p0.Sign() != 0
				for i := 0; i < j.n && okAll; i++ {
					all[i] = ref.InterpolateAt(xs, ys, int64(i+1))
					okAll = all[i].Sign() != 0
				}
				if !okAll {
					continue // a zero secret or share: draw again
				}
				g := &thrGroup{n: j.n, t: j.t, seed: []byte("crafted"), msg: mon.RandBytes(r, 20), tag: "thr-crafted", ks: all, p0: p0}
				for i := 0; i < j.n; i++ {
					sk := skFromInt(all[i])
					g.sks = append(g.sks, sk)
					g.pks = append(g.pks, sk.PublicKey())
				}
				g.gpk = skFromInt(p0).PublicKey()
				h := crypto.NewExpandMsgXOFKMAC128(g.tag)
				H, err := hashPoint(g.msg, h, "kmac:"+g.tag)
				if err != nil {
					run.Violate("C06:hash-point", err.Error(), nil)
					return
				}
				g.H = H
				g.E = ref.EncodeG1(ref.E1.Mul(H, p0))
				for i := range g.sks {
					sg, err := g.sks[i].Sign(g.msg, h)
					if err != nil {
						return
					}
					g.share = append(g.share, sg)
				}
				label := "crafted-polynomial:" + j.relation
				g.reconstructStateless(run, signers, label)
				g.reconstructStateful(run, signers, ji%2 == 0, false, label)
				// the same set in reversed order and with the two related signers first
				rev := make([]int, len(signers))
				for k := range signers {
					rev[k] = signers[len(signers)-1-k]
				}
				g.reconstructStateless(run, rev, label)
				front := append([]int{signers[j.a], signers[j.b]}, signers...)
				front = dedupInts(front)
				g.reconstructStateless(run, front, label)
				g.reconstructStateful(run, front, ji%2 == 1, false, label)
				run.Count("crafted-polynomial.groups", 1)
				run.Shape(fmt.Sprintf("crafted|%d|%d|%s", j.n, j.t, j.relation))
				if ji < 2 {
					run.Sample(map[string]any{"crafted_polynomial_relation": j.relation, "n": j.n, "t": j.t, "signers": signers, "positions": []int{j.a, j.b}})
				}
				return
			}
		}(ji, j)
	}
	wg.Wait()
	run.Require(run.Counter("crafted-polynomial.groups") >= int64(len(jobs)*9/10), "crafted-polynomial groups incomplete")
}

// c06EveryThreshold: the stateless reconstruction for EVERY threshold t = 1..253 (quick: every t up to
// 72 and every fourth above), with t+1 shares of a harness-chosen degree-t polynomial held by signers
// spread over 0..253 in a shuffled order. A boundary in the interpolation code (limb batches, stack
// buffers, window tables) sits at some exact number of shares; the sampled groups of the main leg hit
// only a few of them.
func c06EveryThreshold(run *mon.Run) {
	h := crypto.NewExpandMsgXOFKMAC128("thr-every")
	msg := []byte("every threshold")
	H, err := hashPoint(msg, h, "kmac:thr-every")
	if err != nil {
		run.Violate("C06:hash-point", err.Error(), nil)
		return
	}
	var wg sync.WaitGroup
	sem := make(chan struct{}, 16)
	for t := 1; t <= 253; t++ {
		if run.Quick() && t > 72 && t%4 != 1 && t < 250 {
			continue
		}
		wg.Add(1)
		sem <- struct{}{}
		go func(t int) {
			defer wg.Done()
			defer func() { <-sem }()
			defer run.Protect("c06 every-threshold")
			r := run.Rand(fmt.Sprintf("every-t-%d", t))
			n := 254
			if t%3 == 0 {
				n = t + 1 + r.IntN(254-t)
			}
			coef := make([]*big.Int, t+1)
			for i := range coef {
				coef[i] = randScalar(r)
			}
			eval := func(x int64) *big.Int {
				acc := new(big.Int)
				xx := big.NewInt(x)
				for i := t; i >= 0; i-- {
					acc = ref.Fr.Add(ref.Fr.Mul(acc, xx), coef[i])
				}
				return acc
			}
			signers := r.Perm(n)[:t+1]
			if t%5 == 0 {
				sort.Ints(signers)
			}
			shares := make([]crypto.Signature, t+1)
			for k, sg := range signers {
				y := eval(int64(sg + 1))
				if y.Sign() == 0 {
					return
				}
				s, err := skFromInt(y).Sign(msg, h)
				if err != nil {
					return
				}
				shares[k] = s
			}
			want := ref.EncodeG1(ref.E1.Mul(H, coef[0]))
			rep := map[string]any{"n": n, "t": t, "signers": signers, "secret": coef[0].Text(16)}
			var out crypto.Signature
			var e error
			if run.Guard("BLSReconstructThresholdSignature", rep, func() { out, e = crypto.BLSReconstructThresholdSignature(n, t, shares, signers) }) {
				return
			}
			run.Eval(1)
			run.Count("every-threshold.values", 1)
			if e != nil || !bytes.Equal(out, want) {
				run.Violate("C06:stateless-reconstruction:every-threshold", fmt.Sprintf("BLSReconstructThresholdSignature(n=%d, t=%d) from %d valid shares = %x (err %v), reference [P(0)]H = %x", n, t, t+1, []byte(out), e, want), rep)
			}
			if t%16 == 0 {
				run.Shape(fmt.Sprintf("every-threshold|%d", t))
			}
		}(t)
	}
	wg.Wait()
	run.Require(run.Counter("every-threshold.values") >= 100, "threshold sweep incomplete")
}

// c06ParameterGrid: the documented parameter ranges (size in [2, 254], threshold in [1, size-1], own
// index in [0, size-1]) decide exactly which calls of the key generation, the two constructors and the
// stateless reconstruction are refused with an invalid-inputs error; everything inside the ranges is
// accepted - in particular the corners (2,1), (254,1), (254,253) - and an accepted key generation
// returns `size` shares.
func c06ParameterGrid(run *mon.Run) {
	// the stateless EnoughShares(threshold, shares): an invalid-inputs error (and false) below the minimum
	// threshold, otherwise exactly shares > threshold
	for _, t := range []int{-1 << 31, -2, -1, 0, 1, 2, 3, 127, 128, 253, 254, 255, 256, 1 << 20} {
		for _, k := range []int{-1, 0, 1, 2, t - 1, t, t + 1, t + 2, 254, 255} {
			ok, err := crypto.EnoughShares(t, k)
			run.Eval(1)
			switch {
			case t < 1 && (ok || !crypto.IsInvalidInputsError(err)):
				run.Violate("C06:enough-shares:stateless:illegal-threshold", fmt.Sprintf("EnoughShares(threshold=%d, shares=%d) = (%v, %v): an invalid-inputs error with false is documented", t, k, ok, err), nil)
			case t >= 1 && (err != nil || ok != (k > t)):
				run.Violate("C06:enough-shares:stateless", fmt.Sprintf("EnoughShares(threshold=%d, shares=%d) = (%v, %v), expected (%v, nil)", t, k, ok, err, k > t), nil)
			}
		}
	}
	run.Shape("enough-shares|stateless")
	sizes := []int{-1, 0, 1, 2, 3, 4, 127, 128, 253, 254, 255, 256, 257, 510, 1 << 16, 1<<31 + 2}
	pool := make([]crypto.PublicKey, 8)
	for i := range pool {
		pool[i] = skFromInt(big.NewInt(int64(77 + i))).PublicKey()
	}
	sk := skFromInt(big.NewInt(77))
	seed := bytes.Repeat([]byte{5}, 32)
	sig, _ := sk.Sign([]byte("m"), crypto.NewExpandMsgXOFKMAC128("grid"))
	for _, n := range sizes {
		ths := []int{-1, 0, 1, 2, n / 2, n - 2, n - 1, n, n + 1, 253, 254, 255, 256}
		for _, t := range ths {
			inRange := n >= 2 && n <= 254 && t >= 1 && t <= n-1
			rep := map[string]any{"size": n, "threshold": t}
			judge := func(api string, err error) {
				run.Eval(1)
				if inRange && err != nil {
					run.Violate("C06:parameter-grid:refuses-legal:"+api, fmt.Sprintf("%s(size=%d, threshold=%d) is inside the documented ranges and returned %v", api, n, t, err), rep)
				}
				if !inRange && !crypto.IsInvalidInputsError(err) {
					run.Violate("C06:parameter-grid:accepts-illegal:"+api, fmt.Sprintf("%s(size=%d, threshold=%d) is outside the documented ranges and returned error %v (an invalid-inputs error is documented)", api, n, t, err), rep)
				}
			}
			if n <= 300 { // (key generation and key lists are linear in size)
				var sks []crypto.PrivateKey
				var err error
				if !run.Guard("BLSThresholdKeyGen", rep, func() { sks, _, _, err = crypto.BLSThresholdKeyGen(n, t, seed) }) {
					judge("BLSThresholdKeyGen", err)
					if err == nil && len(sks) != n {
						run.Violate("C06:parameter-grid:share-count", fmt.Sprintf("BLSThresholdKeyGen(%d,%d) returned %d shares", n, t, len(sks)), rep)
					}
				}
				if n >= 0 {
					pks := make([]crypto.PublicKey, n)
					for i := range pks {
						pks[i] = pool[i%len(pool)]
					}
					if !run.Guard("NewBLSThresholdSignatureInspector", rep, func() { _, err = crypto.NewBLSThresholdSignatureInspector(pool[0], pks, t, []byte("m"), "grid") }) {
						judge("NewBLSThresholdSignatureInspector", err)
					}
					for _, me := range []int{-1, 0, n - 1, n, 255, 256} {
						meOK := me >= 0 && me < n
						var e error
						pksMe := append([]crypto.PublicKey{}, pks...)
						if meOK {
							pksMe[me] = pool[0] // the participant's own public key share must match its private key
						}
						if run.Guard("NewBLSThresholdSignatureParticipant", rep, func() {
							_, e = crypto.NewBLSThresholdSignatureParticipant(pool[0], pksMe, t, me, sk, []byte("m"), "grid")
						}) {
							continue
						}
						run.Eval(1)
						if inRange && meOK && e != nil {
							run.Violate("C06:parameter-grid:refuses-legal:NewBLSThresholdSignatureParticipant", fmt.Sprintf("size=%d threshold=%d index=%d: %v", n, t, me, e), rep)
						}
						if (!inRange || !meOK) && !crypto.IsInvalidInputsError(e) {
							run.Violate("C06:parameter-grid:accepts-illegal:NewBLSThresholdSignatureParticipant", fmt.Sprintf("size=%d threshold=%d index=%d outside the documented ranges: error %v", n, t, me, e), rep)
						}
					}
				}
			}
			// stateless reconstruction: illegal (size, threshold) must be refused before anything else
			if !inRange {
				k := min(max(t+1, 1), 300)
				shares := make([]crypto.Signature, k)
				signers := make([]int, k)
				for i := range shares {
					shares[i], signers[i] = sig, i
				}
				var err error
				if !run.Guard("BLSReconstructThresholdSignature", rep, func() { _, err = crypto.BLSReconstructThresholdSignature(n, t, shares, signers) }) {
					run.Eval(1)
					if !crypto.IsInvalidInputsError(err) && !crypto.IsNotEnoughSharesError(err) {
						run.Violate("C06:parameter-grid:accepts-illegal:BLSReconstructThresholdSignature", fmt.Sprintf("size=%d threshold=%d outside the documented ranges: error %v", n, t, err), rep)
					}
				}
			}
			run.Count("parameter-grid.points", 1)
		}
	}
	run.Shape("parameter-grid")
}

func dedupInts(xs []int) []int {
	seen := map[int]bool{}
	var out []int
	for _, x := range xs {
		if !seen[x] {
			seen[x] = true
			out = append(out, x)
		}
	}
	return out
}

func subsetsOfSizeAtLeast(n, min int) [][]int {
	var out [][]int
	for mask := 0; mask < 1<<n; mask++ {
		var s []int
		for i := 0; i < n; i++ {
			if mask&(1<<i) != 0 {
				s = append(s, i)
			}
		}
		if len(s) >= min {
			out = append(out, s)
		}
	}
	return out
}

// limbPatterns are signer index lists aimed at the 8-index batching of the Lagrange code.
func limbPatterns(r *rand.Rand, n, t int) map[string][]int {
	m := map[string][]int{}
	k := t + 1
	asc := make([]int, k)
	for i := range asc {
		asc[i] = i
	}
	m["ascending-low"] = asc
	top := make([]int, k)
	for i := range top {
		top[i] = n - k + i
	}
	m["top-block"] = top
	desc := make([]int, k)
	for i := range desc {
		desc[i] = n - 1 - i
	}
	m["descending"] = desc
	alt := make([]int, 0, k)
	for lo, hi := 0, n-1; len(alt) < k; lo, hi = lo+1, hi-1 {
		alt = append(alt, lo)
		if len(alt) < k {
			alt = append(alt, hi)
		}
	}
	m["alternating-low-high"] = alt
	fl := append([]int{n - 1}, asc[:k-1]...)
	m["first-largest"] = fl
	rnd := r.Perm(n)[:k]
	m["random"] = rnd
	srt := append([]int{}, rnd...)
	sort.Ints(srt)
	m["random-sorted"] = srt
	if n > k {
		m["surplus"] = r.Perm(n)[:min(n, k+1+r.IntN(n-k))]
	}
	return m
}

// C06: threshold shares and reconstruction.
func C06(run *mon.Run) {
	run.Rule = "all (n,t) with 2<=n<=7 and every signer subset of size >= t+1 (all orders for size <= 4), plus n in {8,9,16,17,64,254} with index patterns aimed at the 8-index limb batching; stateless and stateful (TrustedAdd / VerifyAndAdd, inspector / participant); invalid share kinds at every position; shape = (n, t, pattern or subset, api)"
	run.Assumptions = []string{"reference Lagrange interpolation in F_r over the private shares; group signature = enc([P(0)]H(m)) by reference G1 arithmetic", "for the stateless API nothing is asserted about the value when an input share is invalid (property is silent)"}
	var wg sync.WaitGroup
	sem := make(chan struct{}, 16)
	var pairs [][2]int
	for n := 2; n <= run.Pick(7, 9); n++ { // (the thorough tier goes to n = 9: 2^9 subsets per threshold)
		for t := 1; t < n; t++ {
			pairs = append(pairs, [2]int{n, t})
		}
	}
	for pi, p := range pairs {
		wg.Add(1)
		sem <- struct{}{}
		go func(pi int, n, t int) {
			defer wg.Done()
			defer func() { <-sem }()
			defer run.Protect("c06 worker")
			r := run.Rand(fmt.Sprintf("small-%d-%d", n, t))
			g, ok := newThrGroup(run, r, n, t, run.Pick(2, n))
			if !ok {
				return
			}
			for si, sub := range subsetsOfSizeAtLeast(n, t+1) {
				orders := [][]int{sub}
				if len(sub) <= 4 {
					orders = nil
					for _, pm := range allPerms(len(sub)) {
						o := make([]int, len(sub))
						for i, j := range pm {
							o[i] = sub[j]
						}
						orders = append(orders, o)
					}
				} else {
					orders = append(orders, permute(r, sub), permute(r, sub))
				}
				for oi, o := range orders {
					g.reconstructStateless(run, o, "subset")
					if oi < 2 || run.Pick(0, 1) == 1 {
						g.reconstructStateful(run, o[:min(len(o), t+1)], (si+oi)%2 == 0, oi%3 == 2, "subset")
					}
				}
				run.Shape(fmt.Sprintf("%d|%d|subset%d", n, t, si))
			}
			c06InvalidShares(run, r, g)
			c06Errors(run, r, g)
			run.Count("small-pairs", 1)
			if pi < 2 {
				run.Sample(map[string]any{"n": n, "t": t, "seed": mon.Hex(g.seed), "group_signature": mon.Hex(g.E)})
			}
		}(pi, p[0], p[1])
	}
	wg.Wait()
	// larger groups
	type big struct{ n, t int }
	var bigs []big
	for _, n := range []int{8, 9, 16, 17, 64, 254} {
		for _, k := range []int{8, 9, 16, 17, 24} {
			if k <= n {
				bigs = append(bigs, big{n, k - 1})
			}
		}
		bigs = append(bigs, big{n, 1}, big{n, n - 1})
	}
	if !run.Quick() {
		for i := 0; i < 40; i++ {
			r := run.Rand(fmt.Sprintf("bigpick-%d", i))
			n := 10 + r.IntN(245)
			bigs = append(bigs, big{n, 1 + r.IntN(n-1)})
		}
		bigs = append(bigs, big{254, 253}, big{254, 127}, big{255 - 1, 200})
	}
	for bi, b := range bigs {
		wg.Add(1)
		sem <- struct{}{}
		go func(bi int, n, t int) {
			defer wg.Done()
			defer func() { <-sem }()
			defer run.Protect("c06 worker")
			r := run.Rand(fmt.Sprintf("big-%d-%d-%d", bi, n, t))
			g, ok := newThrGroup(run, r, n, t, run.Pick(1, 4))
			if !ok {
				return
			}
			for name, signers := range limbPatterns(r, n, t) {
				g.reconstructStateless(run, signers, name)
				g.reconstructStateful(run, signers[:t+1], bi%2 == 0, bi%3 == 0, name)
				run.Shape(fmt.Sprintf("%d|%d|%s", n, t, name))
				run.Count("pattern."+name, 1)
			}
			if t <= 24 {
				c06InvalidShares(run, r, g)
			}
		}(bi, b.n, b.t)
	}
	wg.Wait()
	c06CraftedPolynomials(run)
	c06EveryThreshold(run)
	c06ParameterGrid(run)
	c06IdentityKeyShare(run)
	run.Require(run.Counter("small-pairs") == int64(len(pairs)), "not every (n,t) pair with n<=7 completed")
	for _, p := range []string{"ascending-low", "top-block", "descending", "alternating-low-high", "first-largest", "random"} {
		run.Require(run.Counter("pattern."+p) > 0, "limb pattern not exercised: "+p)
	}
}

// c06InvalidShares: one invalid share at every position of a qualifying set.
// c06CompensatingLengths: two adjacent shares of wrong lengths that add up to 96 bytes (47+49, 40+56,
// 0+96, 95+1) cut out of two valid shares, so that the concatenation of the list is exactly what the
// valid list would give. Neither entry is a signature share: both APIs must answer with an error, never
// with a signature (a length check on the flattened list instead of each entry would let them through).
func c06CompensatingLengths(run *mon.Run, r *rand.Rand, g *thrGroup) {
	if g.t < 1 {
		return
	}
	signers := r.Perm(g.n)[:g.t+1]
	for _, cut := range []int{47, 40, 0, 95, 1, 49, 96} {
		pos := r.IntN(g.t) // entries pos and pos+1
		shares := make([]crypto.Signature, len(signers))
		for i, s := range signers {
			shares[i] = g.share[s]
		}
		both := append(append([]byte{}, shares[pos]...), shares[pos+1]...)
		shares[pos], shares[pos+1] = both[:cut], both[cut:]
		rep := map[string]any{"n": g.n, "t": g.t, "seed": mon.Hex(g.seed), "signers": signers, "pos": pos, "lengths": []int{cut, 96 - cut}}
		var out crypto.Signature
		var err error
		if !run.Guard("BLSReconstructThresholdSignature(compensating lengths)", rep, func() { out, err = crypto.BLSReconstructThresholdSignature(g.n, g.t, shares, signers) }) {
			run.Eval(1)
			if err == nil {
				run.Violate("C06:compensating-share-lengths:stateless", fmt.Sprintf("BLSReconstructThresholdSignature with shares of %d and %d bytes at positions %d, %d returned %x without an error", cut, 96-cut, pos, pos+1, []byte(out)), rep)
			}
		}
		ins, e := g.inspector()
		if e != nil {
			return
		}
		run.Guard("stateful(compensating lengths)", rep, func() {
			for i, s := range signers {
				_, _ = ins.TrustedAdd(s, shares[i])
			}
			for k := 0; k < 6; k++ { // (the object iterates over a map: several tries)
				out, err := ins.ThresholdSignature()
				run.Eval(1)
				if err == nil {
					run.Violate("C06:compensating-share-lengths:stateful", fmt.Sprintf("ThresholdSignature after TrustedAdd of shares of %d and %d bytes returned %x without an error", cut, 96-cut, []byte(out)), rep)
					return
				}
			}
		})
		run.Count("compensating-lengths.cases", 1)
	}
	run.Shape("compensating-share-lengths")
}

// c06InconsistentKeys: objects whose group key does not belong to the public key shares (the group key
// of another key generation; a caller that replaces an entry of its key-share slice after construction and
// lets that signer sign with the new key). Every share is added through VerifyAndAdd and is accepted as
// valid for its signer - the object must still never hand out a signature that fails under its group key.
func c06InconsistentKeys(run *mon.Run, r *rand.Rand, g *thrGroup) {
	other, ok := newThrGroup(run, r, g.n, g.t, 0)
	if !ok {
		return
	}
	h := crypto.NewExpandMsgXOFKMAC128(g.tag)
	for variant := 0; variant < 3; variant++ {
		pks := append([]crypto.PublicKey{}, g.pks...)
		gpk := g.gpk
		signers := r.Perm(g.n)[:g.t+1]
		swapped := -1
		switch variant {
		case 0:
			gpk = other.gpk // group key of another dealing
		case 1, 2:
			swapped = signers[r.IntN(len(signers))]
		}
		rep := map[string]any{"n": g.n, "t": g.t, "variant": []string{"group-key-of-another-dealing", "key-share-replaced-after-construction", "key-share-replaced-before-construction"}[variant], "signers": signers}
		if variant == 2 {
			pks[swapped] = other.pks[swapped]
		}
		var sig crypto.Signature
		var err error
		var verdict bool
		if run.Guard("stateful(inconsistent keys)", rep, func() {
			ins, e := crypto.NewBLSThresholdSignatureInspector(gpk, pks, g.t, g.msg, g.tag)
			if e != nil {
				err = e
				return
			}
			if variant == 1 {
				pks[swapped] = other.pks[swapped] // the caller's slice, after construction
			}
			for _, s := range signers {
				sh := crypto.Signature(g.share[s])
				if s == swapped {
					sh, _ = other.sks[s].Sign(g.msg, h)
				}
				_, _, _ = ins.VerifyAndAdd(s, sh)
			}
			for _, s := range r.Perm(g.n) { // whoever else is needed to reach the threshold
				if ins.EnoughShares() {
					break
				}
				_, _, _ = ins.VerifyAndAdd(s, g.share[s])
			}
			sig, err = ins.ThresholdSignature()
			if err == nil {
				verdict, _ = ins.VerifyThresholdSignature(sig)
			}
		}) {
			continue
		}
		run.Eval(1)
		run.Count("inconsistent-keys.cases", 1)
		if err == nil {
			okRef, _ := gpk.Verify(sig, g.msg, h)
			if !verdict || !okRef {
				run.Violate("C06:stateful-returns-invalid-signature:inconsistent-keys", fmt.Sprintf("ThresholdSignature() returned %x without an error although it fails under the object's group key (own VerifyThresholdSignature = %v, group key Verify = %v); every share had been accepted by VerifyAndAdd (%s)", []byte(sig), verdict, okRef, rep["variant"]), rep)
			}
		}
		run.Shape(fmt.Sprintf("inconsistent-keys|%d|%v", variant, err == nil))
	}
}

// c06CancellingInvalidShares: two well-formed but invalid shares whose errors cancel in the Lagrange
// interpolation (share_a + [lambda_b]Q and share_b - [lambda_a]Q), stored with TrustedAdd. The reconstructed
// signature IS the group signature, so ThresholdSignature succeeds - which says nothing about the
// individual shares: VerifyShare still rejects both, before and after the signature was computed, and a
// fresh object given the same shares through VerifyAndAdd refuses them.
func c06CancellingInvalidShares(run *mon.Run, r *rand.Rand, g *thrGroup) {
	signers := r.Perm(g.n)[:g.t+1]
	a, b := signers[0], signers[1]
	lambda := func(i int) *big.Int {
		num, den := big.NewInt(1), big.NewInt(1)
		for _, j := range signers {
			if j == i {
				continue
			}
			num = ref.Fr.Mul(num, big.NewInt(int64(j+1)))
			den = ref.Fr.Mul(den, ref.Fr.Sub(big.NewInt(int64(j+1)), big.NewInt(int64(i+1))))
		}
		return ref.Fr.Mul(num, ref.Fr.Inv(den))
	}
	Q := ref.E1.Mul(ref.G1Gen, randScalar(r))
	dec := func(sig []byte) ref.G1 { p, _ := ref.DecodeG1(sig); return p }
	badA := ref.EncodeG1(ref.E1.Add(dec(g.share[a]), ref.E1.Mul(Q, lambda(b))))
	badB := ref.EncodeG1(ref.E1.Sub(dec(g.share[b]), ref.E1.Mul(Q, lambda(a))))
	rep := map[string]any{"n": g.n, "t": g.t, "signers": signers, "bad_a": mon.Hex(badA), "bad_b": mon.Hex(badB)}
	run.Guard("stateful(cancelling invalid shares)", rep, func() {
		ins, err := g.inspector()
		if err != nil {
			return
		}
		judge := func(when string) {
			for _, c := range []struct {
				i  int
				sh []byte
			}{{a, badA}, {b, badB}} {
				ok, e := ins.VerifyShare(c.i, c.sh)
				run.Eval(1)
				if ok || e != nil {
					run.Violate("C06:cancelling-invalid-shares:verify-share", fmt.Sprintf("VerifyShare(%d, invalid share) = (%v, %v) %s", c.i, ok, e, when), rep)
				}
			}
		}
		judge("before anything was added")
		for _, s := range signers {
			sh := g.share[s]
			if s == a {
				sh = badA
			} else if s == b {
				sh = badB
			}
			_, _ = ins.TrustedAdd(s, sh)
		}
		sig, e := ins.ThresholdSignature()
		run.Eval(1)
		if e != nil || !bytes.Equal(sig, g.E) {
			run.Violate("C06:cancelling-invalid-shares:reconstruction", fmt.Sprintf("two invalid shares whose errors cancel in the interpolation: ThresholdSignature() = %x (err %v), the interpolation of these shares is the group signature %x", []byte(sig), e, g.E), rep)
			return
		}
		judge("after ThresholdSignature() succeeded on a pool holding them")
		if ok, e := ins.VerifyShare(signers[len(signers)-1], g.share[signers[len(signers)-1]]); !ok || e != nil {
			run.Violate("C06:cancelling-invalid-shares:verify-share", "a valid share is rejected after the signature was computed", rep)
		}
		ins2, _ := g.inspector()
		v1, _, _ := ins2.VerifyAndAdd(a, badA)
		v2, _, _ := ins2.VerifyAndAdd(b, badB)
		if v1 || v2 {
			run.Violate("C06:cancelling-invalid-shares:verify-and-add", "VerifyAndAdd accepts one of the invalid shares", rep)
		}
	})
	run.Count("cancelling-invalid-shares.cases", 1)
	run.Shape("cancelling-invalid-shares")
}

func c06InvalidShares(run *mon.Run, r *rand.Rand, g *thrGroup) {
	c06CompensatingLengths(run, r, g)
	c06InconsistentKeys(run, r, g)
	c06CancellingInvalidShares(run, r, g)
	signers := r.Perm(g.n)[:g.t+1]
	kinds := []string{"other-signer", "random-g1", "plus-T3", "malformed", "wrong-length", "infinity", "empty"}
	for pos := 0; pos <= g.t; pos++ {
		if g.t > 8 && pos%5 != 0 && pos != g.t {
			continue
		}
		for _, kind := range kinds {
			bad := g.share[signers[pos]]
			switch kind {
			case "other-signer":
				o := (signers[pos] + 1) % g.n
				bad = g.share[o]
				if bytes.Equal(bad, g.share[signers[pos]]) {
					continue
				}
			case "random-g1":
				bad = ref.EncodeG1(ref.E1.Mul(ref.G1Gen, randScalar(r)))
			case "plus-T3":
				p, _ := ref.DecodeG1(bad)
				bad = ref.EncodeG1(ref.E1.Add(p, tor3()))
			case "malformed":
				bad = crypto.BLSInvalidSignature()
			case "wrong-length":
				bad = bad[:47]
			case "infinity":
				bad = ref.EncodeG1(ref.E1.Infinity())
			case "empty":
				bad = []byte{}
			}
			rep := map[string]any{"n": g.n, "t": g.t, "seed": mon.Hex(g.seed), "signers": signers, "bad_pos": pos, "kind": kind, "bad": mon.Hex(bad), "msg": mon.Hex(g.msg), "tag": g.tag}
			// stateful + TrustedAdd of the invalid share: must give an error, never a signature; the valid
			// shares come in through TrustedAdd, through VerifyAndAdd, or through a mix of both
			for mode := 0; mode < 3; mode++ {
				ins, err := g.inspector()
				if err != nil {
					return
				}
				rep := map[string]any{"n": g.n, "t": g.t, "seed": mon.Hex(g.seed), "signers": signers, "bad_pos": pos, "kind": kind, "bad": mon.Hex(bad), "msg": mon.Hex(g.msg), "tag": g.tag, "valid_shares_added_by": [...]string{"TrustedAdd", "VerifyAndAdd", "mixed"}[mode]}
				run.Guard("stateful-invalid-share:"+kind, rep, func() {
					for i, s := range signers {
						sh := g.share[s]
						if i == pos {
							sh = bad
						}
						if i != pos && (mode == 1 || mode == 2 && i%2 == 0) {
							if v, _, e := ins.VerifyAndAdd(s, sh); e != nil || !v {
								run.Violate("C06:verify-and-add-rejects-valid", fmt.Sprintf("VerifyAndAdd of a valid share returned (%v, _, %v)", v, e), rep)
							}
							continue
						}
						if _, e := ins.TrustedAdd(s, sh); e != nil {
							run.Violate("C06:trusted-add-error", fmt.Sprintf("TrustedAdd returned %v", e), rep)
						}
					}
					out, err := ins.ThresholdSignature()
					run.Eval(1)
					run.Count("invalid-share."+kind, 1)
					// the verdict must be stable: a failed reconstruction never turns into a signature later
					for rep2 := 0; rep2 < 2; rep2++ {
						out2, err2 := ins.ThresholdSignature()
						if (err2 == nil) != (err == nil) || !bytes.Equal(out2, out) {
							run.Violate(fmt.Sprintf("C06:stateful-unstable-after-invalid-share:%s", kind),
								fmt.Sprintf("ThresholdSignature after a %s share: first call (%x, %v), repeated call (%x, %v)", kind, []byte(out), err, []byte(out2), err2), rep)
							break
						}
					}
					if err == nil {
						// The property: the object never returns a signature that fails verification. A
						// torsion component can vanish under the Lagrange coefficient (L = 0 mod 3), in
						// which case the unique valid group signature legitimately comes out.
						if bytes.Equal(out, g.E) {
							run.Count("invalid-share-masked."+kind, 1)
						} else {
							run.Violate(fmt.Sprintf("C06:stateful-returns-invalid-signature:%s", kind),
								fmt.Sprintf("ThresholdSignature returned %x (not the group signature %x) after a %s share was added at position %d", []byte(out), g.E, kind, pos), rep)
						}
					} else if !crypto.IsInvalidInputsError(err) && !crypto.IsInvalidSignatureError(err) {
						run.Violate("C06:stateful-invalid-share-error-class:"+kind, fmt.Sprintf("error %v is neither invalid-inputs nor invalid-signature", err), rep)
					}
					// VerifyAndAdd refuses it
					ins2, _ := g.inspector()
					v, _, e := ins2.VerifyAndAdd(signers[pos], bad)
					has, _ := ins2.HasShare(signers[pos])
					if v || e != nil || has {
						run.Violate("C06:verify-and-add-accepts-invalid:"+kind, fmt.Sprintf("VerifyAndAdd(invalid %s share) = (%v, _, %v), HasShare=%v", kind, v, e, has), rep)
					}
					if ok, e := ins2.VerifyShare(signers[pos], bad); ok || e != nil {
						run.Violate("C06:verify-share-accepts-invalid:"+kind, fmt.Sprintf("VerifyShare = (%v,%v)", ok, e), rep)
					}
				})
			}
			// stateless: no panic, documented error classes only
			shares := make([]crypto.Signature, len(signers))
			for i, s := range signers {
				shares[i] = g.share[s]
			}
			shares[pos] = bad
			run.Guard("stateless-invalid-share:"+kind, rep, func() {
				_, err := crypto.BLSReconstructThresholdSignature(g.n, g.t, shares, signers)
				run.Eval(1)
				if err != nil && !crypto.IsInvalidSignatureError(err) && !crypto.IsInvalidInputsError(err) {
					run.Violate("C06:stateless-invalid-share-error-class:"+kind, fmt.Sprintf("error %v", err), rep)
				}
			})
			run.Shape(fmt.Sprintf("invalid|%s|pos%d", kind, pos%9))
		}
	}
}

// posClass names a list position relative to the first t+1 entries.
func posClass(pos, t, L int) string {
	switch {
	case pos == 0:
		return "first"
	case pos < t:
		return "head"
	case pos == t:
		return "t"
	case pos == L-1:
		return "last-surplus"
	default:
		return "surplus"
	}
}

func c06Errors(run *mon.Run, r *rand.Rand, g *thrGroup) {
	n, t := g.n, g.t
	signers := r.Perm(n)[:t+1]
	shares := make([]crypto.Signature, t+1)
	for i, s := range signers {
		shares[i] = g.share[s]
	}
	check := func(name string, err error, pred func(error) bool) {
		run.Eval(1)
		if !pred(err) {
			run.Violate("C06:error-class:"+name, fmt.Sprintf("%s: error %v", name, err), map[string]any{"n": n, "t": t})
		}
		run.Shape("error|" + name)
	}
	_, err := crypto.BLSReconstructThresholdSignature(n, t, shares[:t], signers[:t])
	check("too-few", err, crypto.IsNotEnoughSharesError)
	dup := append([]int{}, signers...)
	dup[t] = dup[0]
	_, err = crypto.BLSReconstructThresholdSignature(n, t, shares, dup)
	check("duplicate", err, crypto.IsDuplicatedSignerError)
	for _, bad := range []int{-1, n, n + 1, 255, 256, 1 << 20} {
		oor := append([]int{}, signers...)
		oor[t] = bad
		_, err = crypto.BLSReconstructThresholdSignature(n, t, shares, oor)
		check("out-of-range", err, crypto.IsInvalidInputsError)
	}
	// the faulty entry at every position of lists with 0..3 surplus shares (head, position t, and the
	// tail beyond the first t+1 entries); the other entries are valid and distinct
	for extra := 0; extra <= 3 && t+1+extra <= n; extra++ {
		L := t + 1 + extra
		perm := r.Perm(n)[:L]
		shs := make([]crypto.Signature, L)
		for i, s := range perm {
			shs[i] = g.share[s]
		}
		for pos := 0; pos < L; pos++ {
			for _, bad := range []int{-1, n, 256 + perm[(pos+1)%L], -256 + perm[(pos+1)%L]} {
				oor := append([]int{}, perm...)
				oor[pos] = bad
				_, err = crypto.BLSReconstructThresholdSignature(n, t, shs, oor)
				check(fmt.Sprintf("out-of-range-at-%s", posClass(pos, t, L)), err, crypto.IsInvalidInputsError)
			}
			for other := 0; other < L; other++ {
				if other == pos {
					continue
				}
				d := append([]int{}, perm...)
				d[pos] = d[other]
				ds := append([]crypto.Signature{}, shs...)
				ds[pos] = ds[other]
				_, err = crypto.BLSReconstructThresholdSignature(n, t, ds, d)
				check(fmt.Sprintf("duplicate-at-%s-of-%s", posClass(pos, t, L), posClass(other, t, L)), err, crypto.IsDuplicatedSignerError)
			}
			// a share of the wrong length anywhere in the list is an error, never a signature
			ws := append([]crypto.Signature{}, shs...)
			ws[pos] = ws[pos][:47]
			var sig crypto.Signature
			sig, err = crypto.BLSReconstructThresholdSignature(n, t, ws, perm)
			run.Eval(1)
			if err == nil && sig != nil {
				if !bytes.Equal(sig, g.E) {
					run.Violate("C06:wrong-length-share-gives-invalid-signature:"+posClass(pos, t, L), "a 47-byte share was accepted and the returned bytes are not the group signature", map[string]any{"n": n, "t": t, "pos": pos})
				}
			}
		}
	}
	_, err = crypto.BLSReconstructThresholdSignature(n, t, shares, signers[:t])
	check("length-mismatch", err, crypto.IsInvalidInputsError)
	_, err = crypto.BLSReconstructThresholdSignature(n, 0, shares, signers)
	check("threshold-0", err, crypto.IsInvalidInputsError)
	_, err = crypto.BLSReconstructThresholdSignature(n, n, shares, signers)
	check("threshold-n", err, crypto.IsInvalidInputsError)
	_, err = crypto.BLSReconstructThresholdSignature(1, 1, shares, signers)
	check("size-1", err, crypto.IsInvalidInputsError)
	_, err = crypto.BLSReconstructThresholdSignature(255, 1, shares, signers)
	check("size-255", err, crypto.IsInvalidInputsError)
	// stateful
	ins, _ := g.inspector()
	_, err = ins.TrustedAdd(signers[0], shares[0])
	check("first-add", err, func(e error) bool { return e == nil })
	// (every boolean returned together with an error is documented to be false)
	allFalse := func(name string, err error, vals ...bool) {
		for _, v := range vals {
			if v && err != nil {
				run.Violate("C06:true-with-error:"+name, fmt.Sprintf("%s: a boolean result is true although the error %v is returned", name, err), nil)
			}
		}
	}
	var b1, b2 bool
	b1, err = ins.TrustedAdd(signers[0], shares[0])
	check("stateful-duplicate-trusted", err, crypto.IsDuplicatedSignerError)
	allFalse("stateful-duplicate-trusted", err, b1)
	b1, b2, err = ins.VerifyAndAdd(signers[0], shares[0])
	check("stateful-duplicate-verify", err, crypto.IsDuplicatedSignerError)
	allFalse("stateful-duplicate-verify", err, b1, b2)
	for _, bad := range []int{-1, n, 1 << 20} {
		b1, err = ins.TrustedAdd(bad, shares[0])
		check("stateful-oor-trusted", err, crypto.IsInvalidInputsError)
		allFalse("stateful-oor-trusted", err, b1)
		b1, b2, err = ins.VerifyAndAdd(bad, shares[0])
		check("stateful-oor-verifyadd", err, crypto.IsInvalidInputsError)
		allFalse("stateful-oor-verifyadd", err, b1, b2)
		b1, err = ins.HasShare(bad)
		check("stateful-oor-hasshare", err, crypto.IsInvalidInputsError)
		allFalse("stateful-oor-hasshare", err, b1)
		b1, err = ins.VerifyShare(bad, shares[0])
		check("stateful-oor-verifyshare", err, crypto.IsInvalidInputsError)
		allFalse("stateful-oor-verifyshare", err, b1)
	}
	_, err = ins.ThresholdSignature()
	check("stateful-not-enough", err, crypto.IsNotEnoughSharesError)
	// duplicates are still reported once enough shares are collected, by both adding functions
	insF, _ := g.inspector()
	for i, s := range signers {
		if i%2 == 0 {
			_, _ = insF.TrustedAdd(s, shares[i])
		} else {
			_, _, _ = insF.VerifyAndAdd(s, shares[i])
		}
	}
	if insF.EnoughShares() {
		for i, s := range signers {
			b1, err = insF.TrustedAdd(s, shares[i])
			check("stateful-duplicate-after-enough-trusted", err, crypto.IsDuplicatedSignerError)
			allFalse("stateful-duplicate-after-enough-trusted", err, b1)
			b1, b2, err = insF.VerifyAndAdd(s, shares[i])
			check("stateful-duplicate-after-enough-verify", err, crypto.IsDuplicatedSignerError)
			allFalse("stateful-duplicate-after-enough-verify", err, b1, b2)
		}
		// a new signer after enough shares is not an error and is not retained
		for o := 0; o < n; o++ {
			if has, _ := insF.HasShare(o); !has {
				b, e := insF.TrustedAdd(o, g.share[o])
				has2, _ := insF.HasShare(o)
				run.Eval(1)
				if !b || e != nil || has2 {
					run.Violate("C06:surplus-trusted-add", fmt.Sprintf("TrustedAdd of a new signer after enough shares: (%v,%v), retained=%v", b, e, has2), map[string]any{"n": n, "t": t})
				}
				break
			}
		}
	}
	// key generation errors
	_, _, _, err = crypto.BLSThresholdKeyGen(n, t, make([]byte, 31))
	check("keygen-short-seed", err, crypto.IsInvalidInputsError)
	_, _, _, err = crypto.BLSThresholdKeyGen(1, 1, g.seed)
	check("keygen-size-1", err, crypto.IsInvalidInputsError)
	_, _, _, err = crypto.BLSThresholdKeyGen(255, 1, g.seed)
	check("keygen-size-255", err, crypto.IsInvalidInputsError)
	_, _, _, err = crypto.BLSThresholdKeyGen(n, n, g.seed)
	check("keygen-threshold-n", err, crypto.IsInvalidInputsError)
	_, _, _, err = crypto.BLSThresholdKeyGen(n, 0, g.seed)
	check("keygen-threshold-0", err, crypto.IsInvalidInputsError)
	// surplus shares after EnoughShares are not retained and do not change the result
	if n > t+1 {
		ins2, _ := g.inspector()
		all := r.Perm(n)
		for _, s := range all {
			_, _, _ = ins2.VerifyAndAdd(s, g.share[s])
		}
		cnt := 0
		for i := 0; i < n; i++ {
			if has, _ := ins2.HasShare(i); has {
				cnt++
			}
		}
		out, err := ins2.ThresholdSignature()
		run.Eval(1)
		if cnt != t+1 || err != nil || !bytes.Equal(out, g.E) {
			run.Violate("C06:surplus-shares", fmt.Sprintf("after adding all %d shares: %d retained (t+1=%d), signature err %v", n, cnt, t+1, err), map[string]any{"n": n, "t": t})
		}
		run.Shape("surplus")
	}
}

// polyCoeffs returns the coefficients a_0..a_k (mod r) of the polynomial of degree <= k through the k+1
// points (xs[i], ys[i]), by Newton's divided differences expanded into the monomial basis.
func polyCoeffs(xs []int64, ys []*big.Int) []*big.Int {
	k := len(xs)
	dd := make([]*big.Int, k)
	for i := range dd {
		dd[i] = new(big.Int).Set(ys[i])
	}
	for lvl := 1; lvl < k; lvl++ {
		for i := k - 1; i >= lvl; i-- {
			num := ref.Fr.Sub(dd[i], dd[i-1])
			den := ref.Fr.Inv(new(big.Int).Mod(big.NewInt(xs[i]-xs[i-lvl]), ref.R))
			dd[i] = ref.Fr.Mul(num, den)
		}
	}
	// P(x) = dd[0] + dd[1](x-x0) + dd[2](x-x0)(x-x1) + ... ; expand from the inside out (Horner)
	co := []*big.Int{new(big.Int).Set(dd[k-1])}
	for i := k - 2; i >= 0; i-- {
		// co = co * (x - xs[i]) + dd[i]
		next := make([]*big.Int, len(co)+1)
		for j := range next {
			next[j] = new(big.Int)
		}
		mx := new(big.Int).Mod(big.NewInt(-xs[i]), ref.R)
		for j, c := range co {
			next[j+1] = ref.Fr.Add(next[j+1], c)
			next[j] = ref.Fr.Add(next[j], ref.Fr.Mul(c, mx))
		}
		next[0] = ref.Fr.Add(next[0], dd[i])
		co = next
	}
	return co
}

// c06IdentityKeyShare: a key set in which one participant's public key share is the identity (the
// polynomial has a root at that participant's point - a DKG can end that way when a dealer and that
// participant collude). Such a key set is still a consistent output: the constructors accept it, the
// other participants sign, verify and add shares, and any t+1 of them reconstruct the group signature
// through both APIs.
func c06IdentityKeyShare(run *mon.Run) {
	r := run.Rand("identity-key-share")
	for _, g := range [][2]int{{3, 1}, {5, 2}, {7, 3}, {10, 4}} {
		n, t := g[0], g[1]
		j := r.IntN(n) // the participant whose share is zero
		p := craftedPoly{kind: "root-at-participant", a: make([]*big.Int, t+1)}
		for i := range p.a {
			p.a[i] = randScalar(r)
		}
		p.a[0] = new(big.Int)
		p.a[0] = ref.Fr.Neg(p.eval(int64(j + 1)))
		if p.a[0].Sign() == 0 {
			continue
		}
		pks := make([]crypto.PublicKey, n)
		sks := make([]crypto.PrivateKey, n)
		bad := false
		for i := 0; i < n; i++ {
			v := p.eval(int64(i + 1))
			if i == j {
				pks[i] = crypto.IdentityBLSPublicKey()
				continue
			}
			if v.Sign() == 0 {
				bad = true
				break
			}
			sks[i] = skFromInt(v)
			pks[i] = sks[i].PublicKey()
		}
		if bad {
			continue
		}
		gpk := skFromInt(p.a[0]).PublicKey()
		msg, tag := []byte("identity key share"), "thr-id"
		h := crypto.NewExpandMsgXOFKMAC128(tag)
		H, err := hashPoint(msg, h, "kmac:"+tag)
		if err != nil {
			continue
		}
		want := ref.EncodeG1(ref.E1.Mul(H, p.a[0]))
		rep := map[string]any{"n": n, "t": t, "identity_share_index": j}
		var signers []int
		for _, i := range r.Perm(n) {
			if i != j && len(signers) < t+1 {
				signers = append(signers, i)
			}
		}
		me := signers[0]
		run.Guard("threshold objects over a key set with an identity share", rep, func() {
			ins, e1 := crypto.NewBLSThresholdSignatureInspector(gpk, pks, t, msg, tag)
			part, e2 := crypto.NewBLSThresholdSignatureParticipant(gpk, pks, t, me, sks[me], msg, tag)
			run.Eval(2)
			if e1 != nil || e2 != nil {
				run.Violate("C06:identity-key-share:constructor-refuses", fmt.Sprintf("key set of (n=%d,t=%d) whose public key share %d is the identity: inspector constructor %v, participant constructor %v", n, t, j, e1, e2), rep)
				return
			}
			var shares []crypto.Signature
			for _, i := range signers {
				sh, _ := sks[i].Sign(msg, h)
				shares = append(shares, sh)
				ok, _, e := ins.VerifyAndAdd(i, sh)
				if !ok || e != nil {
					run.Violate("C06:identity-key-share:valid-share-refused", fmt.Sprintf("VerifyAndAdd(%d) = (%v, %v) for a valid share", i, ok, e), rep)
					return
				}
				if i != me {
					_, _ = part.TrustedAdd(i, sh)
				}
			}
			// (SignShare only returns the participant's own share; it is added like any other)
			own, eo := part.SignShare()
			if eo != nil || !bytes.Equal(own, shares[0]) {
				run.Violate("C06:identity-key-share:sign-share", fmt.Sprintf("SignShare() = %x (err %v), expected the participant's own share", []byte(own), eo), rep)
				return
			}
			_, _ = part.TrustedAdd(me, own)
			for name, f := range map[string]func() (crypto.Signature, error){
				"inspector":   ins.ThresholdSignature,
				"participant": part.ThresholdSignature,
				"stateless":   func() (crypto.Signature, error) { return crypto.BLSReconstructThresholdSignature(n, t, shares, signers) },
			} {
				sig, e := f()
				run.Eval(1)
				if e != nil || !bytes.Equal(sig, want) {
					run.Violate("C06:identity-key-share:reconstruction:"+name, fmt.Sprintf("%s reconstruction over a key set with an identity share = %x (err %v), reference %x", name, []byte(sig), e, want), rep)
				}
			}
			// the identity share itself never verifies, whatever is offered for it
			for _, cand := range [][]byte{append([]byte{0xC0}, make([]byte, 47)...), shares[0]} {
				if ok, e := ins.VerifyShare(j, cand); ok || e != nil {
					run.Violate("C06:identity-key-share:accepts-share", fmt.Sprintf("VerifyShare(%d, %x) under an identity public key share = (%v, %v)", j, cand, ok, e), rep)
				}
			}
		})
		run.Count("identity-key-share.cases", 1)
		run.Shape(fmt.Sprintf("identity-key-share|%d|%d", n, t))
	}
}
