//go:build cgo && !no_cgo

// Package sim is a deterministic, single-threaded, seeded network simulator for the DKG
// protocols of onflow/crypto. Honest participants are real DKGState instances; Byzantine
// participants are puppets: a real instance whose outgoing traffic is rewritten by a script
// drawn from a message grammar, plus unsolicited injections. Delivery follows the
// round-synchronous model of DESIGN.md Appendix A.1.
package sim

import (
	"bytes"
	"fmt"
	"math/big"
	"math/rand/v2"
	"sort"
	"strings"

	"github.com/onflow/crypto"

	"verif/harness/ref"
)

type Proto int

const (
	FVSSQ Proto = iota // Feldman VSS with qualification (single dealer)
	JF                 // Joint-Feldman
)

func (p Proto) String() string { return [...]string{"FeldmanVSSQual", "JointFeldman"}[p] }

// message tags (documented wire format: first byte)
const (
	TagShare     = 0
	TagVector    = 1
	TagComplaint = 2
	TagAnswer    = 3
)

type Event struct {
	Seq   int
	Kind  string // start, timeout, end, send-bcast, send-priv, deliver-bcast, deliver-priv, disqualify, flag, handler-error, puppet-panic
	Node  int    // acting node (sender / receiver / reporter)
	Peer  int    // destination / origin / target
	Round int
	Data  []byte
	Note  string
}

func (e Event) String() string {
	d := fmt.Sprintf("%x", e.Data)
	if len(d) > 40 {
		d = d[:40] + fmt.Sprintf("..(%dB)", len(e.Data))
	}
	return fmt.Sprintf("#%d r%d %-13s node=%d peer=%d %s %s", e.Seq, e.Round, e.Kind, e.Node, e.Peer, d, e.Note)
}

// Behaviour is one production of the Byzantine filter grammar.
type Behaviour struct {
	Act string // pass, drop, delay, dup, mangle, subst
	Arg string // mangle kind
}

func (b Behaviour) String() string {
	if b.Arg != "" {
		return b.Act + ":" + b.Arg
	}
	return b.Act
}

type Injection struct {
	Round int
	Kind  string
	A, B  int
}

type Script struct {
	Share     map[int]Behaviour
	Vector    Behaviour
	Complaint Behaviour
	Answer    Behaviour
	Inject    []Injection
}

type Scenario struct {
	Seed   uint64
	Proto  Proto
	N, T   int
	Dealer int   // FVSSQ only
	Byz    []int // sorted
	// Scripts are derived from Seed; Plain forces every Byzantine node to behave honestly (sanity runs)
	Plain bool
	// Recipe, when set, fixes the script of the first Byzantine node (a dealer) instead of drawing it:
	// "victim=<j>;share=<beh>;vector=<beh>;answer=<beh>;inj=<kind>@<round>,..." (directed grid of the
	// interactions around one honest victim); the other Byzantine nodes still draw theirs from Seed.
	// Several recipes separated by "||" address Byz[0], Byz[1], ... in turn; "shares=<beh>@j1.j2" treats
	// several receivers alike; "victim=" may be repeated (it also names the target of the injections after it).
	Recipe string `json:",omitempty"`
}

type item struct {
	from, to int
	bcast    bool
	data     []byte
	round    int
	order    int // per-sender emission counter (FIFO for broadcasts)
	byz      bool
	label    string
}

type Node struct {
	ID     int
	Byz    bool
	inst   crypto.DKGState
	script *Script
	dead   bool
	// honest dealing material captured from the puppet's real instance (ground truth fast path)
	shares    map[int][]byte // dest -> share message
	vector    []byte
	altShares map[int][]byte
	altVector []byte
	held      [][]byte // broadcasts the script holds back until after this round's injections
	// results
	Ended  bool
	SK     crypto.PrivateKey
	GPK    crypto.PublicKey
	PKs    []crypto.PublicKey
	EndErr error
	Disq   map[int]bool
}

type Sim struct {
	Sc    Scenario
	R     *rand.Rand
	Nodes []*Node
	Log   []Event
	pools map[int][]*item
	round int
	phase string // start, timeout, deliver, inject
	minRd []int  // per sender: earliest round its next message may land in (FIFO across rounds)
	order []int
	// Delivered lists what actually landed, in order, for the ground-truth oracle.
	Delivered []Delivery
	Features  map[string]int
	Problems  []string // handler errors etc. (C10-style violations observed by the simulator)
	orderHash uint64
}

type Delivery struct {
	From, To int
	Bcast    bool
	Data     []byte
	Round    int
	Seq      int
}

type recorder struct {
	s  *Sim
	id int
}

func (s *Sim) ev(kind string, node, peer int, data []byte, note string) {
	s.Log = append(s.Log, Event{Seq: len(s.Log), Kind: kind, Node: node, Peer: peer, Round: s.round, Data: append([]byte{}, data...), Note: note})
}

// The network takes its own copy of an outgoing message and then overwrites the sender's buffer (as a
// transport that encrypts in place or recycles buffers would): an instance must not keep using it.
func (r *recorder) PrivateSend(dest int, data []byte) {
	r.s.emit(r.id, dest, false, append([]byte{}, data...))
	Scribble(data)
}
func (r *recorder) Broadcast(data []byte) {
	r.s.emit(r.id, -1, true, append([]byte{}, data...))
	Scribble(data)
}

// Scribble overwrites a buffer the harness no longer needs.
func Scribble(b []byte) {
	for i := range b {
		b[i] = 0xEE
	}
}
func (r *recorder) Disqualify(index int, log string) {
	r.s.ev("disqualify", r.id, index, nil, log)
	r.s.Nodes[r.id].Disq[index] = true
}
func (r *recorder) FlagMisbehavior(index int, log string) { r.s.ev("flag", r.id, index, nil, log) }

// captureProc records the messages of a throw-away instance (alternative polynomial).
type captureProc struct {
	shares map[int][]byte
	vector []byte
}

func (c *captureProc) PrivateSend(dest int, data []byte) {
	c.shares[dest] = append([]byte{}, data...)
	Scribble(data)
}
func (c *captureProc) Broadcast(data []byte) {
	if c.vector == nil {
		c.vector = append([]byte{}, data...)
	}
}
func (c *captureProc) Disqualify(int, string)      {}
func (c *captureProc) FlagMisbehavior(int, string) {}

func (s *Sim) isByz(i int) bool { return s.Nodes[i].Byz }

func (s *Sim) newInstance(id int, proc crypto.DKGProcessor) (crypto.DKGState, error) {
	switch s.Sc.Proto {
	case FVSSQ:
		return crypto.NewFeldmanVSSQual(s.Sc.N, s.Sc.T, id, proc, s.Sc.Dealer)
	default:
		return crypto.NewJointFeldman(s.Sc.N, s.Sc.T, id, proc)
	}
}

func (s *Sim) isDealer(id int) bool { return s.Sc.Proto == JF || id == s.Sc.Dealer }

// New builds the simulation (instances and scripts) from the scenario.
func New(sc Scenario) (*Sim, error) {
	s := &Sim{Sc: sc, R: rand.New(rand.NewPCG(sc.Seed, 0x5eed)), pools: map[int][]*item{}, Features: map[string]int{}}
	s.minRd = make([]int, sc.N)
	s.order = make([]int, sc.N)
	byz := map[int]bool{}
	for _, b := range sc.Byz {
		byz[b] = true
	}
	for i := 0; i < sc.N; i++ {
		n := &Node{ID: i, Byz: byz[i], Disq: map[int]bool{}, shares: map[int][]byte{}}
		inst, err := s.newInstance(i, &recorder{s, i})
		if err != nil {
			return nil, err
		}
		n.inst = inst
		s.Nodes = append(s.Nodes, n)
	}
	for _, b := range sc.Byz {
		n := s.Nodes[b]
		n.script = s.drawScript(b)
		if s.isDealer(b) {
			cp := &captureProc{shares: map[int][]byte{}}
			alt, err := s.newInstance(b, cp)
			if err == nil {
				seed := make([]byte, 32)
				for i := range seed {
					seed[i] = byte(s.R.Uint32())
				}
				_ = alt.Start(seed)
				n.altShares, n.altVector = cp.shares, cp.vector
			}
		}
	}
	return s, nil
}

// ---- Byzantine grammar ---------------------------------------------------------------

var shareMangles = []string{"empty", "tag-only", "wrong-tag", "short", "long", "zero", "r", "r+1", "max", "plus1"}
var vectorMangles = []string{"size-1", "size+1", "size-96", "size+96", "empty", "hdr-E0", "hdr-00", "inf-garbage", "x-ge-p", "x-ge-p-2", "no-sqrt", "non-G2", "non-G2-torsion", "inf-0", "inf-t", "equal-points", "other-dealer", "tag-only"}
var complaintMangles = []string{"len0", "len2", "complainee-ge-n", "complainee-other"}
var answerMangles = []string{"len32", "len34", "complainer-ge-n", "share-zero", "share-r", "share-plus1", "for-non-complainer"}

func pickBehaviour(r *rand.Rand, mangles []string, pPass int) Behaviour {
	x := r.IntN(100)
	switch {
	case x < pPass:
		return Behaviour{Act: "pass"}
	case x < pPass+8:
		return Behaviour{Act: "drop"}
	case x < pPass+16:
		return Behaviour{Act: "delay"}
	case x < pPass+24:
		return Behaviour{Act: "dup"}
	case x < pPass+32:
		return Behaviour{Act: "subst"}
	default:
		return Behaviour{Act: "mangle", Arg: mangles[r.IntN(len(mangles))]}
	}
}

var injectKinds = []string{
	"complaint", "dup-complaint", "early-answer-valid", "early-answer-wrong", "answer-twice", "second-vector-same", "second-vector-diff",
	"answer-burst", "late-share", "late-share-wrong", "second-share", "second-share-wrong", "late-vector", "empty-bcast", "unknown-tag", "share-tag-on-bcast", "bcast-tag-on-private", "random-bcast", "random-private",
}

func (s *Sim) drawScript(b int) *Script {
	r := s.R
	sc := &Script{Share: map[int]Behaviour{}}
	if s.Sc.Plain {
		sc.Vector, sc.Complaint, sc.Answer = Behaviour{Act: "pass"}, Behaviour{Act: "pass"}, Behaviour{Act: "pass"}
		for i := 0; i < s.Sc.N; i++ {
			sc.Share[i] = Behaviour{Act: "pass"}
		}
		return sc
	}
	if s.Sc.Recipe != "" {
		// "recipe of Byz[0] || recipe of Byz[1] || ...": an empty or missing part leaves that node's script drawn
		parts := strings.Split(s.Sc.Recipe, "||")
		for i, bz := range s.Sc.Byz {
			if bz == b && i < len(parts) && strings.TrimSpace(parts[i]) != "" {
				return s.recipeScript(strings.TrimSpace(parts[i]))
			}
		}
	}
	// focused mode (half of the Byzantine dealers): everything honest except a dense mix of the
	// behaviours that interact around ONE honest victim's share, complaint and answer
	if s.isDealer(b) && r.IntN(2) == 0 {
		var honest []int
		for i := 0; i < s.Sc.N; i++ {
			isB := false
			for _, x := range s.Sc.Byz {
				isB = isB || x == i
			}
			if !isB {
				honest = append(honest, i)
			}
		}
		// two-victim mode: two honest participants get malformed shares (so they complain at once, before
		// the vector), the dealer answers both complaints ahead of its vector - one answer right, one
		// wrong, in either order - and sends the vector last. Receivers then hold several complaints that
		// were received AND answered before the vector arrived.
		if len(honest) >= 2 && s.Sc.T >= 2 && r.IntN(4) == 0 {
			p := r.Perm(len(honest))
			j1, j2 := honest[p[0]], honest[p[1]]
			for i := 0; i < s.Sc.N; i++ {
				sc.Share[i] = Behaviour{Act: "pass"}
			}
			mal := []string{"empty", "tag-only", "short", "long", "zero", "r", "wrong-tag"}
			sc.Share[j1] = Behaviour{Act: "mangle", Arg: mal[r.IntN(len(mal))]}
			sc.Share[j2] = Behaviour{Act: "mangle", Arg: mal[r.IntN(len(mal))]}
			sc.Vector = Behaviour{Act: "hold"}
			sc.Complaint = Behaviour{Act: "pass"}
			sc.Answer = []Behaviour{{Act: "pass"}, {Act: "drop"}, {Act: "pass"}}[r.IntN(3)]
			kinds := [][2]string{{"early-answer-valid", "early-answer-wrong"}, {"early-answer-wrong", "early-answer-valid"}, {"early-answer-valid", "early-answer-valid"}, {"early-answer-wrong", "early-answer-wrong"}}[r.IntN(4)]
			sc.Inject = append(sc.Inject, Injection{Round: 1, Kind: kinds[0], A: j1}, Injection{Round: 1, Kind: kinds[1], A: j2})
			if r.IntN(3) == 0 && len(honest) >= 3 {
				sc.Share[honest[p[2]]] = Behaviour{Act: "mangle", Arg: mal[r.IntN(len(mal))]}
				sc.Inject = append(sc.Inject, Injection{Round: 1, Kind: "early-answer-valid", A: honest[p[2]]})
			}
			s.Features["script.two-victims"]++
			return sc
		}
		if len(honest) > 0 {
			j := honest[r.IntN(len(honest))]
			for i := 0; i < s.Sc.N; i++ {
				sc.Share[i] = Behaviour{Act: "pass"}
			}
			switch r.IntN(8) {
			case 0:
				sc.Share[j] = Behaviour{Act: "subst"}
			case 1:
				sc.Share[j] = Behaviour{Act: "drop"}
			case 2:
				sc.Share[j] = Behaviour{Act: "delay"}
			case 3:
				sc.Share[j] = Behaviour{Act: "dup"}
			case 4:
				sc.Share[j] = Behaviour{Act: "pass"}
			default:
				sc.Share[j] = Behaviour{Act: "mangle", Arg: shareMangles[r.IntN(len(shareMangles))]}
			}
			sc.Vector = Behaviour{Act: "pass"}
			if x := r.IntN(10); x >= 7 {
				sc.Vector = Behaviour{Act: []string{"delay", "dup", "subst"}[x-7]}
			} else if x >= 4 {
				sc.Vector = Behaviour{Act: "hold"} // vector sent after the round's unsolicited messages
			}
			sc.Complaint = Behaviour{Act: "pass"}
			sc.Answer = []Behaviour{{Act: "pass"}, {Act: "pass"}, {Act: "drop"}, {Act: "delay"}, {Act: "dup"}, {Act: "subst"}, {Act: "mangle", Arg: "share-plus1"}, {Act: "mangle", Arg: answerMangles[r.IntN(len(answerMangles))]}}[r.IntN(8)]
			if r.IntN(10) < 7 {
				sc.Inject = append(sc.Inject, Injection{Round: 1 + r.IntN(2), Kind: []string{"early-answer-valid", "early-answer-wrong"}[r.IntN(2)], A: j})
			}
			if r.IntN(10) < 3 {
				sc.Inject = append(sc.Inject, Injection{Round: 2 + r.IntN(2), Kind: "answer-twice", A: j})
			}
			if r.IntN(10) < 3 {
				sc.Inject = append(sc.Inject, Injection{Round: 1 + r.IntN(2), Kind: "answer-burst", A: r.IntN(s.Sc.N), B: r.IntN(4)})
			}
			if r.IntN(10) < 2 {
				sc.Inject = append(sc.Inject, Injection{Round: 1 + r.IntN(3), Kind: injectKinds[r.IntN(len(injectKinds))], A: r.IntN(s.Sc.N), B: r.IntN(s.Sc.N)})
			}
			// a broadcast that disqualifies the dealer AFTER the earlier traffic of this script (same
			// sender, so the order is kept): later handlers must not bring the dealer back
			if r.IntN(10) < 3 {
				k := []string{"empty-bcast", "unknown-tag", "share-tag-on-bcast", "second-vector-diff", "second-vector-same", "random-bcast"}[r.IntN(6)]
				sc.Inject = append(sc.Inject, Injection{Round: 1 + r.IntN(3), Kind: k, A: j, B: r.IntN(s.Sc.N)})
			}
			// a SECOND private message to the victim in round 1 (the first one may have been malformed,
			// answered and replaced by then)
			if r.IntN(10) < 3 {
				sc.Inject = append(sc.Inject, Injection{Round: 1, Kind: []string{"second-share", "second-share-wrong", "second-share-wrong"}[r.IntN(3)], A: j})
			}
			// a share (right or wrong) that reaches the victim after the shares timeout, around its own
			// complaint and the dealer's answer
			if r.IntN(10) < 4 {
				sc.Inject = append(sc.Inject, Injection{Round: 2 + r.IntN(2), Kind: []string{"late-share", "late-share-wrong"}[r.IntN(2)], A: j})
			}
			return sc
		}
	}
	// a puppet is mostly honest with a few deviations, so that deep protocol states are reached
	pPass := []int{30, 55, 75, 90}[r.IntN(4)]
	for i := 0; i < s.Sc.N; i++ {
		sc.Share[i] = pickBehaviour(r, shareMangles, pPass)
	}
	sc.Vector = pickBehaviour(r, vectorMangles, 60)
	if r.IntN(8) == 0 {
		sc.Vector = Behaviour{Act: "hold"}
	}
	sc.Complaint = pickBehaviour(r, complaintMangles, 60)
	sc.Answer = pickBehaviour(r, answerMangles, 50)
	for k := r.IntN(4); k > 0; k-- {
		sc.Inject = append(sc.Inject, Injection{Round: 1 + r.IntN(3), Kind: injectKinds[r.IntN(len(injectKinds))], A: r.IntN(s.Sc.N), B: r.IntN(s.Sc.N)})
	}
	return sc
}

func parseBehaviour(v string) Behaviour {
	if i := strings.IndexByte(v, ':'); i >= 0 {
		return Behaviour{Act: v[:i], Arg: v[i+1:]}
	}
	return Behaviour{Act: v}
}

// recipeScript builds a script from a Scenario.Recipe string.
func (s *Sim) recipeScript(rec string) *Script {
	sc := &Script{Share: map[int]Behaviour{}, Vector: Behaviour{Act: "pass"}, Complaint: Behaviour{Act: "pass"}, Answer: Behaviour{Act: "pass"}}
	for i := 0; i < s.Sc.N; i++ {
		sc.Share[i] = Behaviour{Act: "pass"}
	}
	victim := 0
	for _, f := range strings.Split(rec, ";") {
		k, v, ok := strings.Cut(f, "=")
		if !ok {
			continue
		}
		switch k {
		case "victim":
			fmt.Sscan(v, &victim)
		case "share":
			sc.Share[victim%s.Sc.N] = parseBehaviour(v)
		case "shares": // <behaviour>@j1.j2.j3 : the same behaviour towards several receivers
			bh, list, _ := strings.Cut(v, "@")
			for _, js := range strings.Split(list, ".") {
				var j int
				if _, err := fmt.Sscan(js, &j); err == nil {
					sc.Share[j%s.Sc.N] = parseBehaviour(bh)
				}
			}
		case "vector":
			sc.Vector = parseBehaviour(v)
		case "answer":
			sc.Answer = parseBehaviour(v)
		case "complaint":
			sc.Complaint = parseBehaviour(v)
		case "inj":
			for _, e := range strings.Split(v, ",") {
				kind, rd, ok := strings.Cut(e, "@")
				if !ok || kind == "none" {
					continue
				}
				var round int
				fmt.Sscan(rd, &round)
				sc.Inject = append(sc.Inject, Injection{Round: round, Kind: kind, A: victim, B: victim})
			}
		}
	}
	return sc
}

func scalarBytes(x *big.Int) []byte {
	return new(big.Int).Mod(x, new(big.Int).Lsh(big.NewInt(1), 256)).FillBytes(make([]byte, 32))
}

func (s *Sim) mangleShare(msg []byte, kind string) []byte {
	if len(msg) != 33 {
		return msg
	}
	body := new(big.Int).SetBytes(msg[1:])
	switch kind {
	case "empty":
		return []byte{}
	case "tag-only":
		return []byte{TagShare}
	case "wrong-tag":
		return append([]byte{byte(1 + s.R.IntN(250))}, msg[1:]...)
	case "short":
		return msg[:32]
	case "long":
		return append(append([]byte{}, msg...), 0)
	case "zero":
		return append([]byte{TagShare}, make([]byte, 32)...)
	case "r":
		return append([]byte{TagShare}, scalarBytes(ref.R)...)
	case "r+1":
		return append([]byte{TagShare}, scalarBytes(new(big.Int).Add(ref.R, big.NewInt(1)))...)
	case "max":
		return append([]byte{TagShare}, bytes.Repeat([]byte{0xff}, 32)...)
	case "plus1":
		v := new(big.Int).Add(body, big.NewInt(1))
		v.Mod(v, ref.R)
		if v.Sign() == 0 {
			v.SetInt64(1)
		}
		return append([]byte{TagShare}, scalarBytes(v)...)
	}
	return msg
}

func (s *Sim) mangleVector(b int, msg []byte, kind string) []byte {
	if len(msg) < 1+96 {
		return msg
	}
	out := append([]byte{}, msg...)
	npts := (len(msg) - 1) / 96
	pi := s.R.IntN(npts)
	pt := out[1+96*pi : 1+96*(pi+1)]
	cv := ref.C0First
	if MeasuredConv != nil {
		cv = MeasuredConv()
	}
	switch kind {
	case "size-1":
		return out[:len(out)-1]
	case "size+1":
		return append(out, 0)
	case "size-96":
		return out[:len(out)-96]
	case "size+96":
		return append(out, out[1:97]...)
	case "empty":
		return []byte{}
	case "tag-only":
		return []byte{TagVector}
	case "hdr-E0":
		pt[0] = 0xE0 | pt[0]&0x1F
	case "hdr-00":
		pt[0] &= 0x1F
	case "inf-garbage":
		for i := range pt {
			pt[i] = 0
		}
		pt[0] = 0xC0
		pt[1+s.R.IntN(95)] = byte(1 + s.R.IntN(255))
	case "x-ge-p":
		copy(pt[:48], ref.P.FillBytes(make([]byte, 48)))
		pt[0] |= 0x80
	case "x-ge-p-2":
		copy(pt[48:], new(big.Int).Add(ref.P, big.NewInt(1)).FillBytes(make([]byte, 48)))
	case "no-sqrt":
		for tries := 0; tries < 64; tries++ {
			pt[95] ^= byte(1 + tries)
			if _, cls := ref.DecodeG2(pt, cv); cls == ref.DecOffCurve {
				break
			}
		}
	case "non-G2":
		copy(pt, ref.EncodeG2(ref.NonSubgroupE2([]byte{byte(s.R.Uint32()), byte(b)}), cv))
	case "non-G2-torsion":
		if p, cls := ref.DecodeG2(pt, cv); cls == ref.DecOK {
			if t13, ok := ref.TorsionE2(13, []byte("sim")); ok {
				copy(pt, ref.EncodeG2(ref.E2.Add(p, t13), cv))
			}
		}
	case "inf-0", "inf-t":
		idx := 0
		if kind == "inf-t" {
			idx = npts - 1
		}
		q := out[1+96*idx : 1+96*(idx+1)]
		for i := range q {
			q[i] = 0
		}
		q[0] = 0xC0
	case "equal-points":
		if npts >= 2 {
			copy(out[1+96:1+192], out[1:97])
		}
	case "other-dealer":
		for _, n := range s.Nodes {
			if n.ID != b && n.vector != nil && len(n.vector) == len(msg) {
				return append([]byte{}, n.vector...)
			}
		}
		if alt := s.Nodes[b].altVector; alt != nil {
			return append([]byte{}, alt...)
		}
	}
	return out
}

// MeasuredConv is set by the checks package (G2 coefficient order the library uses).
var MeasuredConv func() ref.Conv

func (s *Sim) mangleComplaint(b int, msg []byte, kind string) []byte {
	switch kind {
	case "len0":
		return []byte{TagComplaint}
	case "len2":
		return append(append([]byte{}, msg...), 0)
	case "complainee-ge-n":
		return []byte{TagComplaint, byte(s.Sc.N + s.R.IntN(255-s.Sc.N))}
	case "complainee-other":
		return []byte{TagComplaint, byte(s.R.IntN(s.Sc.N))}
	}
	return msg
}

func (s *Sim) mangleAnswer(b int, msg []byte, kind string) []byte {
	if len(msg) != 34 {
		return msg
	}
	switch kind {
	case "len32":
		return msg[:33]
	case "len34":
		return append(append([]byte{}, msg...), 0)
	case "complainer-ge-n":
		o := append([]byte{}, msg...)
		o[1] = byte(s.Sc.N + s.R.IntN(255-s.Sc.N))
		return o
	case "share-zero":
		return append([]byte{TagAnswer, msg[1]}, make([]byte, 32)...)
	case "share-r":
		return append([]byte{TagAnswer, msg[1]}, scalarBytes(ref.R)...)
	case "share-plus1":
		v := new(big.Int).Add(new(big.Int).SetBytes(msg[2:]), big.NewInt(1))
		v.Mod(v, ref.R)
		if v.Sign() == 0 {
			v.SetInt64(1)
		}
		return append([]byte{TagAnswer, msg[1]}, scalarBytes(v)...)
	case "for-non-complainer":
		o := append([]byte{}, msg...)
		o[1] = byte(s.R.IntN(s.Sc.N))
		return o
	}
	return msg
}

// ---- emission --------------------------------------------------------------------------

func (s *Sim) landingRound(sender int, reactive bool) int {
	rd := s.round
	if reactive && s.R.IntN(2) == 1 {
		rd++
	}
	if rd < s.minRd[sender] {
		rd = s.minRd[sender]
	}
	s.minRd[sender] = rd
	return rd
}

func (s *Sim) push(it *item) {
	it.order = s.order[it.from]
	s.order[it.from]++
	s.pools[it.round] = append(s.pools[it.round], it)
}

func (s *Sim) pushBroadcast(from int, data []byte, round int, byz bool, label string) {
	s.ev("send-bcast", from, -1, data, fmt.Sprintf("lands r%d %s", round, label))
	ord := s.order[from]
	s.order[from]++
	for to := 0; to < s.Sc.N; to++ {
		if to == from && s.R.IntN(2) == 0 {
			continue // echo to the sender half of the time (the code must ignore it)
		}
		s.pools[round] = append(s.pools[round], &item{from: from, to: to, bcast: true, data: append([]byte{}, data...), round: round, order: ord, byz: byz, label: label})
	}
}

func (s *Sim) pushPrivate(from, to int, data []byte, round int, byz bool, label string) {
	s.ev("send-priv", from, to, data, fmt.Sprintf("lands r%d %s", round, label))
	s.push(&item{from: from, to: to, data: append([]byte{}, data...), round: round, byz: byz, label: label})
}

// emit is called from the processor of node `from` (honest node, or a puppet's real instance).
func (s *Sim) emit(from, dest int, bcast bool, data []byte) {
	n := s.Nodes[from]
	reactive := s.phase == "deliver"
	if !n.Byz {
		rd := s.landingRound(from, reactive)
		if bcast {
			s.pushBroadcast(from, data, rd, false, "")
		} else {
			s.pushPrivate(from, dest, data, rd, false, "")
		}
		return
	}
	// puppet: remember its honest material, then filter
	if !bcast && len(data) > 0 && data[0] == TagShare {
		if _, ok := n.shares[dest]; !ok {
			n.shares[dest] = append([]byte{}, data...)
		}
	}
	if bcast && len(data) > 0 && data[0] == TagVector && n.vector == nil {
		n.vector = append([]byte{}, data...)
	}
	var bh Behaviour
	var mang func(kind string) []byte
	var alt []byte
	switch {
	case !bcast:
		bh = n.script.Share[dest]
		mang = func(k string) []byte { return s.mangleShare(data, k) }
		alt = n.altShares[dest]
	case len(data) > 0 && data[0] == TagVector:
		bh = n.script.Vector
		mang = func(k string) []byte { return s.mangleVector(from, data, k) }
		alt = n.altVector
	case len(data) > 0 && data[0] == TagComplaint:
		bh = n.script.Complaint
		mang = func(k string) []byte { return s.mangleComplaint(from, data, k) }
	case len(data) > 0 && data[0] == TagAnswer:
		bh = n.script.Answer
		mang = func(k string) []byte { return s.mangleAnswer(from, data, k) }
	default:
		bh = Behaviour{Act: "pass"}
	}
	rd := s.landingRound(from, reactive)
	out := [][]byte{data}
	label := bh.String()
	switch bh.Act {
	case "drop":
		s.ev("byz-drop", from, dest, data, label)
		s.Features["byz."+label]++
		return
	case "hold":
		// a Byzantine sender may order its own broadcasts as it likes: this one is sent after the
		// unsolicited messages of the round (e.g. an answer, then the vector)
		if bcast {
			n.held = append(n.held, append([]byte{}, data...))
			s.Features["byz.hold"]++
			return
		}
	case "delay":
		rd++
		if rd > s.minRd[from] {
			// a delayed message does not hold back the sender's other traffic: the Byzantine node
			// simply sends it later
		}
	case "dup":
		out = [][]byte{data, data}
		if s.R.IntN(2) == 0 {
			out = append(out, data)
		}
	case "mangle":
		out = [][]byte{mang(bh.Arg)}
	case "subst":
		if alt != nil {
			out = [][]byte{alt}
		} else if !bcast || (len(data) > 0 && data[0] == TagAnswer) {
			// no alternative polynomial for this message type: a well-formed but wrong scalar
			if bcast {
				out = [][]byte{s.mangleAnswer(from, data, "share-plus1")}
			} else {
				out = [][]byte{s.mangleShare(data, "plus1")}
			}
		}
	}
	kind := "bcast"
	if !bcast {
		kind = "share"
	} else if len(data) > 0 {
		kind = [...]string{"tag0", "vector", "complaint", "answer"}[min(int(data[0]), 3)]
	}
	s.Features["byz."+kind+"."+label]++
	for i, d := range out {
		r2 := rd
		if i > 0 && bh.Act == "dup" && s.R.IntN(3) == 0 {
			r2++ // spread copy
		}
		if r2 > 3 {
			continue
		}
		if bcast {
			s.pushBroadcast(from, d, r2, true, label)
		} else {
			s.pushPrivate(from, dest, d, r2, true, label)
		}
	}
}

// inject adds the unsolicited messages scheduled for this round.
func (s *Sim) inject() {
	s.phase = "inject"
	for _, b := range s.Sc.Byz {
		n := s.Nodes[b]
		if n.script == nil {
			continue
		}
		for _, in := range n.script.Inject {
			if in.Round != s.round {
				continue
			}
			s.Features["inject."+in.Kind]++
			lbl := "inject:" + in.Kind
			N := s.Sc.N
			target := in.A % N
			dealerOf := func() int { // a dealer to complain about
				if s.Sc.Proto == FVSSQ {
					return s.Sc.Dealer
				}
				return target
			}
			shareFor := func(j int, wrong bool) []byte {
				sh := n.shares[j]
				if sh == nil && n.altShares != nil {
					sh = n.altShares[j]
				}
				body := make([]byte, 32)
				if len(sh) == 33 {
					copy(body, sh[1:])
				} else {
					body[31] = byte(1 + s.R.IntN(200))
				}
				if wrong {
					v := new(big.Int).Add(new(big.Int).SetBytes(body), big.NewInt(int64(1+s.R.IntN(5))))
					v.Mod(v, ref.R)
					if v.Sign() == 0 {
						v.SetInt64(3)
					}
					body = scalarBytes(v)
				}
				return append([]byte{TagAnswer, byte(j)}, body...)
			}
			switch in.Kind {
			case "complaint":
				s.pushBroadcast(b, []byte{TagComplaint, byte(dealerOf())}, s.round, true, lbl)
			case "dup-complaint":
				s.pushBroadcast(b, []byte{TagComplaint, byte(dealerOf())}, s.round, true, lbl)
				s.pushBroadcast(b, []byte{TagComplaint, byte(dealerOf())}, s.round, true, lbl)
			case "early-answer-valid":
				if s.isDealer(b) {
					s.pushBroadcast(b, shareFor(target, false), s.round, true, lbl)
				}
			case "early-answer-wrong":
				if s.isDealer(b) {
					s.pushBroadcast(b, shareFor(target, true), s.round, true, lbl)
				}
			case "answer-twice":
				if s.isDealer(b) {
					s.pushBroadcast(b, shareFor(target, false), s.round, true, lbl)
					s.pushBroadcast(b, shareFor(target, true), s.round, true, lbl)
				}
			case "answer-burst":
				// unsolicited (valid) answers for t-1 .. t+2 distinct participants: the number of complaint
				// entries sits around the disqualification threshold
				if s.isDealer(b) {
					cnt := s.Sc.T - 1 + in.B%4
					for j, sent := 0, 0; j < N && sent < cnt; j++ {
						if (target+j)%N == b {
							continue
						}
						s.pushBroadcast(b, shareFor((target+j)%N, false), s.round, true, lbl)
						sent++
					}
				}
			case "second-vector-same":
				if n.vector != nil {
					s.pushBroadcast(b, n.vector, s.round, true, lbl)
				}
			case "second-vector-diff":
				if n.altVector != nil {
					s.pushBroadcast(b, n.altVector, s.round, true, lbl)
				}
			case "late-share":
				if sh := n.shares[target]; sh != nil && target != b {
					s.pushPrivate(b, target, sh, max(2, s.round), true, lbl)
				}
			case "late-share-wrong":
				if sh := n.shares[target]; sh != nil && target != b {
					w := s.mangleShare(sh, "plus1")
					if alt := n.altShares[target]; alt != nil && s.R.IntN(2) == 0 {
						w = alt
					}
					s.pushPrivate(b, target, w, max(2, s.round), true, lbl)
				}
			case "second-share", "second-share-wrong":
				// a second private message of the dealer to the same participant, in the round it is
				// injected in (round 1: before the shares timeout, competing with the first one, with the
				// participant's complaint and with the dealer's answer)
				if sh := n.shares[target]; sh != nil && target != b {
					w := sh
					if in.Kind == "second-share-wrong" {
						w = s.mangleShare(sh, "plus1")
					}
					s.pushPrivate(b, target, w, s.round, true, lbl)
				}
			case "late-vector":
				if n.vector != nil {
					s.pushBroadcast(b, n.vector, max(2, s.round), true, lbl)
				}
			case "empty-bcast":
				s.pushBroadcast(b, []byte{}, s.round, true, lbl)
			case "unknown-tag":
				s.pushBroadcast(b, []byte{byte(4 + s.R.IntN(250)), 1, 2, 3}, s.round, true, lbl)
			case "share-tag-on-bcast":
				s.pushBroadcast(b, append([]byte{TagShare}, make([]byte, 32)...), s.round, true, lbl)
			case "bcast-tag-on-private":
				if target != b {
					s.pushPrivate(b, target, []byte{byte(1 + s.R.IntN(3)), byte(in.B % N)}, s.round, true, lbl)
				}
			case "random-bcast":
				d := make([]byte, s.R.IntN(120))
				for i := range d {
					d[i] = byte(s.R.Uint32())
				}
				if len(d) > 0 {
					d[0] = byte(s.R.IntN(5))
				}
				s.pushBroadcast(b, d, s.round, true, lbl)
			case "random-private":
				d := make([]byte, s.R.IntN(50))
				for i := range d {
					d[i] = byte(s.R.Uint32())
				}
				if target != b {
					s.pushPrivate(b, target, d, s.round, true, lbl)
				}
			}
		}
	}
}

// flushHeld sends the broadcasts a puppet held back (same round, after its injections).
func (s *Sim) flushHeld() {
	for _, b := range s.Sc.Byz {
		n := s.Nodes[b]
		for _, d := range n.held {
			s.pushBroadcast(b, d, s.round, true, "hold")
		}
		n.held = nil
	}
}

// ---- delivery --------------------------------------------------------------------------

func (s *Sim) safeCall(n *Node, what string, f func() error) {
	if n.dead {
		return
	}
	defer func() {
		if e := recover(); e != nil {
			n.dead = true
			if n.Byz {
				// a puppet fed hostile traffic may panic: it falls silent, the scenario goes on
				s.ev("puppet-panic", n.ID, -1, nil, fmt.Sprintf("%s: %v", what, e))
			} else {
				s.ev("honest-panic", n.ID, -1, nil, fmt.Sprintf("%s: %v", what, e))
				s.Problems = append(s.Problems, fmt.Sprintf("PANIC in honest node %d %s: %v", n.ID, what, e))
			}
		}
	}()
	if err := f(); err != nil {
		s.ev("handler-error", n.ID, -1, nil, fmt.Sprintf("%s: %v", what, err))
		if !n.Byz {
			s.Problems = append(s.Problems, fmt.Sprintf("node %d %s returned %v", n.ID, what, err))
		}
	}
}

func (s *Sim) deliverRound() {
	s.phase = "deliver"
	for {
		pool := s.pools[s.round]
		if len(pool) == 0 {
			return
		}
		// deliverable: for broadcasts, every earlier broadcast of the same sender landing in this
		// round has already been delivered to this receiver
		var cand []int
		for i, it := range pool {
			ok := true
			if it.bcast {
				for _, o := range pool {
					if o != it && o.bcast && o.from == it.from && o.to == it.to && o.order < it.order {
						ok = false
						break
					}
				}
			}
			if ok {
				cand = append(cand, i)
			}
		}
		pick := cand[s.R.IntN(len(cand))]
		it := pool[pick]
		s.pools[s.round] = append(pool[:pick:pick], pool[pick+1:]...)
		n := s.Nodes[it.to]
		kind := "deliver-priv"
		if it.bcast {
			kind = "deliver-bcast"
		}
		s.ev(kind, it.to, it.from, it.data, it.label)
		s.Delivered = append(s.Delivered, Delivery{From: it.from, To: it.to, Bcast: it.bcast, Data: it.data, Round: s.round, Seq: len(s.Log)})
		s.orderHash = s.orderHash*1099511628211 ^ uint64(it.from*31+it.to*7+len(it.data)) ^ uint64(boolInt(it.bcast))<<40
		// the receiver gets the message in a buffer of its own that the transport layer overwrites as soon
		// as the handler returns: an instance must not keep referring to it
		buf := append(make([]byte, 0, len(it.data)+8), it.data...)
		if it.bcast {
			s.safeCall(n, "HandleBroadcastMsg", func() error { return n.inst.HandleBroadcastMsg(it.from, buf) })
		} else {
			s.safeCall(n, "HandlePrivateMsg", func() error { return n.inst.HandlePrivateMsg(it.from, buf) })
		}
		for i := range buf {
			buf[i] = 0xEE
		}
	}
}

func boolInt(b bool) int {
	if b {
		return 1
	}
	return 0
}

// Run executes the whole protocol.
func (s *Sim) Run() {
	// round 1: all starts happen before any delivery
	s.round, s.phase = 1, "start"
	for _, n := range s.Nodes {
		seed := make([]byte, 32+s.R.IntN(16))
		for i := range seed {
			seed[i] = byte(s.R.Uint32())
		}
		s.ev("start", n.ID, -1, nil, "")
		s.safeCall(n, "Start", func() error { return n.inst.Start(seed) })
		for i := range seed {
			seed[i] = 0xEE // the caller wipes its seed after Start
		}
	}
	s.inject()
	s.flushHeld()
	s.deliverRound()
	for k := 2; k <= 3; k++ {
		s.round, s.phase = k, "timeout"
		for _, n := range s.Nodes {
			s.ev("timeout", n.ID, -1, nil, "")
			s.safeCall(n, "NextTimeout", func() error { return n.inst.NextTimeout() })
		}
		s.inject()
		s.flushHeld()
		s.deliverRound()
	}
	s.round, s.phase = 4, "end"
	for _, n := range s.Nodes {
		if n.Byz {
			continue
		}
		s.ev("end", n.ID, -1, nil, "")
		s.safeCall(n, "End", func() error {
			n.SK, n.GPK, n.PKs, n.EndErr = n.inst.End()
			n.Ended = true
			return nil
		})
	}
	s.computeFeatures()
}

func (s *Sim) Honest() []*Node {
	var h []*Node
	for _, n := range s.Nodes {
		if !n.Byz {
			h = append(h, n)
		}
	}
	return h
}

func (s *Sim) OrderHash() uint64 { return s.orderHash }

// ---- order features (what the schedule actually exercised) ----------------------------------

func (s *Sim) computeFeatures() {
	type key struct{ to, dealer int }
	gotShare := map[key]int{}
	gotVector := map[key]int{}
	complaintSeen := map[[3]int]int{} // (receiver, dealer, complainer) -> seq
	for _, d := range s.Delivered {
		if s.isByz(d.To) {
			continue
		}
		tag := -1
		if len(d.Data) > 0 {
			tag = int(d.Data[0])
		}
		switch {
		case !d.Bcast:
			k := key{d.To, d.From}
			if _, ok := gotShare[k]; !ok {
				gotShare[k] = d.Seq
				if _, v := gotVector[k]; v {
					s.Features["order.vector-before-share"]++
				} else {
					s.Features["order.share-before-vector"]++
				}
			} else {
				s.Features["order.second-private-message"]++
			}
			if d.Round > 1 {
				s.Features["late.private"]++
			}
		case tag == TagVector:
			k := key{d.To, d.From}
			if _, ok := gotVector[k]; !ok {
				gotVector[k] = d.Seq
			} else {
				s.Features["order.second-vector"]++
			}
			if d.Round > 1 {
				s.Features["late.vector"]++
			}
		case tag == TagComplaint && len(d.Data) == 2:
			dealer := int(d.Data[1])
			ck := [3]int{d.To, dealer, d.From}
			if _, ok := complaintSeen[ck]; ok {
				s.Features["order.duplicate-complaint"]++
			} else {
				complaintSeen[ck] = d.Seq
			}
			s.Features[fmt.Sprintf("complaint.round-%d", d.Round)]++
			if s.isByz(d.From) {
				s.Features["complaint.byzantine"]++
			} else {
				s.Features["complaint.honest"]++
			}
		case tag == TagAnswer && len(d.Data) == 34:
			complainer := int(d.Data[1])
			ck := [3]int{d.To, d.From, complainer}
			if _, ok := complaintSeen[ck]; ok {
				s.Features["order.answer-after-complaint"]++
			} else {
				s.Features["order.answer-before-complaint"]++
				if complainer == d.To {
					s.Features["order.answer-before-own-complaint"]++
				}
			}
			s.Features[fmt.Sprintf("answer.round-%d", d.Round)]++
		case tag == -1:
			s.Features["delivered.empty-broadcast"]++
		}
	}
}

func (s *Sim) FeatureKey() string {
	var ks []string
	for k := range s.Features {
		ks = append(ks, k)
	}
	sort.Strings(ks)
	return fmt.Sprintf("%s|n%d|t%d|b%d|%s", s.Sc.Proto, s.Sc.N, s.Sc.T, len(s.Sc.Byz), strings.Join(ks, ","))
}

func (s *Sim) DumpLog() string {
	var sb strings.Builder
	fmt.Fprintf(&sb, "scenario seed=%d proto=%s n=%d t=%d dealer=%d byzantine=%v\n", s.Sc.Seed, s.Sc.Proto, s.Sc.N, s.Sc.T, s.Sc.Dealer, s.Sc.Byz)
	for _, b := range s.Sc.Byz {
		sc := s.Nodes[b].script
		fmt.Fprintf(&sb, "  script[%d]: shares=%v vector=%s complaint=%s answer=%s inject=%v\n", b, sc.Share, sc.Vector, sc.Complaint, sc.Answer, sc.Inject)
	}
	for _, e := range s.Log {
		sb.WriteString(e.String())
		sb.WriteByte('\n')
	}
	return sb.String()
}

// Material returns the honest dealing material captured from a puppet's real instance and
// from its alternative polynomial (ground-truth fast path).
func (n *Node) Material() (vector, altVector []byte, shares, altShares map[int][]byte) {
	return n.vector, n.altVector, n.shares, n.altShares
}

// MangleVector / MangleShare expose the grammar's malformations to other monitors.
func (s *Sim) MangleVector(msg []byte, kind string) []byte { return s.mangleVector(-1, msg, kind) }
func (s *Sim) MangleShare(msg []byte, kind string) []byte  { return s.mangleShare(msg, kind) }
