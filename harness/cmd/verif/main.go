// Command verif runs one property check: verif <ID> <quick|thorough> [args].
package main

import (
	"fmt"
	"os"
	"strings"
	"time"

	"verif/harness/checks"
	"verif/harness/mon"
	"verif/harness/ref"
)

func main() {
	if len(os.Args) < 3 {
		fmt.Println("usage: verif <ID> <quick|thorough>")
		os.Exit(2)
	}
	id, tier := strings.ToUpper(os.Args[1]), os.Args[2]
	if t := os.Getenv("VERIF_TIER"); t == "quick" || t == "thorough" {
		tier = t
	}
	// child modes: `verif child <name> <tier> <outfile>` runs a check body in this (possibly
	// sanitizer-instrumented or differently tagged) build and exports what it observed
	if os.Args[1] == "child" && len(os.Args) >= 5 {
		fn, ok := checks.ChildRuns[os.Args[2]]
		if !ok {
			fmt.Println("unknown child", os.Args[2])
			os.Exit(2)
		}
		run := mon.NewRun(strings.ToUpper(os.Args[2][:3]), os.Args[3])
		func() {
			defer run.Protect("child main")
			fn(run)
		}()
		if err := os.WriteFile(os.Args[4], run.Export(), 0o644); err != nil {
			os.Exit(3)
		}
		os.Exit(0)
	}
	if fn, ok := checks.Children[os.Args[1]]; ok {
		os.Exit(fn(os.Args[2:]))
	}
	if tier == "replay" && len(os.Args) >= 4 {
		if rf, ok := checks.Replays[id]; ok {
			os.Exit(rf(os.Args[3]))
		}
		fmt.Printf("no scenario replay for %s: the replay file holds the literal failing input; rerun with the recorded VERIF_SEED\n", id)
		os.Exit(0)
	}
	fn, ok := checks.Registry[id]
	if !ok {
		fmt.Printf("unknown property %s\n", id)
		os.Exit(2)
	}
	run := mon.NewRun(id, tier)
	// generous wall-clock watchdog: its firing is "inconclusive", never a verdict on the library
	limit := 45 * time.Minute
	if tier == "thorough" {
		limit = 8 * time.Hour
	}
	go func() {
		time.Sleep(limit)
		fmt.Printf("INCONCLUSIVE property=%s reason=watchdog: the check did not finish within %s\n", id, limit)
		os.Exit(2)
	}()
	if err := ref.SelfTestAll(); err != nil {
		run.Inconclusive("reference self-test failed (harness error): " + err.Error())
		os.Exit(run.Finish())
	}
	func() {
		defer run.Protect("main")
		fn(run)
	}()
	os.Exit(run.Finish())
}
