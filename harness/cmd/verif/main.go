// Command verif runs one property check: verif <ID> <quick|thorough> [args].
package main

import (
	"bytes"
	"fmt"
	"io"
	"os"
	"os/exec"
	"regexp"
	"strings"
	"sync"
	"syscall"
	"time"

	"verif/harness/checks"
	"verif/harness/mon"
	"verif/harness/ref"
)

func main() {
	if len(os.Args) < 3 {
		fmt.Println("usage: verif <ID> <quick|thorough>")
		os.Exit(2)
	}
	id, tier := strings.ToUpper(os.Args[1]), os.Args[2]
	if t := os.Getenv("VERIF_TIER"); t == "quick" || t == "thorough" {
		tier = t
	}
	// child modes: `verif child <name> <tier> <outfile>` runs a check body in this (possibly
	// sanitizer-instrumented or differently tagged) build and exports what it observed
	if os.Args[1] == "child" && len(os.Args) >= 5 {
		fn, ok := checks.ChildRuns[os.Args[2]]
		if !ok {
			fmt.Println("unknown child", os.Args[2])
			os.Exit(2)
		}
		run := mon.NewRun(strings.ToUpper(os.Args[2][:3]), os.Args[3])
		func() {
			defer run.Protect("child main")
			fn(run)
		}()
		if err := os.WriteFile(os.Args[4], run.Export(), 0o644); err != nil {
			os.Exit(3)
		}
		os.Exit(0)
	}
	if fn, ok := checks.Children[os.Args[1]]; ok {
		os.Exit(fn(os.Args[2:]))
	}
	if tier == "replay" && len(os.Args) >= 4 {
		if rf, ok := checks.Replays[id]; ok {
			os.Exit(rf(os.Args[3]))
		}
		fmt.Printf("no scenario replay for %s: the replay file holds the literal failing input; rerun with the recorded VERIF_SEED\n", id)
		os.Exit(0)
	}
	fn, ok := checks.Registry[id]
	if !ok {
		fmt.Printf("unknown property %s\n", id)
		os.Exit(2)
	}
	if os.Getenv("VERIF_INNER") == "" {
		os.Exit(supervise(id, tier))
	}
	run := mon.NewRun(id, tier)
	// generous wall-clock watchdog: its firing is "inconclusive", never a verdict on the library
	limit := 45 * time.Minute
	if tier == "thorough" {
		limit = 8 * time.Hour
	}
	go func() {
		time.Sleep(limit)
		fmt.Printf("INCONCLUSIVE property=%s reason=watchdog: the check did not finish within %s\n", id, limit)
		os.Exit(2)
	}()
	if err := ref.SelfTestAll(); err != nil {
		run.Inconclusive("reference self-test failed (harness error): " + err.Error())
		os.Exit(run.Finish())
	}
	func() {
		defer run.Protect("main")
		fn(run)
	}()
	os.Exit(run.Finish())
}

// supervise runs the check itself in a child process (same binary, VERIF_INNER=1). Exit codes 0, 1
// and 2 are the check's own verdicts and pass through. Any other way of ending - a fatal signal
// inside the C layer, a Go runtime fatal error such as "concurrent map writes", which no recover()
// can intercept - would otherwise leave no verdict at all: when the crash output shows library or
// cgo frames it is reported as a violation (the calls of the property did not return), otherwise
// the run is inconclusive.
func supervise(id, tier string) int {
	cmd := exec.Command(os.Args[0], os.Args[1:]...)
	cmd.Env = append(os.Environ(), "VERIF_INNER=1")
	var tail tailBuf
	cmd.Stdout = io.MultiWriter(os.Stdout, &tail)
	cmd.Stderr = io.MultiWriter(os.Stderr, &tail)
	err := cmd.Run()
	code := 0
	fatalSignal := ""
	if err != nil {
		code = -1
		if ee, ok := err.(*exec.ExitError); ok {
			code = ee.ExitCode()
			if ws, ok := ee.Sys().(syscall.WaitStatus); ok && ws.Signaled() {
				switch ws.Signal() {
				case syscall.SIGSEGV, syscall.SIGBUS, syscall.SIGABRT, syscall.SIGILL, syscall.SIGFPE:
					// the harness has no native code of its own: a raw fatal signal comes from the C layer
					fatalSignal = ws.Signal().String()
				}
			}
		}
	}
	out := tail.String()
	// (the Go runtime itself exits with status 2 after a fatal error, an unrecovered panic or a fatal
	// signal: an exit status counts as the check's verdict only if the check printed its summary line)
	finished := regexp.MustCompile(`(?m)^`+regexp.QuoteMeta(id)+` (quick|thorough) seed=-?\d+: verdict=`).MatchString(out) || strings.Contains(out, "INCONCLUSIVE property="+id+" reason=watchdog")
	if (code == 0 || code == 1 || code == 2) && finished {
		return code
	}
	run := mon.NewRun(id, tier)
	site := crashSite(out)
	libraryCrash := strings.Contains(out, "signal arrived during cgo execution") || strings.Contains(out, "SIGABRT: abort") && strings.Contains(out, "_Cfunc_") || strings.Contains(out, "github.com/onflow/crypto") && (strings.Contains(out, "fatal error:") || strings.Contains(out, "SIGSEGV") || strings.Contains(out, "SIGABRT") || strings.Contains(out, "SIGBUS") || strings.Contains(out, "panic:"))
	if libraryCrash || fatalSignal != "" {
		what := "fatal error"
		if fatalSignal != "" {
			what = "killed by signal: " + fatalSignal
			if site == "unknown" {
				site = "native-code"
			}
		}
		if m := regexp.MustCompile(`(?m)^(fatal error: .*|SIG[A-Z]+: .*|panic: .*)$`).FindString(out); m != "" {
			what = m
		}
		if len(out) > 6000 {
			out = out[len(out)-6000:]
		}
		run.Violate(fmt.Sprintf("%s:process-crash:%s", id, site), fmt.Sprintf("the check process died (%v) inside the library: %s at %s", err, what, site), map[string]any{"crash_output_tail": out})
	} else {
		run.Inconclusive(fmt.Sprintf("the check process ended abnormally (%v) without library frames in its output", err))
	}
	return run.Finish()
}

// crashSite names the first onflow/crypto frame (or C symbol) of a crash dump.
func crashSite(out string) string {
	if m := regexp.MustCompile(`github\.com/onflow/crypto(?:/[a-z]+)?\.((?:\(\*?[A-Za-z0-9_]+\)\.)?_?[A-Za-z0-9_]+)`).FindStringSubmatch(out); m != nil {
		return strings.TrimPrefix(m[1], "_Cfunc_")
	}
	return "unknown"
}

// tailBuf keeps the last 256 KiB written to it.
type tailBuf struct {
	mu sync.Mutex
	b  bytes.Buffer
}

func (t *tailBuf) Write(p []byte) (int, error) {
	t.mu.Lock()
	defer t.mu.Unlock()
	t.b.Write(p)
	if t.b.Len() > 512<<10 {
		keep := t.b.Bytes()[t.b.Len()-(256<<10):]
		nb := append([]byte{}, keep...)
		t.b.Reset()
		t.b.Write(nb)
	}
	return len(p), nil
}

func (t *tailBuf) String() string {
	t.mu.Lock()
	defer t.mu.Unlock()
	return t.b.String()
}
