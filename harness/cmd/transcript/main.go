// Command transcript prints a deterministic transcript of library operations over seeded
// inputs. It is built in several configurations (default/ADX, portable, purego, no_cgo) and
// the outputs are compared byte for byte by check C20.
//
// usage: transcript <seed> <quick|thorough>
package main

import (
	"bufio"
	"bytes"
	"crypto/sha256"
	"encoding/binary"
	"encoding/hex"
	"fmt"
	"math/big"
	"math/rand/v2"
	"os"
	"strconv"

	"github.com/onflow/crypto"
	"github.com/onflow/crypto/hash"
	"github.com/onflow/crypto/random"
)

type T struct {
	w     *bufio.Writer
	seed  uint64
	quick bool
}

func (t *T) line(section, op string, in, out any) {
	fmt.Fprintf(t.w, "%s|%s|%v|%v\n", section, op, in, out)
}

func hx(b []byte) string { return hex.EncodeToString(b) }

func dg(b []byte) string {
	s := sha256.Sum256(b)
	return fmt.Sprintf("%d:%s", len(b), hex.EncodeToString(s[:6]))
}

func (t *T) rng(label string) *rand.Rand {
	h := sha256.Sum256([]byte(label))
	var s2 uint64
	for i := 0; i < 8; i++ {
		s2 = s2<<8 | uint64(h[i])
	}
	return rand.New(rand.NewPCG(t.seed, s2))
}

func rb(r *rand.Rand, n int) []byte {
	b := make([]byte, n)
	for i := range b {
		b[i] = byte(r.Uint32())
	}
	return b
}

func errClass(err error) string {
	switch {
	case err == nil:
		return "ok"
	case crypto.IsInvalidInputsError(err):
		return "invalid-inputs"
	case crypto.IsInvalidSignatureError(err):
		return "invalid-signature"
	case crypto.IsNotBLSKeyError(err):
		return "not-bls-key"
	case crypto.IsDKGFailureError(err):
		return "dkg-failure"
	case crypto.IsDKGInvalidStateTransitionError(err):
		return "state-transition"
	case crypto.IsNilHasherError(err):
		return "nil-hasher"
	case crypto.IsInvalidHasherSizeError(err):
		return "hasher-size"
	default:
		return "error"
	}
}

// blsTouch calls BLS entry points and throws the outcome away. In a build without cgo they panic (the
// documented behaviour) and the panic is recovered; in the other builds they succeed. Either way nothing
// they do may influence the non-BLS lines that follow, so the transcript interleaves such calls with
// the ECDSA, hashing and PRG sections in every configuration.
func blsTouch(r *rand.Rand) {
	calls := []func(){
		func() { _, _ = crypto.GeneratePrivateKey(crypto.BLSBLS12381, rb(r, 32+r.IntN(64))) },
		func() { _, _ = crypto.DecodePrivateKey(crypto.BLSBLS12381, rb(r, 32)) },
		func() { _, _ = crypto.DecodePublicKey(crypto.BLSBLS12381, rb(r, 96)) },
		func() { _, _ = crypto.DecodePublicKeyCompressed(crypto.BLSBLS12381, rb(r, 96)) },
		func() { _, _, _, _ = crypto.BLSThresholdKeyGen(3, 1, rb(r, 32)) },
		func() { _, _ = crypto.AggregateBLSSignatures([]crypto.Signature{rb(r, 48)}) },
	}
	for k := 0; k < 2; k++ {
		f := calls[r.IntN(len(calls))]
		func() {
			defer func() { _ = recover() }()
			f()
		}()
	}
}

func (t *T) hashSection() {
	r := t.rng("hash")
	type alg struct {
		name string
		mk   func() hash.Hasher
		rate int
	}
	algs := []alg{{"sha2-256", hash.NewSHA2_256, 64}, {"sha2-384", hash.NewSHA2_384, 128}, {"sha3-256", hash.NewSHA3_256, 136}, {"sha3-384", hash.NewSHA3_384, 104}, {"keccak-256", hash.NewKeccak_256, 136}}
	for _, a := range algs {
		h := a.mk()
		var lens []int
		for k := 0; k <= 3; k++ {
			for d := -2; d <= 2; d++ {
				if l := k*a.rate + d; l >= 0 {
					lens = append(lens, l)
				}
			}
		}
		n := 150
		if !t.quick {
			n = 1500
		}
		for i := 0; i < n; i++ {
			lens = append(lens, r.IntN(5*a.rate))
		}
		for _, l := range lens {
			m := rb(r, l)
			t.line("hash", a.name, hx(m), hx(h.ComputeHash(m)))
			// split writes at unaligned offsets
			h.Reset()
			cut := 0
			if l > 0 {
				cut = r.IntN(l + 1)
			}
			buf := make([]byte, l+9)
			copy(buf[1+cut%8:], m)
			mm := buf[1+cut%8 : 1+cut%8+l]
			_, _ = h.Write(mm[:cut])
			_, _ = h.Write(mm[cut:])
			t.line("hash-split", a.name, fmt.Sprintf("%s@%d", dg(m), cut), hx(h.SumHash()))
		}
	}
	// structured content (zero / sparse / periodic lanes, small integers): content-dependent code paths
	for _, a := range algs {
		span := 2*a.rate + 16
		var ms [][]byte
		for _, l := range []int{8, 32, a.rate - 1, a.rate, a.rate + 8, span} {
			ms = append(ms, make([]byte, l), bytes.Repeat([]byte{0xff}, l), bytes.Repeat(rb(r, 8), l/8+1)[:l])
		}
		for l := 0; l*8+8 <= span; l++ {
			m := make([]byte, span)
			copy(m[l*8:], rb(r, 8))
			ms = append(ms, m)
			m2 := rb(r, span)
			copy(m2[l*8:l*8+8], make([]byte, 8))
			ms = append(ms, m2)
		}
		for period := 2; period <= 4; period++ {
			for phase := 0; phase < period; phase++ {
				m, inv := rb(r, span), rb(r, span)
				for l := 0; l*8+8 <= span; l++ {
					if l%period != phase {
						copy(m[l*8:l*8+8], make([]byte, 8))
					} else {
						copy(inv[l*8:l*8+8], make([]byte, 8))
					}
				}
				ms = append(ms, m, inv)
			}
		}
		for p := 0; p < span; p += 3 {
			m := make([]byte, span)
			m[p] = 0x80
			ms = append(ms, m)
		}
		for _, v := range []uint64{0, 1, 255, 256, 1 << 32, 1<<64 - 1} {
			for _, l := range []int{16, 32, 64} {
				m := make([]byte, l)
				binary.BigEndian.PutUint64(m[l-8:], v)
				ms = append(ms, m)
				m = make([]byte, l)
				binary.LittleEndian.PutUint64(m, v)
				ms = append(ms, m)
			}
		}
		h := a.mk()
		for i, m := range ms {
			t.line("hash-structured", a.name, dg(m)+fmt.Sprintf("#%d", i), hx(h.ComputeHash(m)))
			h.Reset()
			cut := (i * 7) % (len(m) + 1)
			_, _ = h.Write(m[:cut])
			_, _ = h.Write(m[cut:])
			t.line("hash-structured-split", a.name, fmt.Sprintf("%s@%d", dg(m), cut), hx(h.SumHash()))
		}
	}
	var o3, o2 [32]byte
	for _, l := range []int{0, 1, 135, 136, 137, 500} {
		m := rb(r, l)
		hash.ComputeSHA3_256(&o3, m)
		hash.ComputeSHA2_256(&o2, m)
		t.line("hash", "one-shot", hx(m), hx(o3[:])+"/"+hx(o2[:]))
	}
	nk := 200
	if !t.quick {
		nk = 3000
	}
	for i := 0; i < nk; i++ {
		if i%7 == 6 {
			blsTouch(r)
		}
		key := rb(r, []int{16, 17, 162, 163, 164, 168, 331, 32 + r.IntN(300)}[i%8])
		cust := rb(r, r.IntN(30))
		size := []int{0, 1, 32, 128, 167, 168, 169, 1000}[r.IntN(8)]
		h, err := hash.NewKMAC_128(key, cust, size)
		if err != nil {
			t.line("kmac", "new", dg(key), "error")
			continue
		}
		m := rb(r, []int{0, 1, 167, 168, 169, r.IntN(600)}[r.IntN(6)])
		t.line("kmac", fmt.Sprintf("%s/%s/%d", hx(key), hx(cust), size), hx(m), hx(h.ComputeHash(m)))
		_, _ = h.Write(m)
		_, _ = h.Write(m)
		t.line("kmac-stream", fmt.Sprintf("%s/%s/%d", dg(key), dg(cust), size), dg(m), hx(h.SumHash()))
	}
	for _, kl := range []int{0, 15} {
		_, err := hash.NewKMAC_128(make([]byte, kl), nil, 32)
		t.line("kmac", "short-key", kl, err != nil)
	}
}

func (t *T) prgSection() {
	r := t.rng("prg")
	n := 100
	if !t.quick {
		n = 1500
	}
	for i := 0; i < n; i++ {
		seed := rb(r, 32)
		cust := rb(r, r.IntN(13))
		if i%5 == 4 {
			blsTouch(r)
		}
		g, err := random.NewChacha20PRG(seed, cust)
		if err != nil {
			t.line("prg", "new", dg(seed), "error")
			continue
		}
		var out bytes.Buffer
		off := 0
		for k := 0; k < 6; k++ {
			b := make([]byte, []int{0, 1, 63, 64, 65, 200}[r.IntN(6)])
			g.Read(b)
			out.Write(b)
			off += len(b)
		}
		t.line("prg", hx(seed)+"/"+hx(cust), off, hx(out.Bytes()))
		st := g.Store()
		g2, err := random.RestoreChacha20PRG(st)
		if err != nil {
			t.line("prg", "restore", hx(st), "error")
			continue
		}
		p, _ := g2.Permutation(1 + r.IntN(20))
		sp, _ := g2.SubPermutation(12, r.IntN(13))
		t.line("prg-derived", dg(st), fmt.Sprintf("u%d,%d,%d", g2.UintN(1+uint64(r.IntN(1000))), g2.UintN(1<<40+7), g2.UintN(^uint64(0))), fmt.Sprintf("%v%v", p, sp))
		a := []int{0, 1, 2, 3, 4, 5, 6, 7, 8, 9}
		_ = g2.Shuffle(10, func(i, j int) { a[i], a[j] = a[j], a[i] })
		_ = g2.Samples(10, 4, func(i, j int) { a[i], a[j] = a[j], a[i] })
		t.line("prg-derived", "shuffle-samples", "", fmt.Sprintf("%v %s", a, hx(g2.Store()[44:])))
	}
}

func (t *T) ecdsaSection() {
	r := t.rng("ecdsa")
	n := 30
	if !t.quick {
		n = 400
	}
	hs := []func() hash.Hasher{hash.NewSHA2_256, hash.NewSHA3_256, hash.NewSHA2_384, hash.NewKeccak_256}
	for _, alg := range []crypto.SigningAlgorithm{crypto.ECDSAP256, crypto.ECDSASecp256k1} {
		// decoded private scalars of every shape (small values, leading zero bytes followed by bytes with and
		// without the top bit, single bits): encoding, size, printed form, re-decoding, public key
		var shaped [][]byte
		for _, v := range []int64{1, 2, 255, 256, 65535, 65536, 1 << 32, 1<<62 + 5} {
			shaped = append(shaped, big.NewInt(v).FillBytes(make([]byte, 32)))
		}
		for z := 1; z <= 30; z += 2 {
			for _, first := range []byte{0x01, 0x7f, 0x80, 0xff} {
				b := rb(r, 32)
				for j := 0; j < z; j++ {
					b[j] = 0
				}
				b[z] = first
				shaped = append(shaped, b)
			}
		}
		for _, k := range []int{8, 63, 64, 127, 128, 191, 192, 247, 248, 250} {
			b := make([]byte, 32)
			b[31-k/8] = 1 << (k % 8)
			shaped = append(shaped, b)
		}
		for _, b := range shaped {
			sk, err := crypto.DecodePrivateKey(alg, b)
			if err != nil {
				t.line("ecdsa", "shaped-scalar/"+alg.String(), hx(b), errClass(err))
				continue
			}
			enc := sk.Encode()
			back, e2 := crypto.DecodePrivateKey(alg, enc)
			eq := e2 == nil && back.Equals(sk)
			t.line("ecdsa", "shaped-scalar/"+alg.String(), hx(b), fmt.Sprintf("%s/%d/%s/%v/%s/%s", hx(enc), sk.Size(), sk.String(), eq, hx(sk.PublicKey().Encode()), hx(sk.PublicKey().EncodeCompressed())))
		}
		for i := 0; i < n; i++ {
			seed := rb(r, 32+r.IntN(100))
			if i%2 == 1 {
				blsTouch(r)
			}
			sk, err := crypto.GeneratePrivateKey(alg, seed)
			if err != nil {
				t.line("ecdsa", "keygen", dg(seed), errClass(err))
				continue
			}
			pk := sk.PublicKey()
			t.line("ecdsa", "keygen/"+alg.String(), hx(seed), hx(sk.Encode())+"/"+hx(pk.Encode())+"/"+hx(pk.EncodeCompressed()))
			h := hs[i%len(hs)]()
			msg := rb(r, r.IntN(100))
			sig, err := sk.Sign(msg, h) // randomized: recorded through verification only
			ok, err2 := pk.Verify(sig, msg, h)
			t.line("ecdsa", "sign-verify/"+alg.String(), dg(msg), fmt.Sprintf("%s/%v/%s", errClass(err), ok, errClass(err2)))
			// deterministic verification verdicts on crafted strings derived from the key
			x := new(big.Int).SetBytes(pk.Encode()[:32])
			for k := 0; k < 6; k++ {
				cand := make([]byte, 64)
				new(big.Int).Add(x, big.NewInt(int64(k))).FillBytes(cand[:32])
				copy(cand[32:], sk.Encode())
				cand[63] ^= byte(k)
				ok, e := pk.Verify(cand, msg, h)
				fc, e2 := crypto.SignatureFormatCheck(alg, cand)
				t.line("ecdsa", "verify-crafted/"+alg.String(), dg(cand), fmt.Sprintf("%v/%s/%v/%s", ok, errClass(e), fc, errClass(e2)))
			}
			// decoding verdicts
			for k := 0; k < 8; k++ {
				b := append([]byte{}, pk.Encode()...)
				c := append([]byte{}, pk.EncodeCompressed()...)
				s := append([]byte{}, sk.Encode()...)
				if k > 0 {
					b[r.IntN(64)] ^= 1 << r.IntN(8)
					c[r.IntN(33)] ^= 1 << r.IntN(8)
					s[r.IntN(4)] = 0xff
				}
				_, e1 := crypto.DecodePublicKey(alg, b)
				_, e2 := crypto.DecodePublicKeyCompressed(alg, c)
				_, e3 := crypto.DecodePrivateKey(alg, s)
				t.line("ecdsa", "decode/"+alg.String(), dg(b)+dg(c)+dg(s), errClass(e1)+"/"+errClass(e2)+"/"+errClass(e3))
			}
		}
	}
}

func main() {
	if len(os.Args) < 3 {
		fmt.Println("usage: transcript <seed> <quick|thorough>")
		os.Exit(2)
	}
	seed, _ := strconv.ParseUint(os.Args[1], 10, 64)
	t := &T{w: bufio.NewWriterSize(os.Stdout, 1<<20), seed: seed, quick: os.Args[2] != "thorough"}
	defer t.w.Flush()
	t.hashSection()
	t.prgSection()
	t.ecdsaSection()
	blsSections(t)
}
