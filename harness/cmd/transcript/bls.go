//go:build cgo && !no_cgo

package main

import (
	"fmt"
	"math/big"
	"runtime"

	"github.com/onflow/crypto"
	"github.com/onflow/crypto/hash"

	"verif/harness/sim"
)

const blsAlg = crypto.BLSBLS12381

// rawHasher returns (a copy of) whatever its owner put into out.
type rawHasher struct{ out []byte }

func (h *rawHasher) Algorithm() hash.HashingAlgorithm { return hash.UnknownHashingAlgorithm }
func (h *rawHasher) Size() int                        { return len(h.out) }
func (h *rawHasher) ComputeHash([]byte) hash.Hash     { return append([]byte{}, h.out...) }
func (h *rawHasher) Write(p []byte) (int, error)      { return len(p), nil }
func (h *rawHasher) SumHash() hash.Hash               { return append([]byte{}, h.out...) }
func (h *rawHasher) Reset()                           {}

func flip(b []byte, i int) []byte {
	c := append([]byte{}, b...)
	c[i/8] ^= 0x80 >> (i % 8)
	return c
}

func blsSections(t *T) {
	r := t.rng("bls")
	n := 30
	if !t.quick {
		n = 300
	}
	// scalars of every shape: single bits, runs of ones, leading zero bytes followed by bytes with and
	// without the top bit, r-1, r-2: public key, a signature and its verification
	{
		var shaped [][]byte
		add := func(b []byte) { shaped = append(shaped, b) }
		for _, k := range []int{0, 1, 6, 7, 8, 15, 16, 63, 64, 65, 127, 128, 191, 192, 247, 248, 250, 253, 254} {
			b := make([]byte, 32)
			b[31-k/8] = 1 << (k % 8)
			add(b)
			c := make([]byte, 32)
			for j := 31 - k/8; j < 32; j++ {
				c[j] = 0xff
			}
			c[31-k/8] = byte(1<<(k%8+1) - 1)
			add(c)
		}
		for z := 1; z <= 30; z += 3 {
			for _, first := range []byte{0x01, 0x7f, 0x80, 0xff} {
				b := rb(r, 32)
				for j := 0; j < z; j++ {
					b[j] = 0
				}
				b[z] = first
				add(b)
			}
		}
		order, _ := new(big.Int).SetString("73eda753299d7d483339d80809a1d80553bda402fffe5bfeffffffff00000001", 16)
		add(new(big.Int).Sub(order, big.NewInt(1)).FillBytes(make([]byte, 32)))
		add(new(big.Int).Sub(order, big.NewInt(2)).FillBytes(make([]byte, 32)))
		hs := crypto.NewExpandMsgXOFKMAC128("shaped")
		for _, b := range shaped {
			sk, err := crypto.DecodePrivateKey(blsAlg, b)
			if err != nil {
				t.line("bls", "shaped-scalar", hx(b), errClass(err))
				continue
			}
			pk := sk.PublicKey()
			sig, _ := sk.Sign([]byte("shaped"), hs)
			ok, _ := pk.Verify(sig, []byte("shaped"), hs)
			pop, _ := crypto.BLSGeneratePOP(sk)
			okp, _ := crypto.BLSVerifyPOP(pk, pop)
			t.line("bls", "shaped-scalar", hx(b), hx(pk.Encode())+"/"+dg(sig)+fmt.Sprintf("/%v/%v", ok, okp))
		}
	}
	// caller-provided hashers whose 128-byte outputs are related (common prefix / suffix, one bit apart),
	// signed and verified one right after the other on one OS thread
	{
		runtime.LockOSThread()
		cur := make([]byte, 128)
		ch := &rawHasher{out: cur}
		sk, _ := crypto.DecodePrivateKey(blsAlg, append(make([]byte, 31), 5))
		pk := sk.PublicKey()
		for _, k := range []int{1, 8, 15, 16, 17, 32, 48, 63, 64, 65, 96, 120, 127} {
			a := rb(r, 128)
			a[0], a[64] = a[0]&0x0f, a[64]&0x0f
			b := append(append([]byte{}, a[:k]...), rb(r, 128-k)...)
			b[64] &= 0x0f
			c := append(rb(r, 128-k), a[128-k:]...)
			c[0], c[64] = c[0]&0x0f, c[64]&0x0f
			d := append([]byte{}, a...)
			d[k] ^= 1
			var sigA []byte
			for j, u := range [][]byte{a, b, a, c, a, d, c, b} {
				copy(cur, u)
				sig, err := sk.Sign([]byte("m"), ch)
				if j == 0 {
					sigA = sig
				}
				okOwn, _ := pk.Verify(sig, []byte("m"), ch)
				okA, _ := pk.Verify(sigA, []byte("m"), ch)
				t.line("bls-custom-hasher", fmt.Sprintf("related-%d/%d", k, j), hx(u), hx(sig)+"/"+errClass(err)+fmt.Sprintf("/%v/%v", okOwn, okA))
			}
		}
		runtime.UnlockOSThread()
	}
	var sks []crypto.PrivateKey
	var pks []crypto.PublicKey
	for i := 0; i < n; i++ {
		seed := rb(r, 32+r.IntN(200))
		sk, err := crypto.GeneratePrivateKey(blsAlg, seed)
		if err != nil {
			t.line("bls", "keygen", dg(seed), errClass(err))
			continue
		}
		pk := sk.PublicKey()
		sks, pks = append(sks, sk), append(pks, pk)
		t.line("bls", "keygen", hx(seed), hx(sk.Encode())+"/"+hx(pk.Encode()))
		tag := fmt.Sprintf("tag-%d", i%3)
		h := crypto.NewExpandMsgXOFKMAC128(tag)
		msg := rb(r, r.IntN(200))
		sig, err := sk.Sign(msg, h)
		t.line("bls", "sign/"+tag, hx(msg), hx(sig)+"/"+errClass(err))
		ok, err := pk.Verify(sig, msg, h)
		t.line("bls", "verify", dg(sig), fmt.Sprintf("%v/%s", ok, errClass(err)))
		nf := 24
		if !t.quick && i%10 == 0 {
			nf = 384
		}
		for f := 0; f < nf; f++ {
			bit := f
			if nf != 384 {
				bit = r.IntN(384)
			}
			c := flip(sig, bit)
			ok, err := pk.Verify(c, msg, h)
			t.line("bls", "verify-flip", bit, fmt.Sprintf("%v/%s", ok, errClass(err)))
		}
		for _, l := range []int{0, 47, 49} {
			c := make([]byte, l)
			copy(c, sig)
			ok, err := pk.Verify(c, msg, h)
			t.line("bls", "verify-len", l, fmt.Sprintf("%v/%s", ok, errClass(err)))
		}
		pop, err := crypto.BLSGeneratePOP(sk)
		okp, _ := crypto.BLSVerifyPOP(pk, pop)
		oks, _ := crypto.BLSVerifyPOP(pk, sig)
		t.line("bls", "pop", dg(pk.Encode()), fmt.Sprintf("%s/%s/%v/%v", hx(pop), errClass(err), okp, oks))
		// decoding verdicts on mutated encodings
		for k := 0; k < 12; k++ {
			b := append([]byte{}, pk.Encode()...)
			s := append([]byte{}, sk.Encode()...)
			if k > 0 {
				b[r.IntN(96)] ^= 1 << r.IntN(8)
				s[r.IntN(3)] ^= 0x80
			}
			p2, e1 := crypto.DecodePublicKey(blsAlg, b)
			_, e2 := crypto.DecodePrivateKey(blsAlg, s)
			enc := ""
			if e1 == nil {
				enc = dg(p2.Encode())
			}
			t.line("bls", "decode", dg(b)+dg(s), errClass(e1)+"/"+errClass(e2)+"/"+enc)
		}
	}
	// aggregation, multi-message and batch verification
	h := crypto.NewExpandMsgXOFKMAC128("agg")
	rounds := 25
	if !t.quick {
		rounds = 150
	}
	for i := 0; i < rounds; i++ {
		k := 2 + r.IntN(len(sks)-1)
		if k > 12 {
			k = 12
		}
		idx := r.Perm(len(sks))[:k]
		msg := rb(r, 20)
		var ss []crypto.Signature
		var pp []crypto.PublicKey
		var kk []crypto.PrivateKey
		var ms [][]byte
		var hs []hash.Hasher
		var many []crypto.Signature
		for j, ix := range idx {
			s, _ := sks[ix].Sign(msg, h)
			ss = append(ss, s)
			pp = append(pp, pks[ix])
			kk = append(kk, sks[ix])
			m := rb(r, 5+j%3)
			if j%3 == 0 {
				m = msg
			}
			ms = append(ms, m)
			hs = append(hs, h)
			s2, _ := sks[ix].Sign(m, h)
			many = append(many, s2)
		}
		agg, err := crypto.AggregateBLSSignatures(ss)
		apk, _ := crypto.AggregateBLSPublicKeys(pp)
		ask, _ := crypto.AggregateBLSPrivateKeys(kk)
		rem, _ := crypto.RemoveBLSPublicKeys(apk, pp[1:])
		t.line("bls-agg", "aggregate", k, fmt.Sprintf("%s/%s/%s/%s/%s/%v", hx(agg), errClass(err), hx(apk.Encode()), hx(ask.Encode()), hx(rem.Encode()), rem.Equals(pp[0])))
		ok1, e1 := crypto.VerifyBLSSignatureOneMessage(pp, agg, msg, h)
		ok2, e2 := crypto.VerifyBLSSignatureOneMessage(pp, ss[0], msg, h)
		aggMany, _ := crypto.AggregateBLSSignatures(many)
		ok3, e3 := crypto.VerifyBLSSignatureManyMessages(pp, aggMany, ms, hs)
		ok4, e4 := crypto.VerifyBLSSignatureManyMessages(pp, agg, ms, hs)
		t.line("bls-agg", "verify", k, fmt.Sprintf("%v/%s/%v/%s/%v/%s/%v/%s", ok1, errClass(e1), ok2, errClass(e2), ok3, errClass(e3), ok4, errClass(e4)))
		bs := append([]crypto.Signature{}, ss...)
		bs[r.IntN(k)] = many[k-1]
		if k > 3 {
			bs[1], bs[2] = bs[2], bs[1]
		}
		res, e5 := crypto.BatchVerifyBLSSignaturesOneMessage(pp, bs, msg, h)
		t.line("bls-agg", "batch", k, fmt.Sprintf("%v/%s", res, errClass(e5)))
		p1, _ := crypto.SPOCKProve(kk[0], msg, h)
		p2, _ := crypto.SPOCKProve(kk[1], msg, h)
		sv1, _ := crypto.SPOCKVerify(pp[0], p1, pp[1], p2)
		sv2, _ := crypto.SPOCKVerify(pp[0], p1, pp[1], many[1])
		t.line("bls-agg", "spock", k, fmt.Sprintf("%v/%v", sv1, sv2))
	}
	// algebraic corners: duplicates (doubling), opposite pairs (cancellation), identity operands
	negKey := func(sk crypto.PrivateKey) crypto.PrivateKey {
		// r - k, from the scalar bytes
		rOrder, _ := new(big.Int).SetString("73eda753299d7d483339d80809a1d80553bda402fffe5bfeffffffff00000001", 16)
		k := new(big.Int).SetBytes(sk.Encode())
		nk, err := crypto.DecodePrivateKey(blsAlg, new(big.Int).Sub(rOrder, k).FillBytes(make([]byte, 32)))
		if err != nil {
			return sk
		}
		return nk
	}
	inf := make([]byte, 48)
	inf[0] = 0xC0
	for i := 0; i < rounds; i++ {
		a, b := sks[r.IntN(len(sks))], sks[r.IntN(len(sks))]
		msg := rb(r, 12)
		sa, _ := a.Sign(msg, h)
		sb, _ := b.Sign(msg, h)
		sna, _ := negKey(a).Sign(msg, h)
		lists := map[string][]crypto.Signature{
			"s,s": {sa, sa}, "s,s,t": {sa, sa, sb}, "t,s,s": {sb, sa, sa}, "s,-s": {sa, sna}, "s,-s,t": {sa, sna, sb},
			"O,s": {inf, sa}, "s,O": {sa, inf}, "O,O": {inf, inf}, "s,t,s,t": {sa, sb, sa, sb}, "s,s,s,s,s": {sa, sa, sa, sa, sa},
		}
		for _, name := range []string{"s,s", "s,s,t", "t,s,s", "s,-s", "s,-s,t", "O,s", "s,O", "O,O", "s,t,s,t", "s,s,s,s,s"} {
			agg, err := crypto.AggregateBLSSignatures(lists[name])
			t.line("bls-corner", "agg-sig/"+name, dg(msg), hx(agg)+"/"+errClass(err))
		}
		pa, pb, pna := a.PublicKey(), b.PublicKey(), negKey(a).PublicKey()
		id := crypto.IdentityBLSPublicKey()
		pkl := map[string][]crypto.PublicKey{"p,p": {pa, pa}, "p,p,q": {pa, pa, pb}, "p,-p": {pa, pna}, "p,-p,q": {pa, pna, pb}, "O,p": {id, pa}, "p,O,q": {pa, id, pb}, "p,q,p,q": {pa, pb, pa, pb}}
		for _, name := range []string{"p,p", "p,p,q", "p,-p", "p,-p,q", "O,p", "p,O,q", "p,q,p,q"} {
			agg, err := crypto.AggregateBLSPublicKeys(pkl[name])
			out := errClass(err)
			if err == nil {
				out += "/" + hx(agg.Encode())
			}
			t.line("bls-corner", "agg-pk/"+name, dg(pa.Encode()), out)
		}
		rem := []struct {
			name string
			x    crypto.PublicKey
			ys   []crypto.PublicKey
		}{{"p-[p]", pa, []crypto.PublicKey{pa}}, {"p-[-p]", pa, []crypto.PublicKey{pna}}, {"-p-[p]", pna, []crypto.PublicKey{pa}}, {"p-[q,q]", pa, []crypto.PublicKey{pb, pb}}, {"O-[p]", id, []crypto.PublicKey{pa}}, {"p-[O]", pa, []crypto.PublicKey{id}}}
		for _, c := range rem {
			res, err := crypto.RemoveBLSPublicKeys(c.x, c.ys)
			out := errClass(err)
			if err == nil {
				out += "/" + hx(res.Encode())
			}
			t.line("bls-corner", "remove/"+c.name, dg(pa.Encode()), out)
		}
		// the same (key, message) pair listed twice, and twice the same key on two messages
		m2 := rb(r, 9)
		sa2, _ := a.Sign(m2, h)
		dup, _ := crypto.AggregateBLSSignatures([]crypto.Signature{sa, sa, sb})
		ok1, e1 := crypto.VerifyBLSSignatureManyMessages([]crypto.PublicKey{pa, pa, pb}, dup, [][]byte{msg, msg, msg}, []hash.Hasher{h, h, h})
		two, _ := crypto.AggregateBLSSignatures([]crypto.Signature{sa, sa2, sa, sb})
		ok2, e2 := crypto.VerifyBLSSignatureManyMessages([]crypto.PublicKey{pa, pa, pa, pb}, two, [][]byte{msg, m2, msg, msg}, []hash.Hasher{h, h, h, h})
		ok3, e3 := crypto.VerifyBLSSignatureOneMessage([]crypto.PublicKey{pa, pa, pb}, dup, msg, h)
		res, e4 := crypto.BatchVerifyBLSSignaturesOneMessage([]crypto.PublicKey{pa, pa, pb, pa}, []crypto.Signature{sa, sa, sb, sb}, msg, h)
		t.line("bls-corner", "verify-dups", dg(msg), fmt.Sprintf("%v/%s/%v/%s/%v/%s/%v/%s", ok1, errClass(e1), ok2, errClass(e2), ok3, errClass(e3), res, errClass(e4)))
	}
	// many distinct (key, message) couples: more than one Miller-loop batch
	for _, k := range []int{15, 16, 17, 24, 33} {
		var pp []crypto.PublicKey
		var ms [][]byte
		var hs []hash.Hasher
		var ss []crypto.Signature
		for j := 0; j < k; j++ {
			sk, err := crypto.GeneratePrivateKey(blsAlg, rb(r, 32))
			if err != nil {
				continue
			}
			m := rb(r, 8+j%5)
			sg, _ := sk.Sign(m, h)
			pp, ms, hs, ss = append(pp, sk.PublicKey()), append(ms, m), append(hs, h), append(ss, sg)
		}
		agg, _ := crypto.AggregateBLSSignatures(ss)
		ok1, e1 := crypto.VerifyBLSSignatureManyMessages(pp, agg, ms, hs)
		ok2, e2 := crypto.VerifyBLSSignatureManyMessages(pp, ss[0], ms, hs)
		res, e3 := crypto.BatchVerifyBLSSignaturesOneMessage(pp, ss, ms[0], h)
		t.line("bls-agg", "many-distinct", k, fmt.Sprintf("%v/%s/%v/%s/%v/%s", ok1, errClass(e1), ok2, errClass(e2), res, errClass(e3)))
	}
	// threshold groups with many signers and index sets mixing small and large indices
	for _, cfg := range [][2]int{{254, 9}, {254, 16}, {200, 11}, {64, 23}} {
		nn, tt := cfg[0], cfg[1]
		seed := rb(r, 32)
		tsks, _, gpk, err := crypto.BLSThresholdKeyGen(nn, tt, seed)
		if err != nil {
			t.line("bls-thr", "keygen-large", fmt.Sprint(nn, tt), errClass(err))
			continue
		}
		msg := rb(r, 10)
		hk := crypto.NewExpandMsgXOFKMAC128("thr")
		sets := [][]int{}
		mixed := []int{}
		for j := 0; j < tt; j++ {
			mixed = append(mixed, j)
		}
		mixed = append(mixed, nn-5)
		top := []int{}
		for j := 0; j <= tt; j++ {
			top = append(top, nn-1-j)
		}
		alt := []int{}
		for lo, hi := 0, nn-1; len(alt) <= tt; lo, hi = lo+1, hi-1 {
			alt = append(alt, lo)
			if len(alt) <= tt {
				alt = append(alt, hi)
			}
		}
		sets = append(sets, mixed, top, alt, r.Perm(nn)[:tt+1])
		for _, signers := range sets {
			var shares []crypto.Signature
			for _, s := range signers {
				sg, _ := tsks[s].Sign(msg, hk)
				shares = append(shares, sg)
			}
			ts, err := crypto.BLSReconstructThresholdSignature(nn, tt, shares, signers)
			ok, _ := gpk.Verify(ts, msg, hk)
			t.line("bls-thr", fmt.Sprintf("reconstruct-large/%d/%d", nn, tt), fmt.Sprint(signers[:3], "..", signers[len(signers)-1]), fmt.Sprintf("%s/%s/%v", hx(ts), errClass(err), ok))
		}
	}
	// threshold
	for i := 0; i < rounds; i++ {
		nn := 2 + r.IntN(9)
		tt := 1 + r.IntN(nn-1)
		seed := rb(r, 32)
		tsks, tpks, gpk, err := crypto.BLSThresholdKeyGen(nn, tt, seed)
		if err != nil {
			t.line("bls-thr", "keygen", fmt.Sprint(nn, tt), errClass(err))
			continue
		}
		out := hx(gpk.Encode())
		for j := range tsks {
			out += "/" + hx(tsks[j].Encode()) + ":" + dg(tpks[j].Encode())
		}
		t.line("bls-thr", "keygen", fmt.Sprintf("%d,%d,%s", nn, tt, hx(seed)), out)
		msg := rb(r, 10)
		hk := crypto.NewExpandMsgXOFKMAC128("thr")
		signers := r.Perm(nn)[:tt+1]
		var shares []crypto.Signature
		for _, s := range signers {
			sg, _ := tsks[s].Sign(msg, hk)
			shares = append(shares, sg)
		}
		ts, err := crypto.BLSReconstructThresholdSignature(nn, tt, shares, signers)
		ok, _ := gpk.Verify(ts, msg, hk)
		t.line("bls-thr", "reconstruct", fmt.Sprint(signers), fmt.Sprintf("%s/%s/%v", hx(ts), errClass(err), ok))
	}
	// large groups (participant indices up to the maximum 253): one dealer, a few receivers; every
	// receiver derives all public key shares from the verification vector
	for gi, g := range [][2]int{{254, 1}, {254, 3}, {200, 5}, {172, 2}} {
		nn, tt := g[0], g[1]
		for _, qual := range []bool{false, true} {
			mkInst := func(id int, pr crypto.DKGProcessor) (crypto.DKGState, error) {
				if qual {
					return crypto.NewFeldmanVSSQual(nn, tt, id, pr, 0)
				}
				return crypto.NewFeldmanVSS(nn, tt, id, pr, 0)
			}
			dp := &tproc{shares: map[int][]byte{}}
			dealer, err := mkInst(0, dp)
			if err != nil {
				t.line("bls-dkg-large", "new", fmt.Sprint(nn, tt, qual), "error")
				continue
			}
			seed := make([]byte, 32)
			for i := range seed {
				seed[i] = byte(r.Uint32())
			}
			_ = dealer.Start(seed)
			recv := []int{1, 127, 128, 169, 170, 171, 199, 253}
			if t.quick && gi > 1 {
				recv = []int{170, 171}
			}
			for _, id := range recv {
				if id >= nn || len(dp.bcast) == 0 {
					continue
				}
				rp := &tproc{shares: map[int][]byte{}}
				in, err := mkInst(id, rp)
				if err != nil {
					continue
				}
				_ = in.Start(seed)
				_ = in.HandleBroadcastMsg(0, dp.bcast[0])
				_ = in.HandlePrivateMsg(0, dp.shares[id])
				if qual {
					_ = in.NextTimeout()
					_ = in.NextTimeout()
				}
				sk, gpk, pks, err := in.End()
				out := errClass(err)
				if err == nil {
					var all []byte
					for _, pk := range pks {
						all = append(all, pk.Encode()...)
					}
					out += "/" + hx(sk.Encode()) + "/" + dg(gpk.Encode()) + "/" + dg(all) + "/" + dg(pks[id].Encode()) + fmt.Sprint(rp.ev)
				}
				t.line("bls-dkg-large", fmt.Sprintf("%d/%d/qual=%v", nn, tt, qual), id, out)
			}
		}
	}
	// DKG message transcripts: all-honest runs of the network simulator under a fixed schedule
	dk := 8
	if !t.quick {
		dk = 40
	}
	for i := 0; i < dk; i++ {
		for _, p := range []sim.Proto{sim.FVSSQ, sim.JF} {
			nn := 2 + r.IntN(5)
			tt := 1 + r.IntN(nn-1)
			sc := sim.Scenario{Seed: t.seed*1000 + uint64(i), Proto: p, N: nn, T: tt, Dealer: r.IntN(nn)}
			s, err := sim.New(sc)
			if err != nil {
				t.line("bls-dkg", "new", fmt.Sprint(p, nn, tt), "error")
				continue
			}
			s.Run()
			for _, e := range s.Log {
				if e.Kind == "send-bcast" || e.Kind == "send-priv" || e.Kind == "disqualify" || e.Kind == "flag" {
					t.line("bls-dkg", fmt.Sprintf("%s/%d/%d/%s", p, nn, tt, e.Kind), fmt.Sprintf("%d>%d", e.Node, e.Peer), hx(e.Data))
				}
			}
			for _, hn := range s.Honest() {
				out := errClass(hn.EndErr)
				if hn.EndErr == nil && hn.Ended {
					out += "/" + hx(hn.SK.Encode()) + "/" + hx(hn.GPK.Encode())
					for _, pk := range hn.PKs {
						out += "/" + dg(pk.Encode())
					}
				}
				t.line("bls-dkg", fmt.Sprintf("%s/%d/%d/end", p, nn, tt), hn.ID, out)
			}
		}
	}
}

// tproc is a recording DKG processor for the large-group runs.
type tproc struct {
	shares map[int][]byte
	bcast  [][]byte
	ev     []string
}

func (p *tproc) PrivateSend(dest int, data []byte) { p.shares[dest] = append([]byte{}, data...) }
func (p *tproc) Broadcast(data []byte)             { p.bcast = append(p.bcast, append([]byte{}, data...)) }
func (p *tproc) Disqualify(i int, _ string)        { p.ev = append(p.ev, fmt.Sprintf("disq%d", i)) }
func (p *tproc) FlagMisbehavior(i int, _ string)   { p.ev = append(p.ev, fmt.Sprintf("flag%d", i)) }
