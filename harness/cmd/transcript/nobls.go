//go:build !cgo || no_cgo

package main

// BLS functionality is not available without cgo: the transcript stops at the non-BLS sections.
func blsSections(t *T) {}
