package mon

import (
	"context"
	"encoding/json"
	"fmt"
	"os"
	"os/exec"
	"path/filepath"
	"strings"
	"time"
)

type exported struct {
	Evaluations  int64               `json:"evaluations"`
	Shapes       []string            `json:"shapes"`
	Counters     map[string]int64    `json:"counters"`
	Sets         map[string][]string `json:"sets"`
	Samples      []any               `json:"samples"`
	Violations   []*Violation        `json:"violations"`
	Inconclusive []string            `json:"inconclusive"`
	Extra        map[string]any      `json:"extra"`
}

// Export serialises what a child run observed.
func (r *Run) Export() []byte {
	r.mu.Lock()
	defer r.mu.Unlock()
	e := exported{Evaluations: r.evaluations, Counters: r.counters, Samples: r.samples, Inconclusive: r.inconclusive, Extra: r.Extra, Sets: map[string][]string{}}
	for s := range r.shapes {
		e.Shapes = append(e.Shapes, s)
	}
	for k, m := range r.sets {
		for v := range m {
			e.Sets[k] = append(e.Sets[k], v)
		}
	}
	for _, v := range r.violations {
		e.Violations = append(e.Violations, v)
	}
	b, _ := json.Marshal(e)
	return b
}

// Merge folds a child's observations into the parent run; label prefixes shapes and counters.
func (r *Run) Merge(b []byte, label string) error {
	var e exported
	if err := json.Unmarshal(b, &e); err != nil {
		return err
	}
	r.mu.Lock()
	defer r.mu.Unlock()
	r.evaluations += e.Evaluations
	for _, s := range e.Shapes {
		r.shapes[label+"|"+s] = struct{}{}
	}
	for k, v := range e.Counters {
		r.counters[label+"."+k] += v
	}
	for k, vs := range e.Sets {
		m := r.sets[k]
		if m == nil {
			m = map[string]struct{}{}
			r.sets[k] = m
		}
		for _, v := range vs {
			m[v] = struct{}{}
		}
	}
	for _, s := range e.Samples {
		if len(r.samples) < r.maxSamples {
			r.samples = append(r.samples, s)
		}
	}
	for _, v := range e.Violations {
		if old, ok := r.violations[v.Signature]; ok {
			old.Count += v.Count
		} else {
			v.What = "[" + label + " build] " + v.What
			r.violations[v.Signature] = v
		}
	}
	for _, s := range e.Inconclusive {
		r.inconclusive = append(r.inconclusive, label+": "+s)
	}
	for k, v := range e.Extra {
		r.Extra[label+"."+k] = v
	}
	return nil
}

// WorkDir returns (and creates) the scratch directory under the verification root.
func WorkDir(sub string) string {
	d := filepath.Join(Root(), ".work", sub)
	_ = os.MkdirAll(d, 0o755)
	return d
}

// RunChild executes `bin child <name> <tier> <outfile>` and merges its observations.
// A child that dies or times out makes the run inconclusive unless its output shows a
// sanitizer report or fatal error, which is then recorded as a violation.
func (r *Run) RunChild(bin, name, label string, timeout time.Duration, env ...string) {
	if bin == "" {
		r.Inconclusive("no binary for the " + label + " build (environment variable not set by bin/check)")
		return
	}
	dir := WorkDir("child")
	out := filepath.Join(dir, fmt.Sprintf("%s-%s-%s-%d.json", r.ID, name, label, os.Getpid()))
	logf := filepath.Join(dir, fmt.Sprintf("%s-%s-%s-%d.log", r.ID, name, label, os.Getpid()))
	_ = os.Remove(out)
	ctx, cancel := context.WithTimeout(context.Background(), timeout)
	defer cancel()
	cmd := exec.CommandContext(ctx, bin, "child", name, r.Tier, out)
	cmd.Env = append(os.Environ(), env...)
	cmd.Env = append(cmd.Env, fmt.Sprintf("VERIF_SEED=%d", r.Seed))
	lf, _ := os.Create(logf)
	cmd.Stdout, cmd.Stderr = lf, lf
	err := cmd.Run()
	lf.Close()
	r.mu.Lock()
	r.Builds = append(r.Builds, label)
	r.mu.Unlock()
	b, rerr := os.ReadFile(out)
	if rerr == nil {
		if merr := r.Merge(b, label); merr != nil {
			r.Inconclusive(label + " child output unreadable: " + merr.Error())
		}
	}
	if err != nil || rerr != nil {
		logb, _ := os.ReadFile(logf)
		tail := string(logb)
		if len(tail) > 3000 {
			tail = tail[len(tail)-3000:]
		}
		switch {
		case ctx.Err() != nil:
			r.Inconclusive(fmt.Sprintf("%s child %s timed out after %s", label, name, timeout))
		case strings.Contains(string(logb), "AddressSanitizer") || strings.Contains(string(logb), "DATA RACE") || strings.Contains(string(logb), "fatal error:") || strings.Contains(string(logb), "checkptr") || strings.Contains(string(logb), "panic:"):
			r.Violate(fmt.Sprintf("%s:%s-child-crash:%s", r.ID, label, name), fmt.Sprintf("child %s in the %s build died: %v\n%s", name, label, err, tail), map[string]any{"log": logf})
			return
		default:
			r.Inconclusive(fmt.Sprintf("%s child %s failed: %v: %s", label, name, err, tail))
		}
		return
	}
	_ = os.Remove(out)
	_ = os.Remove(logf)
}
