// Package mon is the monitor runtime: counters of what was observed, violation records with
// deterministic signatures, the known-findings lookup, evidence and replay files.
package mon

import (
	"crypto/sha256"
	"encoding/hex"
	"encoding/json"
	"fmt"
	"math/rand/v2"
	"os"
	"path/filepath"
	"runtime"
	"runtime/debug"
	"sort"
	"strconv"
	"strings"
	"sync"
	"time"
)

// Root is the verification directory (MANIFEST, evidence/, replay/, known_findings.json).
func Root() string {
	if r := os.Getenv("VERIF_ROOT"); r != "" {
		return r
	}
	return "/verif"
}

func Seed() int64 {
	if s := os.Getenv("VERIF_SEED"); s != "" {
		if v, err := strconv.ParseInt(s, 10, 64); err == nil {
			return v
		}
	}
	return 1
}

// NewRand returns a deterministic generator for (seed, label).
func NewRand(seed int64, label string) *rand.Rand {
	h := sha256.Sum256([]byte(label))
	var s2 uint64
	for i := 0; i < 8; i++ {
		s2 = s2<<8 | uint64(h[i])
	}
	return rand.New(rand.NewPCG(uint64(seed), s2))
}

// RandBytes fills n bytes from r.
func RandBytes(r *rand.Rand, n int) []byte {
	b := make([]byte, n)
	for i := 0; i < n; i += 8 {
		v := r.Uint64()
		for j := 0; j < 8 && i+j < n; j++ {
			b[i+j] = byte(v >> (8 * j))
		}
	}
	return b
}

type Violation struct {
	Signature string `json:"signature"`
	What      string `json:"what"`
	Replay    any    `json:"replay"`
	Count     int    `json:"count"`
	Path      string `json:"-"`
}

type knownEntry struct {
	Property  string `json:"property"`
	Signature string `json:"signature"`
	Status    string `json:"status"`
	What      string `json:"what"`
	Commit    string `json:"commit,omitempty"`
	WhyNot    string `json:"why_not_fixed,omitempty"`
}

type Run struct {
	ID    string
	Tier  string
	Seed  int64
	start time.Time

	mu           sync.Mutex
	evaluations  int64
	shapes       map[string]struct{}
	counters     map[string]int64
	sets         map[string]map[string]struct{}
	samples      []any
	maxSamples   int
	violations   map[string]*Violation
	inconclusive []string
	Rule         string
	Assumptions  []string
	Extra        map[string]any
	Exhaustive   bool
	Builds       []string
}

func NewRun(id, tier string) *Run {
	return &Run{
		ID: id, Tier: tier, Seed: Seed(), start: time.Now(),
		shapes:     map[string]struct{}{},
		counters:   map[string]int64{},
		sets:       map[string]map[string]struct{}{},
		violations: map[string]*Violation{},
		Extra:      map[string]any{},
		maxSamples: 12,
	}
}

func (r *Run) Quick() bool { return r.Tier != "thorough" }

// Pick returns q in the quick tier and t in the thorough tier.
func (r *Run) Pick(q, t int) int {
	if r.Quick() {
		return q
	}
	return t
}

func (r *Run) Rand(label string) *rand.Rand { return NewRand(r.Seed, r.ID+"/"+label) }

// Eval counts n executions of the code under test whose result an oracle judged.
func (r *Run) Eval(n int) {
	r.mu.Lock()
	r.evaluations += int64(n)
	r.mu.Unlock()
}

// Count adds to a named observation counter.
func (r *Run) Count(key string, n int) {
	r.mu.Lock()
	r.counters[key] += int64(n)
	r.mu.Unlock()
}

func (r *Run) Counter(key string) int64 {
	r.mu.Lock()
	defer r.mu.Unlock()
	return r.counters[key]
}

// Shape records a distinct non-trivial case class (feature-vector key).
func (r *Run) Shape(key string) {
	r.mu.Lock()
	r.shapes[key] = struct{}{}
	r.mu.Unlock()
}

// SetAdd records membership of val in a named set (distinct-value counters).
func (r *Run) SetAdd(set, val string) {
	r.mu.Lock()
	m := r.sets[set]
	if m == nil {
		m = map[string]struct{}{}
		r.sets[set] = m
	}
	m[val] = struct{}{}
	r.mu.Unlock()
}

func (r *Run) SetLen(set string) int {
	r.mu.Lock()
	defer r.mu.Unlock()
	return len(r.sets[set])
}

// Sample keeps a few literal cases for the evidence file.
func (r *Run) Sample(v any) {
	r.mu.Lock()
	if len(r.samples) < r.maxSamples {
		r.samples = append(r.samples, v)
	}
	r.mu.Unlock()
}

// Violate records a violation under a deterministic signature.
func (r *Run) Violate(sig, what string, replay any) {
	r.mu.Lock()
	defer r.mu.Unlock()
	if v, ok := r.violations[sig]; ok {
		v.Count++
		return
	}
	r.violations[sig] = &Violation{Signature: sig, What: what, Replay: replay, Count: 1}
}

func (r *Run) ViolationCount() int {
	r.mu.Lock()
	defer r.mu.Unlock()
	return len(r.violations)
}

// Inconclusive records a reason the run cannot say "held".
func (r *Run) Inconclusive(reason string) {
	r.mu.Lock()
	r.inconclusive = append(r.inconclusive, reason)
	r.mu.Unlock()
}

// Require records an inconclusive reason when cond is false (evidence floors).
func (r *Run) Require(cond bool, reason string) {
	if !cond {
		r.Inconclusive(reason)
	}
}

// Guard runs f and converts a Go panic into a violation with the panic site as signature.
func (r *Run) Guard(what string, replay any, f func()) (panicked bool) {
	defer func() {
		if e := recover(); e != nil {
			panicked = true
			site := PanicSite()
			r.Violate(fmt.Sprintf("%s:panic:%s:%s", r.ID, what, site), fmt.Sprintf("panic in %s: %v at %s", what, e, site), replay)
		}
	}()
	f()
	return false
}

// Protect is deferred at the top of every worker goroutine of a check: a panic that escapes the
// per-call guards would otherwise end the whole process without a verdict. A panic whose stack passes
// through onflow/crypto is a violation (the call did not return); one that does not is a harness
// defect and makes the run inconclusive.
func (r *Run) Protect(what string) {
	if e := recover(); e != nil {
		site := PanicSite()
		stack := string(debug.Stack())
		if strings.Contains(stack, "github.com/onflow/crypto") {
			r.Violate(fmt.Sprintf("%s:panic:%s:%s", r.ID, what, site), fmt.Sprintf("panic in %s: %v at %s", what, e, site), map[string]any{"stack": firstLines(stack, 40)})
		} else {
			r.Inconclusive(fmt.Sprintf("harness panic in %s: %v at %s", what, e, site))
		}
	}
}

func firstLines(s string, n int) string {
	lines := strings.SplitN(s, "\n", n+1)
	if len(lines) > n {
		lines = lines[:n]
	}
	return strings.Join(lines, "\n")
}

// PanicSite returns the innermost frame inside onflow/crypto (or the first non-runtime frame).
func PanicSite() string {
	pcs := make([]uintptr, 64)
	n := runtime.Callers(3, pcs)
	frames := runtime.CallersFrames(pcs[:n])
	first := ""
	for {
		fr, more := frames.Next()
		fn := fr.Function
		if strings.HasPrefix(fn, "runtime.") || strings.Contains(fn, "/mon.") {
			if !more {
				break
			}
			continue
		}
		short := fn
		if i := strings.LastIndex(short, "/"); i >= 0 {
			short = short[i+1:]
		}
		if first == "" {
			first = short
		}
		if strings.Contains(fn, "onflow/crypto") {
			return short
		}
		if !more {
			break
		}
	}
	return first
}

func loadKnown() map[string]knownEntry {
	out := map[string]knownEntry{}
	b, err := os.ReadFile(filepath.Join(Root(), "known_findings.json"))
	if err != nil {
		return out
	}
	var f struct {
		Findings []knownEntry `json:"findings"`
	}
	if json.Unmarshal(b, &f) != nil {
		return out
	}
	for _, e := range f.Findings {
		out[e.Signature] = e
	}
	return out
}

func sigFile(sig string) string {
	h := sha256.Sum256([]byte(sig))
	clean := strings.Map(func(c rune) rune {
		if c >= 'a' && c <= 'z' || c >= 'A' && c <= 'Z' || c >= '0' && c <= '9' || c == '-' || c == '_' {
			return c
		}
		return '_'
	}, sig)
	if len(clean) > 60 {
		clean = clean[:60]
	}
	return clean + "-" + hex.EncodeToString(h[:4]) + ".json"
}

// Finish writes evidence and replay files, prints the verdict lines and returns the exit code.
func (r *Run) Finish() int {
	r.mu.Lock()
	defer r.mu.Unlock()
	known := loadKnown()
	var sigs []string
	for s := range r.violations {
		sigs = append(sigs, s)
	}
	sort.Strings(sigs)
	nViol, nKnown := 0, 0
	var knownList, violList []string
	for _, s := range sigs {
		v := r.violations[s]
		if e, ok := known[s]; ok && e.Status == "known" && e.Property == r.ID {
			nKnown++
			knownList = append(knownList, s)
			fmt.Printf("KNOWN-FINDING: property=%s %s (%s; seen %d times)\n", r.ID, e.What, s, v.Count)
			continue
		}
		nViol++
		violList = append(violList, s)
		dir := filepath.Join(Root(), "replay", r.ID)
		_ = os.MkdirAll(dir, 0o755)
		path := filepath.Join(dir, sigFile(s))
		rec := map[string]any{
			"property": r.ID, "signature": s, "what": v.What, "seed": r.Seed, "tier": r.Tier,
			"count": v.Count, "replay": v.Replay,
			"rerun": fmt.Sprintf("VERIF_SEED=%d bin/check %s %s", r.Seed, r.ID, r.Tier),
		}
		b, _ := json.MarshalIndent(rec, "", " ")
		_ = os.WriteFile(path, b, 0o644)
		fmt.Printf("VIOLATION property=%s replay=%s\n", r.ID, path)
		fmt.Printf("  signature: %s\n  what: %s\n", s, v.What)
	}
	cov := map[string]any{}
	for k, v := range r.Extra {
		cov[k] = v
	}
	cnt := map[string]int64{}
	for k, v := range r.counters {
		cnt[k] = v
	}
	cov["counters"] = cnt
	sl := map[string]int{}
	for k, v := range r.sets {
		sl[k] = len(v)
	}
	cov["distinct"] = sl
	cov["evaluations"] = r.evaluations
	cov["distinct_nontrivial"] = len(r.shapes)
	cov["rule"] = r.Rule
	if len(r.samples) == 0 {
		r.samples = append(r.samples, "no sample recorded")
	}
	cov["samples"] = r.samples
	cov["exhaustive"] = r.Exhaustive
	cov["known_findings"] = knownList
	cov["violation_signatures"] = violList
	cov["inconclusive_items"] = r.inconclusive
	cov["builds"] = r.Builds
	if r.evaluations < 1 || len(r.shapes) < 2 {
		r.inconclusive = append(r.inconclusive, "nothing observed (evaluations or distinct shapes below the schema floor)")
	}
	ev := map[string]any{
		"property_id": r.ID,
		"tier":        r.Tier,
		"seed":        r.Seed,
		"level":       "exploration",
		"coverage":    cov,
		"assumptions": r.Assumptions,
		"wall_s":      time.Since(r.start).Seconds(),
		"violations":  nViol,
		"verdict":     "held",
	}
	code := 0
	switch {
	case nViol > 0:
		ev["verdict"] = "violated"
		code = 1
	case len(r.inconclusive) > 0:
		ev["verdict"] = "inconclusive"
		code = 2
	}
	_ = os.MkdirAll(filepath.Join(Root(), "evidence"), 0o755)
	b, _ := json.MarshalIndent(ev, "", " ")
	if err := os.WriteFile(filepath.Join(Root(), "evidence", r.ID+".json"), b, 0o644); err != nil {
		fmt.Printf("INCONCLUSIVE property=%s reason=cannot write evidence: %v\n", r.ID, err)
		return 2
	}
	for _, s := range r.inconclusive {
		fmt.Printf("INCONCLUSIVE property=%s reason=%s\n", r.ID, s)
	}
	fmt.Printf("%s %s seed=%d: verdict=%s evaluations=%d distinct_nontrivial=%d violations=%d known=%d wall=%.1fs\n",
		r.ID, r.Tier, r.Seed, ev["verdict"], r.evaluations, len(r.shapes), nViol, nKnown, time.Since(r.start).Seconds())
	return code
}

// Hex is a short helper for replay records.
func Hex(b []byte) string { return hex.EncodeToString(b) }
