// Package canary holds deliberate defects used to prove that a sanitizer build is live:
// a C over-read of a Go slice (ASan), a two-goroutine write/write (race detector) and an
// out-of-bounds unsafe pointer (checkptr). They only run in canary child processes.
package canary

/*
#include <stddef.h>
static int sum_bytes(const unsigned char *p, size_t n) {
	int s = 0;
	for (size_t i = 0; i < n; i++) s += p[i];
	return s;
}
*/
import "C"

import (
	"sync"
	"unsafe"
)

// OverRead sums n bytes starting at the first byte of a 10-byte Go slice.
func OverRead(n int) int {
	b := make([]byte, 10)
	for i := range b {
		b[i] = byte(i)
	}
	return int(C.sum_bytes((*C.uchar)(unsafe.Pointer(&b[0])), C.size_t(n)))
}

var shared int

// Race writes the same variable from two goroutines without synchronisation.
func Race() int {
	var wg sync.WaitGroup
	for g := 0; g < 2; g++ {
		wg.Add(1)
		go func(g int) {
			defer wg.Done()
			for i := 0; i < 1000; i++ {
				shared = g + i
			}
		}(g)
	}
	wg.Wait()
	return shared
}

var heapBuf []byte

// CheckPtr converts a pointer past the end of a heap allocation.
func CheckPtr() byte {
	heapBuf = make([]byte, 8)
	b := heapBuf
	s := unsafe.Slice(&b[0], 64) // straddles the 8-byte allocation
	return s[63]
}
