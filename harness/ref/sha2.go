package ref

import (
	"encoding/binary"
	"math/big"
	"math/bits"
)

// SHA-256 and SHA-384 from FIPS 180-4; the round constants are *computed* as the fractional
// parts of cube roots / square roots of the first primes, as the standard defines them.

var sha256K [64]uint32
var sha256H0 [8]uint32
var sha512K [80]uint64
var sha384H0 [8]uint64

func firstPrimes(n int) []int64 {
	var ps []int64
	for c := int64(2); len(ps) < n; c++ {
		ok := true
		for _, p := range ps {
			if p*p > c {
				break
			}
			if c%p == 0 {
				ok = false
				break
			}
		}
		if ok {
			ps = append(ps, c)
		}
	}
	return ps
}

// fracRoot returns floor(frac(p^(1/k)) * 2^bitsOut) using exact integer roots.
func fracRoot(p int64, k int, bitsOut uint) uint64 {
	// floor(root_k(p * 2^(k*bitsOut))) mod 2^bitsOut
	n := new(big.Int).Lsh(big.NewInt(p), uint(k)*bitsOut)
	// integer k-th root by Newton / binary search
	lo, hi := big.NewInt(0), new(big.Int).Lsh(big.NewInt(1), bitsOut+8)
	for new(big.Int).Sub(hi, lo).Cmp(big1) > 0 {
		mid := new(big.Int).Add(lo, hi)
		mid.Rsh(mid, 1)
		if new(big.Int).Exp(mid, big.NewInt(int64(k)), nil).Cmp(n) <= 0 {
			lo = mid
		} else {
			hi = mid
		}
	}
	mask := new(big.Int).Sub(new(big.Int).Lsh(big1, bitsOut), big1)
	return new(big.Int).And(lo, mask).Uint64()
}

func init() {
	ps := firstPrimes(80)
	for i := 0; i < 64; i++ {
		sha256K[i] = uint32(fracRoot(ps[i], 3, 32))
	}
	for i := 0; i < 8; i++ {
		sha256H0[i] = uint32(fracRoot(ps[i], 2, 32))
	}
	for i := 0; i < 80; i++ {
		sha512K[i] = fracRoot(ps[i], 3, 64)
	}
	// SHA-384: square roots of the 9th through 16th primes
	for i := 0; i < 8; i++ {
		sha384H0[i] = fracRoot(ps[8+i], 2, 64)
	}
}

func SHA256(msg []byte) []byte {
	h := sha256H0
	l := uint64(len(msg)) * 8
	m := append([]byte{}, msg...)
	m = append(m, 0x80)
	for len(m)%64 != 56 {
		m = append(m, 0)
	}
	var lb [8]byte
	binary.BigEndian.PutUint64(lb[:], l)
	m = append(m, lb[:]...)
	var w [64]uint32
	for ; len(m) > 0; m = m[64:] {
		for t := 0; t < 16; t++ {
			w[t] = binary.BigEndian.Uint32(m[4*t:])
		}
		for t := 16; t < 64; t++ {
			s0 := bits.RotateLeft32(w[t-15], -7) ^ bits.RotateLeft32(w[t-15], -18) ^ (w[t-15] >> 3)
			s1 := bits.RotateLeft32(w[t-2], -17) ^ bits.RotateLeft32(w[t-2], -19) ^ (w[t-2] >> 10)
			w[t] = s1 + w[t-7] + s0 + w[t-16]
		}
		a, b, c, d, e, f, g, hh := h[0], h[1], h[2], h[3], h[4], h[5], h[6], h[7]
		for t := 0; t < 64; t++ {
			S1 := bits.RotateLeft32(e, -6) ^ bits.RotateLeft32(e, -11) ^ bits.RotateLeft32(e, -25)
			ch := (e & f) ^ (^e & g)
			t1 := hh + S1 + ch + sha256K[t] + w[t]
			S0 := bits.RotateLeft32(a, -2) ^ bits.RotateLeft32(a, -13) ^ bits.RotateLeft32(a, -22)
			maj := (a & b) ^ (a & c) ^ (b & c)
			t2 := S0 + maj
			hh, g, f, e, d, c, b, a = g, f, e, d+t1, c, b, a, t1+t2
		}
		h[0] += a
		h[1] += b
		h[2] += c
		h[3] += d
		h[4] += e
		h[5] += f
		h[6] += g
		h[7] += hh
	}
	out := make([]byte, 32)
	for i := 0; i < 8; i++ {
		binary.BigEndian.PutUint32(out[4*i:], h[i])
	}
	return out
}

func SHA384(msg []byte) []byte {
	h := sha384H0
	m := append([]byte{}, msg...)
	m = append(m, 0x80)
	for len(m)%128 != 112 {
		m = append(m, 0)
	}
	var lb [16]byte
	binary.BigEndian.PutUint64(lb[8:], uint64(len(msg))*8)
	binary.BigEndian.PutUint64(lb[:8], uint64(len(msg))>>61)
	m = append(m, lb[:]...)
	var w [80]uint64
	for ; len(m) > 0; m = m[128:] {
		for t := 0; t < 16; t++ {
			w[t] = binary.BigEndian.Uint64(m[8*t:])
		}
		for t := 16; t < 80; t++ {
			s0 := bits.RotateLeft64(w[t-15], -1) ^ bits.RotateLeft64(w[t-15], -8) ^ (w[t-15] >> 7)
			s1 := bits.RotateLeft64(w[t-2], -19) ^ bits.RotateLeft64(w[t-2], -61) ^ (w[t-2] >> 6)
			w[t] = s1 + w[t-7] + s0 + w[t-16]
		}
		a, b, c, d, e, f, g, hh := h[0], h[1], h[2], h[3], h[4], h[5], h[6], h[7]
		for t := 0; t < 80; t++ {
			S1 := bits.RotateLeft64(e, -14) ^ bits.RotateLeft64(e, -18) ^ bits.RotateLeft64(e, -41)
			ch := (e & f) ^ (^e & g)
			t1 := hh + S1 + ch + sha512K[t] + w[t]
			S0 := bits.RotateLeft64(a, -28) ^ bits.RotateLeft64(a, -34) ^ bits.RotateLeft64(a, -39)
			maj := (a & b) ^ (a & c) ^ (b & c)
			t2 := S0 + maj
			hh, g, f, e, d, c, b, a = g, f, e, d+t1, c, b, a, t1+t2
		}
		h[0] += a
		h[1] += b
		h[2] += c
		h[3] += d
		h[4] += e
		h[5] += f
		h[6] += g
		h[7] += hh
	}
	out := make([]byte, 64)
	for i := 0; i < 8; i++ {
		binary.BigEndian.PutUint64(out[8*i:], h[i])
	}
	return out[:48]
}

// HMAC-SHA256 (RFC 2104) and HKDF (RFC 5869) over the reference SHA-256.

func HMACSHA256(key, msg []byte) []byte {
	if len(key) > 64 {
		key = SHA256(key)
	}
	k := make([]byte, 64)
	copy(k, key)
	ipad := make([]byte, 64)
	opad := make([]byte, 64)
	for i := range k {
		ipad[i] = k[i] ^ 0x36
		opad[i] = k[i] ^ 0x5c
	}
	inner := SHA256(append(ipad, msg...))
	return SHA256(append(opad, inner...))
}

func HKDFSHA256(ikm, salt, info []byte, l int) []byte {
	if len(salt) == 0 {
		salt = make([]byte, 32)
	}
	prk := HMACSHA256(salt, ikm)
	var okm, t []byte
	for i := byte(1); len(okm) < l; i++ {
		in := append(append(append([]byte{}, t...), info...), i)
		t = HMACSHA256(prk, in)
		okm = append(okm, t...)
	}
	return okm[:l]
}
