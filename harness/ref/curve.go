package ref

import (
	"math/big"
)

// Pt is an affine point on a short Weierstrass curve y^2 = x^3 + a x + b, or infinity.
type Pt[T any] struct {
	X, Y T
	Inf  bool
}

// Curve is a short Weierstrass curve over a generic field with complete affine arithmetic.
type Curve[T any] struct {
	F    Field[T]
	A, B T
}

func (c *Curve[T]) Infinity() Pt[T] { return Pt[T]{X: c.F.Zero(), Y: c.F.Zero(), Inf: true} }

func (c *Curve[T]) IsOnCurve(p Pt[T]) bool {
	if p.Inf {
		return true
	}
	f := c.F
	lhs := f.Mul(p.Y, p.Y)
	rhs := f.Add(f.Add(f.Mul(f.Mul(p.X, p.X), p.X), f.Mul(c.A, p.X)), c.B)
	return f.Equal(lhs, rhs)
}

func (c *Curve[T]) Equal(p, q Pt[T]) bool {
	if p.Inf || q.Inf {
		return p.Inf == q.Inf
	}
	return c.F.Equal(p.X, q.X) && c.F.Equal(p.Y, q.Y)
}

func (c *Curve[T]) Neg(p Pt[T]) Pt[T] {
	if p.Inf {
		return p
	}
	return Pt[T]{X: p.X, Y: c.F.Neg(p.Y)}
}

func (c *Curve[T]) Double(p Pt[T]) Pt[T] {
	f := c.F
	if p.Inf || f.IsZero(p.Y) {
		return c.Infinity()
	}
	// l = (3x^2 + a) / 2y
	x2 := f.Mul(p.X, p.X)
	num := f.Add(f.Add(f.Add(x2, x2), x2), c.A)
	l := f.Mul(num, f.Inv(f.Add(p.Y, p.Y)))
	x3 := f.Sub(f.Sub(f.Mul(l, l), p.X), p.X)
	y3 := f.Sub(f.Mul(l, f.Sub(p.X, x3)), p.Y)
	return Pt[T]{X: x3, Y: y3}
}

func (c *Curve[T]) Add(p, q Pt[T]) Pt[T] {
	f := c.F
	if p.Inf {
		return q
	}
	if q.Inf {
		return p
	}
	if f.Equal(p.X, q.X) {
		if f.Equal(p.Y, q.Y) {
			return c.Double(p)
		}
		return c.Infinity()
	}
	l := f.Mul(f.Sub(q.Y, p.Y), f.Inv(f.Sub(q.X, p.X)))
	x3 := f.Sub(f.Sub(f.Mul(l, l), p.X), q.X)
	y3 := f.Sub(f.Mul(l, f.Sub(p.X, x3)), p.Y)
	return Pt[T]{X: x3, Y: y3}
}

func (c *Curve[T]) Sub(p, q Pt[T]) Pt[T] { return c.Add(p, c.Neg(q)) }

// Mul computes [k]P for any integer k (negative allowed), plain double-and-add.
func (c *Curve[T]) Mul(p Pt[T], k *big.Int) Pt[T] {
	if k.Sign() < 0 {
		return c.Mul(c.Neg(p), new(big.Int).Neg(k))
	}
	acc := c.Infinity()
	for i := k.BitLen() - 1; i >= 0; i-- {
		acc = c.Double(acc)
		if k.Bit(i) == 1 {
			acc = c.Add(acc, p)
		}
	}
	return acc
}

func (c *Curve[T]) Sum(ps ...Pt[T]) Pt[T] {
	acc := c.Infinity()
	for _, p := range ps {
		acc = c.Add(acc, p)
	}
	return acc
}
