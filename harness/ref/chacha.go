package ref

import (
	"encoding/binary"
	"math/bits"
)

// ChaCha20 block function per RFC 8439 section 2.3.

func chachaQR(s *[16]uint32, a, b, c, d int) {
	s[a] += s[b]
	s[d] ^= s[a]
	s[d] = bits.RotateLeft32(s[d], 16)
	s[c] += s[d]
	s[b] ^= s[c]
	s[b] = bits.RotateLeft32(s[b], 12)
	s[a] += s[b]
	s[d] ^= s[a]
	s[d] = bits.RotateLeft32(s[d], 8)
	s[c] += s[d]
	s[b] ^= s[c]
	s[b] = bits.RotateLeft32(s[b], 7)
}

func ChaCha20Block(key []byte, counter uint32, nonce []byte) []byte {
	var st [16]uint32
	copy(st[:4], []uint32{0x61707865, 0x3320646e, 0x79622d32, 0x6b206574})
	for i := 0; i < 8; i++ {
		st[4+i] = binary.LittleEndian.Uint32(key[4*i:])
	}
	st[12] = counter
	for i := 0; i < 3; i++ {
		st[13+i] = binary.LittleEndian.Uint32(nonce[4*i:])
	}
	w := st
	for i := 0; i < 10; i++ {
		chachaQR(&w, 0, 4, 8, 12)
		chachaQR(&w, 1, 5, 9, 13)
		chachaQR(&w, 2, 6, 10, 14)
		chachaQR(&w, 3, 7, 11, 15)
		chachaQR(&w, 0, 5, 10, 15)
		chachaQR(&w, 1, 6, 11, 12)
		chachaQR(&w, 2, 7, 8, 13)
		chachaQR(&w, 3, 4, 9, 14)
	}
	out := make([]byte, 64)
	for i := 0; i < 16; i++ {
		binary.LittleEndian.PutUint32(out[4*i:], w[i]+st[i])
	}
	return out
}

// ChaCha20Stream returns keystream bytes [off, off+n) with block counter starting at 0.
func ChaCha20Stream(key, nonce []byte, off uint64, n int) []byte {
	out := make([]byte, 0, n+64)
	blk := off / 64
	skip := int(off % 64)
	for len(out) < n+skip {
		out = append(out, ChaCha20Block(key, uint32(blk), nonce)...)
		blk++
	}
	return out[skip : skip+n]
}
