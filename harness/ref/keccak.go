package ref

import (
	"encoding/binary"
	"math/bits"
)

// Keccak-f[1600] written from FIPS 202 section 3 (step mappings theta, rho, pi, chi, iota),
// with round constants and rotation offsets *computed* from their definitions.

var keccakRC [24]uint64
var keccakRot [5][5]uint

func init() {
	// rc(t): LFSR x^8 + x^6 + x^5 + x^4 + 1
	rc := func(t int) uint64 {
		t %= 255
		if t < 0 {
			t += 255
		}
		if t == 0 {
			return 1
		}
		r := uint16(1)
		for i := 1; i <= t; i++ {
			r <<= 1
			if r&0x100 != 0 {
				r ^= 0x171
			}
		}
		return uint64(r & 1)
	}
	for ir := 0; ir < 24; ir++ {
		var v uint64
		for j := 0; j <= 6; j++ {
			if rc(j+7*ir) == 1 {
				v |= 1 << ((1 << uint(j)) - 1)
			}
		}
		keccakRC[ir] = v
	}
	// rho offsets
	x, y := 1, 0
	for t := 0; t < 24; t++ {
		keccakRot[x][y] = uint(((t + 1) * (t + 2) / 2) % 64)
		x, y = y, (2*x+3*y)%5
	}
}

func keccakF1600(a *[25]uint64) {
	// lane (x,y) is a[x+5y]
	for round := 0; round < 24; round++ {
		var c [5]uint64
		for x := 0; x < 5; x++ {
			c[x] = a[x] ^ a[x+5] ^ a[x+10] ^ a[x+15] ^ a[x+20]
		}
		for x := 0; x < 5; x++ {
			d := c[(x+4)%5] ^ bits.RotateLeft64(c[(x+1)%5], 1)
			for y := 0; y < 5; y++ {
				a[x+5*y] ^= d
			}
		}
		var b [25]uint64
		for x := 0; x < 5; x++ {
			for y := 0; y < 5; y++ {
				// pi: B[y][2x+3y] = rot(A[x][y])
				b[y+5*((2*x+3*y)%5)] = bits.RotateLeft64(a[x+5*y], int(keccakRot[x][y]))
			}
		}
		for x := 0; x < 5; x++ {
			for y := 0; y < 5; y++ {
				a[x+5*y] = b[x+5*y] ^ (^b[(x+1)%5+5*y] & b[(x+2)%5+5*y])
			}
		}
		a[0] ^= keccakRC[round]
	}
}

// Sponge absorbs msg with the given rate (bytes) and domain-separation/padding byte, and
// squeezes outLen bytes.
func Sponge(rate int, ds byte, msg []byte, outLen int) []byte {
	var st [25]uint64
	block := make([]byte, rate)
	absorb := func(blk []byte) {
		for i := 0; i < rate/8; i++ {
			st[i] ^= binary.LittleEndian.Uint64(blk[8*i:])
		}
		keccakF1600(&st)
	}
	for len(msg) >= rate {
		absorb(msg[:rate])
		msg = msg[rate:]
	}
	for i := range block {
		block[i] = 0
	}
	copy(block, msg)
	block[len(msg)] ^= ds
	block[rate-1] ^= 0x80
	absorb(block)
	out := make([]byte, 0, outLen+rate)
	for len(out) < outLen {
		for i := 0; i < rate/8; i++ {
			var w [8]byte
			binary.LittleEndian.PutUint64(w[:], st[i])
			out = append(out, w[:]...)
		}
		if len(out) < outLen {
			keccakF1600(&st)
		}
	}
	return out[:outLen]
}

func SHA3_256(m []byte) []byte        { return Sponge(136, 0x06, m, 32) }
func SHA3_384(m []byte) []byte        { return Sponge(104, 0x06, m, 48) }
func Keccak256(m []byte) []byte       { return Sponge(136, 0x01, m, 32) }
func SHAKE128(m []byte, n int) []byte { return Sponge(168, 0x1F, m, n) }

// ---- SP 800-185 ------------------------------------------------------------------

func leftEncode(x uint64) []byte {
	var b []byte
	for v := x; v > 0; v >>= 8 {
		b = append([]byte{byte(v)}, b...)
	}
	if len(b) == 0 {
		b = []byte{0}
	}
	return append([]byte{byte(len(b))}, b...)
}

func rightEncode(x uint64) []byte {
	var b []byte
	for v := x; v > 0; v >>= 8 {
		b = append([]byte{byte(v)}, b...)
	}
	if len(b) == 0 {
		b = []byte{0}
	}
	return append(b, byte(len(b)))
}

func encodeString(s []byte) []byte {
	return append(leftEncode(uint64(len(s))*8), s...)
}

func bytepad(x []byte, w int) []byte {
	z := append(leftEncode(uint64(w)), x...)
	for len(z)%w != 0 {
		z = append(z, 0)
	}
	return z
}

// CSHAKE128 per SP 800-185 section 3.3.
func CSHAKE128(x []byte, outLen int, n, s []byte) []byte {
	if len(n) == 0 && len(s) == 0 {
		return SHAKE128(x, outLen)
	}
	pre := bytepad(append(encodeString(n), encodeString(s)...), 168)
	return Sponge(168, 0x04, append(pre, x...), outLen)
}

// KMAC128 per SP 800-185 section 4.3 (fixed-length variant: right_encode(L)).
func KMAC128(key, x []byte, outLen int, s []byte) []byte {
	newX := append(bytepad(encodeString(key), 168), x...)
	newX = append(newX, rightEncode(uint64(outLen)*8)...)
	return CSHAKE128(newX, outLen, []byte("KMAC"), s)
}
