package ref

import (
	"bytes"
	"crypto/ecdsa"
	"crypto/elliptic"
	"crypto/hkdf"
	"crypto/hmac"
	crand "crypto/rand"
	"crypto/sha256"
	"crypto/sha3"
	"crypto/sha512"
	"encoding/hex"
	"fmt"
	"math/big"

	"golang.org/x/crypto/chacha20"
	xsha3 "golang.org/x/crypto/sha3"
)

func unhex(s string) []byte {
	b, err := hex.DecodeString(s)
	if err != nil {
		panic(err)
	}
	return b
}

func seq(from, n int) []byte {
	b := make([]byte, n)
	for i := range b {
		b[i] = byte(from + i)
	}
	return b
}

// SelfTestHash checks the hash references against published vectors and the Go standard
// library / x/crypto (none of which is the code under test's own sponge or KMAC).
func SelfTestHash() error {
	type kv struct {
		name string
		got  []byte
		want string
	}
	vs := []kv{
		{"sha3-256 empty", SHA3_256(nil), "a7ffc6f8bf1ed76651c14756a061d662f580ff4de43b49fa82d80a4b80f8434a"},
		{"sha3-256 abc", SHA3_256([]byte("abc")), "3a985da74fe225b2045c172d6bd390bd855f086e3e9d525b46bfe24511431532"},
		{"sha3-384 abc", SHA3_384([]byte("abc")), "ec01498288516fc926459f58e2c6ad8df9b473cb0fc08c2596da7cf0e49be4b298d88cea927ac7f539f1edf228376d25"},
		{"keccak-256 empty", Keccak256(nil), "c5d2460186f7233c927e7db2dcc703c0e500b653ca82273b7bfad8045d85a470"},
		{"sha-256 abc", SHA256([]byte("abc")), "ba7816bf8f01cfea414140de5dae2223b00361a396177a9cb410ff61f20015ad"},
		{"sha-384 abc", SHA384([]byte("abc")), "cb00753f45a35e8bb5a03d699ac65007272c32ab0eded1631a8b605a43ff5bed8086072ba1e7cc2358baeca134c825a7"},
		{"kmac128 sample1", KMAC128(seq(0x40, 32), seq(0, 4), 32, nil), "e5780b0d3ea6f7d3a429c5706aa43a00fadbd7d49628839e3187243f456ee14e"},
		{"kmac128 sample2", KMAC128(seq(0x40, 32), seq(0, 4), 32, []byte("My Tagged Application")), "3b1fba963cd8b0b59e8c1a6d71888b7143651af8ba0a7070c0979e2811324aa5"},
		{"kmac128 sample3", KMAC128(seq(0x40, 32), seq(0, 200), 32, []byte("My Tagged Application")), "1f5b4e6cca02209e0dcb5ca635b89a15e271ecc760071dfd805faa38f9729230"},
		{"hkdf rfc5869 tc1", HKDFSHA256(bytes.Repeat([]byte{0x0b}, 22), seq(0, 13), seq(0xf0, 10), 42), "3cb25f25faacd57a90434f64d0362f2a2d2d0a90cf1a5a4c5db02d56ecc4c5bf34007208d5b887185865"},
	}
	for _, v := range vs {
		if hex.EncodeToString(v.got) != v.want {
			return fmt.Errorf("%s: got %x", v.name, v.got)
		}
	}
	// cross-check against the standard library over many lengths
	for n := 0; n < 700; n += 1 {
		m := make([]byte, n)
		for i := range m {
			m[i] = byte(i*7 + n)
		}
		a := sha3.Sum256(m)
		if !bytes.Equal(a[:], SHA3_256(m)) {
			return fmt.Errorf("sha3-256 len %d", n)
		}
		b := sha3.Sum384(m)
		if !bytes.Equal(b[:], SHA3_384(m)) {
			return fmt.Errorf("sha3-384 len %d", n)
		}
		c := sha256.Sum256(m)
		if !bytes.Equal(c[:], SHA256(m)) {
			return fmt.Errorf("sha-256 len %d", n)
		}
		d := sha512.Sum384(m)
		if !bytes.Equal(d[:], SHA384(m)) {
			return fmt.Errorf("sha-384 len %d", n)
		}
		k := xsha3.NewLegacyKeccak256()
		k.Write(m)
		if !bytes.Equal(k.Sum(nil), Keccak256(m)) {
			return fmt.Errorf("keccak-256 len %d", n)
		}
		if n%13 == 0 {
			cs := xsha3.NewCShake128([]byte("KMAC"), m[:n%50])
			cs.Write(m)
			out := make([]byte, 77)
			cs.Read(out)
			if !bytes.Equal(out, CSHAKE128(m, 77, []byte("KMAC"), m[:n%50])) {
				return fmt.Errorf("cshake128 len %d", n)
			}
			mac := hmac.New(sha256.New, m[:n%80])
			mac.Write(m)
			if !bytes.Equal(mac.Sum(nil), HMACSHA256(m[:n%80], m)) {
				return fmt.Errorf("hmac len %d", n)
			}
			if n >= 1 {
				okm, err := hkdf.Key(sha256.New, m, m[:n%40], string(m[:n%9]), 1+n%200)
				if err != nil || !bytes.Equal(okm, HKDFSHA256(m, m[:n%40], m[:n%9], 1+n%200)) {
					return fmt.Errorf("hkdf len %d", n)
				}
			}
		}
	}
	// left/right encode per SP 800-185 examples
	if !bytes.Equal(leftEncode(0), []byte{1, 0}) || !bytes.Equal(rightEncode(0), []byte{0, 1}) ||
		!bytes.Equal(leftEncode(168), []byte{1, 168}) || !bytes.Equal(leftEncode(256), []byte{2, 1, 0}) {
		return fmt.Errorf("left/right encode")
	}
	return nil
}

// SelfTestChaCha checks the block function against RFC 8439 2.3.2 and x/crypto.
func SelfTestChaCha() error {
	key := seq(0, 32)
	nonce := unhex("000000090000004a00000000")
	want := "10f1e7e4d13b5915500fdd1fa32071c4c7d1f4c733c068030422aa9ac3d46c4ed2826446079faa0914c2d705d98b02a2b5129cd1de164eb9cbd083e8a2503c4e"
	if got := hex.EncodeToString(ChaCha20Block(key, 1, nonce)); got != want {
		return fmt.Errorf("rfc8439 block: %s", got)
	}
	for t := 0; t < 20; t++ {
		k := make([]byte, 32)
		n := make([]byte, 12)
		for i := range k {
			k[i] = byte(i*t + 3)
		}
		for i := range n {
			n[i] = byte(i + t*5)
		}
		c, err := chacha20.NewUnauthenticatedCipher(k, n)
		if err != nil {
			return err
		}
		buf := make([]byte, 1000)
		c.XORKeyStream(buf, buf)
		if !bytes.Equal(buf, ChaCha20Stream(k, n, 0, 1000)) {
			return fmt.Errorf("chacha stream %d", t)
		}
		if !bytes.Equal(buf[100:300], ChaCha20Stream(k, n, 100, 200)) {
			return fmt.Errorf("chacha stream offset %d", t)
		}
	}
	return nil
}

// SelfTestECDSA checks curve constants and the verification algorithm.
func SelfTestECDSA() error {
	for _, c := range []*ECCurve{P256, Secp256k1} {
		if !c.Fld.M.ProbablyPrime(20) || !c.N.ProbablyPrime(20) {
			return fmt.Errorf("%s: non-prime parameter", c.Name)
		}
		if !c.C.IsOnCurve(c.G) || !c.C.Mul(c.G, c.N).Inf {
			return fmt.Errorf("%s: generator", c.Name)
		}
		// own sign/verify round trip with chosen nonces, and the twin
		for i := int64(1); i < 6; i++ {
			d := new(big.Int).Exp(big.NewInt(3), big.NewInt(40*i+1), c.N)
			k := new(big.Int).Exp(big.NewInt(5), big.NewInt(33*i+7), c.N)
			dig := SHA256([]byte{byte(i)})
			r, s, ok := c.SignWithNonce(d, dig, k)
			if !ok {
				return fmt.Errorf("%s: sign", c.Name)
			}
			q := c.Pub(d)
			if !c.Verify(q, dig, r, s) {
				return fmt.Errorf("%s: verify own signature", c.Name)
			}
			if !c.Verify(q, dig, r, new(big.Int).Sub(c.N, s)) {
				return fmt.Errorf("%s: verify twin", c.Name)
			}
			if c.Verify(q, SHA256([]byte{byte(i), 1}), r, s) {
				return fmt.Errorf("%s: verify wrong digest", c.Name)
			}
			rt, ok1 := c.DecodeRaw(c.EncodeRaw(q))
			ct, ok2 := c.DecodeCompressed(c.EncodeCompressed(q))
			if !ok1 || !ok2 || !c.C.Equal(rt, q) || !c.C.Equal(ct, q) {
				return fmt.Errorf("%s: point codec", c.Name)
			}
		}
	}
	// cross-check with crypto/ecdsa on P-256, including long digests (leftmost bits)
	for i := 0; i < 12; i++ {
		priv, err := ecdsa.GenerateKey(elliptic.P256(), crand.Reader)
		if err != nil {
			return err
		}
		dig := SHA384([]byte{byte(i)})
		if i%2 == 0 {
			dig = dig[:32]
		}
		r, s, err := ecdsa.Sign(crand.Reader, priv, dig)
		if err != nil {
			return err
		}
		q := Pt[*big.Int]{X: priv.PublicKey.X, Y: priv.PublicKey.Y}
		if !P256.Verify(q, dig, r, s) {
			return fmt.Errorf("P-256 reference rejects a crypto/ecdsa signature")
		}
		r2 := new(big.Int).Add(r, big1)
		if P256.Verify(q, dig, r2, s) != ecdsa.Verify(&priv.PublicKey, dig, r2, s) {
			return fmt.Errorf("P-256 reference disagrees on a bad signature")
		}
		if !P256.C.Equal(P256.Pub(priv.D), q) {
			return fmt.Errorf("P-256 public key derivation")
		}
	}
	// secp256k1: 2G known value
	two := Secp256k1.C.Double(Secp256k1.G)
	if two.X.Cmp(bi("0xc6047f9441ed7d6d3045406e95c07cd85c778e4b8cef3ca7abac09b95c709ee5")) != 0 {
		return fmt.Errorf("secp256k1 2G")
	}
	return nil
}

// SelfTestShamir checks Lagrange interpolation.
func SelfTestShamir() error {
	a := []*big.Int{big.NewInt(12345), big.NewInt(777), new(big.Int).Sub(R, big.NewInt(5)), big.NewInt(99)}
	xs := []int64{7, 2, 200, 33}
	ys := make([]*big.Int, len(xs))
	for i, x := range xs {
		ys[i] = PolyEval(a, x)
	}
	if InterpolateAt(xs, ys, 0).Cmp(a[0]) != 0 {
		return fmt.Errorf("interpolate at 0")
	}
	if InterpolateAt(xs, ys, 55).Cmp(PolyEval(a, 55)) != 0 {
		return fmt.Errorf("interpolate at 55")
	}
	l := LagrangeAtZero(xs)
	acc := new(big.Int)
	for i := range xs {
		acc = Fr.Add(acc, Fr.Mul(l[i], ys[i]))
	}
	if acc.Cmp(a[0]) != 0 {
		return fmt.Errorf("lagrange coefficients")
	}
	return nil
}

// SelfTestAll runs every reference self-test.
func SelfTestAll() error {
	for _, f := range []func() error{SelfTestBLS, SelfTestHash, SelfTestChaCha, SelfTestECDSA, SelfTestShamir} {
		if err := f(); err != nil {
			return err
		}
	}
	return nil
}
