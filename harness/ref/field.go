// Package ref holds from-the-specification reference implementations written with
// math/big and no code shared with onflow/crypto. They are the oracles of the monitors.
package ref

import (
	"math/big"
)

func bi(s string) *big.Int {
	n, ok := new(big.Int).SetString(s, 0)
	if !ok {
		panic("bad constant " + s)
	}
	return n
}

var (
	big1 = big.NewInt(1)
	big2 = big.NewInt(2)
	big3 = big.NewInt(3)
	big4 = big.NewInt(4)
)

// BLS12-381 parameters, all derived from the curve parameter z. Package-level
// initialisers (not init functions) so that dependency order is respected across files.
var (
	Z     = bi("-0xd201000000010000")
	R     = deriveR()  // group order r = z^4 - z^2 + 1
	P     = deriveP()  // base field prime p = (z-1)^2 r / 3 + z
	H1    = deriveH1() // cofactor of E1
	H2    = deriveH2() // cofactor of E2
	PHalf = new(big.Int).Rsh(new(big.Int).Sub(P, big1), 1)
)

func deriveR() *big.Int {
	z2 := new(big.Int).Mul(Z, Z)
	z4 := new(big.Int).Mul(z2, z2)
	r := new(big.Int).Sub(z4, z2)
	return r.Add(r, big1)
}

func deriveP() *big.Int {
	zm1 := new(big.Int).Sub(Z, big1)
	zm1sq := new(big.Int).Mul(zm1, zm1)
	p := new(big.Int).Mul(zm1sq, R)
	if new(big.Int).Mod(p, big3).Sign() != 0 {
		panic("p derivation")
	}
	p.Div(p, big3)
	return p.Add(p, Z)
}

func deriveH1() *big.Int {
	zm1 := new(big.Int).Sub(Z, big1)
	zm1sq := new(big.Int).Mul(zm1, zm1)
	return zm1sq.Div(zm1sq, big3)
}

func deriveH2() *big.Int {
	z := Z
	pw := func(e int) *big.Int { return new(big.Int).Exp(z, big.NewInt(int64(e)), nil) }
	h2 := pw(8)
	h2.Sub(h2, new(big.Int).Mul(big4, pw(7)))
	h2.Add(h2, new(big.Int).Mul(big.NewInt(5), pw(6)))
	h2.Sub(h2, new(big.Int).Mul(big4, pw(4)))
	h2.Add(h2, new(big.Int).Mul(big.NewInt(6), pw(3)))
	h2.Sub(h2, new(big.Int).Mul(big4, pw(2)))
	h2.Sub(h2, new(big.Int).Mul(big4, z))
	h2.Add(h2, big.NewInt(13))
	if new(big.Int).Mod(h2, big.NewInt(9)).Sign() != 0 {
		panic("h2 derivation")
	}
	return h2.Div(h2, big.NewInt(9))
}

// ---- generic field interface -------------------------------------------------

// Field is the minimal arithmetic the generic curve code needs.
type Field[T any] interface {
	Add(a, b T) T
	Sub(a, b T) T
	Mul(a, b T) T
	Neg(a T) T
	Inv(a T) T // a != 0
	IsZero(a T) bool
	Equal(a, b T) bool
	Zero() T
	FromInt(i int64) T
}

// ---- prime field -------------------------------------------------------------

type PrimeField struct{ M *big.Int }

func (f PrimeField) norm(x *big.Int) *big.Int {
	x.Mod(x, f.M)
	return x
}
func (f PrimeField) Add(a, b *big.Int) *big.Int { return f.norm(new(big.Int).Add(a, b)) }
func (f PrimeField) Sub(a, b *big.Int) *big.Int { return f.norm(new(big.Int).Sub(a, b)) }
func (f PrimeField) Mul(a, b *big.Int) *big.Int { return f.norm(new(big.Int).Mul(a, b)) }
func (f PrimeField) Neg(a *big.Int) *big.Int    { return f.norm(new(big.Int).Neg(a)) }
func (f PrimeField) Inv(a *big.Int) *big.Int {
	r := new(big.Int).ModInverse(a, f.M)
	if r == nil {
		panic("inverse of zero")
	}
	return r
}
func (f PrimeField) IsZero(a *big.Int) bool     { return a.Sign() == 0 }
func (f PrimeField) Equal(a, b *big.Int) bool   { return a.Cmp(b) == 0 }
func (f PrimeField) Zero() *big.Int             { return new(big.Int) }
func (f PrimeField) FromInt(i int64) *big.Int   { return f.norm(big.NewInt(i)) }
func (f PrimeField) Exp(a, e *big.Int) *big.Int { return new(big.Int).Exp(a, e, f.M) }

// Sqrt returns a square root of a (mod M) for M = 3 mod 4, or nil if a is a non-residue.
func (f PrimeField) Sqrt(a *big.Int) *big.Int {
	if new(big.Int).And(f.M, big3).Cmp(big3) != 0 {
		// generic Tonelli-Shanks via math/big
		return new(big.Int).ModSqrt(a, f.M)
	}
	e := new(big.Int).Add(f.M, big1)
	e.Rsh(e, 2)
	s := f.Exp(a, e)
	if f.Mul(s, s).Cmp(new(big.Int).Mod(a, f.M)) != 0 {
		return nil
	}
	return s
}

// ---- quadratic extension Fp2 = Fp[u]/(u^2+1) ----------------------------------

type Fp2 struct{ C0, C1 *big.Int }

type QuadField struct{ F PrimeField }

func (q QuadField) Add(a, b Fp2) Fp2 { return Fp2{q.F.Add(a.C0, b.C0), q.F.Add(a.C1, b.C1)} }
func (q QuadField) Sub(a, b Fp2) Fp2 { return Fp2{q.F.Sub(a.C0, b.C0), q.F.Sub(a.C1, b.C1)} }
func (q QuadField) Neg(a Fp2) Fp2    { return Fp2{q.F.Neg(a.C0), q.F.Neg(a.C1)} }
func (q QuadField) Mul(a, b Fp2) Fp2 {
	// (a0 + a1 u)(b0 + b1 u) = a0b0 - a1b1 + (a0b1 + a1b0) u
	return Fp2{
		q.F.Sub(q.F.Mul(a.C0, b.C0), q.F.Mul(a.C1, b.C1)),
		q.F.Add(q.F.Mul(a.C0, b.C1), q.F.Mul(a.C1, b.C0)),
	}
}
func (q QuadField) Inv(a Fp2) Fp2 {
	// 1/(a0 + a1 u) = (a0 - a1 u)/(a0^2 + a1^2)
	n := q.F.Add(q.F.Mul(a.C0, a.C0), q.F.Mul(a.C1, a.C1))
	ni := q.F.Inv(n)
	return Fp2{q.F.Mul(a.C0, ni), q.F.Neg(q.F.Mul(a.C1, ni))}
}
func (q QuadField) IsZero(a Fp2) bool   { return a.C0.Sign() == 0 && a.C1.Sign() == 0 }
func (q QuadField) Equal(a, b Fp2) bool { return a.C0.Cmp(b.C0) == 0 && a.C1.Cmp(b.C1) == 0 }
func (q QuadField) Zero() Fp2           { return Fp2{new(big.Int), new(big.Int)} }
func (q QuadField) FromInt(i int64) Fp2 { return Fp2{q.F.FromInt(i), new(big.Int)} }

// Sqrt returns a square root of a in Fp2 (p = 3 mod 4, u^2 = -1), ok=false if none.
func (q QuadField) Sqrt(a Fp2) (Fp2, bool) {
	f := q.F
	if q.IsZero(a) {
		return q.Zero(), true
	}
	if a.C1.Sign() == 0 {
		// a in Fp: either sqrt(a0) in Fp, or sqrt(-a0)*u
		if s := f.Sqrt(a.C0); s != nil {
			return Fp2{s, new(big.Int)}, true
		}
		s := f.Sqrt(f.Neg(a.C0))
		if s == nil {
			return Fp2{}, false // cannot happen: one of a0, -a0 is a residue
		}
		return Fp2{new(big.Int), s}, true
	}
	// norm must be a square in Fp
	n := f.Add(f.Mul(a.C0, a.C0), f.Mul(a.C1, a.C1))
	sn := f.Sqrt(n)
	if sn == nil {
		return Fp2{}, false
	}
	inv2 := f.Inv(big2)
	// x0^2 = (a0 + sn)/2 or (a0 - sn)/2
	for _, s := range []*big.Int{sn, f.Neg(sn)} {
		t := f.Mul(f.Add(a.C0, s), inv2)
		x0 := f.Sqrt(t)
		if x0 == nil || x0.Sign() == 0 {
			continue
		}
		x1 := f.Mul(a.C1, f.Inv(f.Mul(big2, x0)))
		cand := Fp2{x0, x1}
		if q.Equal(q.Mul(cand, cand), a) {
			return cand, true
		}
	}
	return Fp2{}, false
}

var (
	Fp  = PrimeField{M: P}
	Fr  = PrimeField{M: R}
	Fq2 = QuadField{F: Fp}
)
