package ref

import (
	"math/big"
)

// ECCurve is a named prime-order short Weierstrass curve for the ECDSA reference.
type ECCurve struct {
	Name string
	C    *Curve[*big.Int]
	Fld  PrimeField
	N    *big.Int
	G    Pt[*big.Int]
}

func mkCurve(name, p, a, b, gx, gy, n string) *ECCurve {
	f := PrimeField{M: bi(p)}
	av := new(big.Int).Mod(bi(a), f.M)
	return &ECCurve{
		Name: name,
		Fld:  f,
		C:    &Curve[*big.Int]{F: f, A: av, B: bi(b)},
		N:    bi(n),
		G:    Pt[*big.Int]{X: bi(gx), Y: bi(gy)},
	}
}

var (
	// FIPS 186-4 D.1.2.3
	P256 = mkCurve("P-256",
		"0xffffffff00000001000000000000000000000000ffffffffffffffffffffffff",
		"-3",
		"0x5ac635d8aa3a93e7b3ebbd55769886bc651d06b0cc53b0f63bce3c3e27d2604b",
		"0x6b17d1f2e12c4247f8bce6e563a440f277037d812deb33a0f4a13945d898c296",
		"0x4fe342e2fe1a7f9b8ee7eb4a7c0f9e162bce33576b315ececbb6406837bf51f5",
		"0xffffffff00000000ffffffffffffffffbce6faada7179e84f3b9cac2fc632551")
	// SEC 2 section 2.4.1
	Secp256k1 = mkCurve("secp256k1",
		"0xfffffffffffffffffffffffffffffffffffffffffffffffffffffffefffffc2f",
		"0",
		"7",
		"0x79be667ef9dcbbac55a06295ce870b07029bfcdb2dce28d959f2815b16f81798",
		"0x483ada7726a3c4655da4fbfc0e1108a8fd17b448a68554199c47d08ffb10d4b8",
		"0xfffffffffffffffffffffffffffffffebaaedce6af48a03bbfd25e8cd0364141")
)

// HashToInt takes the leftmost min(len*8, bitlen(n)) bits of the digest (FIPS 186-4 6.4 / SEC1 4.1.3).
func (c *ECCurve) HashToInt(digest []byte) *big.Int {
	nbits := c.N.BitLen()
	nbytes := (nbits + 7) / 8
	d := digest
	if len(d) > nbytes {
		d = d[:nbytes]
	}
	e := new(big.Int).SetBytes(d)
	if excess := len(d)*8 - nbits; excess > 0 {
		e.Rsh(e, uint(excess))
	}
	return e
}

// Verify is textbook ECDSA verification of (r,s) on digest under public point q.
func (c *ECCurve) Verify(q Pt[*big.Int], digest []byte, r, s *big.Int) bool {
	if r.Sign() <= 0 || s.Sign() <= 0 || r.Cmp(c.N) >= 0 || s.Cmp(c.N) >= 0 {
		return false
	}
	if q.Inf || !c.C.IsOnCurve(q) {
		return false
	}
	e := c.HashToInt(digest)
	w := new(big.Int).ModInverse(s, c.N)
	u1 := new(big.Int).Mul(e, w)
	u1.Mod(u1, c.N)
	u2 := new(big.Int).Mul(r, w)
	u2.Mod(u2, c.N)
	pt := c.C.Add(c.C.Mul(c.G, u1), c.C.Mul(q, u2))
	if pt.Inf {
		return false
	}
	v := new(big.Int).Mod(pt.X, c.N)
	return v.Cmp(r) == 0
}

// SignWithNonce produces a textbook signature with a chosen nonce k (for crafted cases).
func (c *ECCurve) SignWithNonce(d *big.Int, digest []byte, k *big.Int) (r, s *big.Int, ok bool) {
	pt := c.C.Mul(c.G, k)
	if pt.Inf {
		return nil, nil, false
	}
	r = new(big.Int).Mod(pt.X, c.N)
	if r.Sign() == 0 {
		return nil, nil, false
	}
	e := c.HashToInt(digest)
	s = new(big.Int).Mul(r, d)
	s.Add(s, e)
	s.Mul(s, new(big.Int).ModInverse(k, c.N))
	s.Mod(s, c.N)
	if s.Sign() == 0 {
		return nil, nil, false
	}
	return r, s, true
}

func (c *ECCurve) Pub(d *big.Int) Pt[*big.Int] { return c.C.Mul(c.G, d) }

// DecodeRaw: 64 bytes x||y, both < p, on curve, not infinity.
func (c *ECCurve) DecodeRaw(b []byte) (Pt[*big.Int], bool) {
	if len(b) != 64 {
		return Pt[*big.Int]{}, false
	}
	x := new(big.Int).SetBytes(b[:32])
	y := new(big.Int).SetBytes(b[32:])
	if x.Cmp(c.Fld.M) >= 0 || y.Cmp(c.Fld.M) >= 0 {
		return Pt[*big.Int]{}, false
	}
	p := Pt[*big.Int]{X: x, Y: y}
	if !c.C.IsOnCurve(p) {
		return Pt[*big.Int]{}, false
	}
	return p, true
}

func (c *ECCurve) EncodeRaw(p Pt[*big.Int]) []byte {
	out := make([]byte, 64)
	p.X.FillBytes(out[:32])
	p.Y.FillBytes(out[32:])
	return out
}

// DecodeCompressed: X9.62 33 bytes, prefix 02/03, x < p, x^3+ax+b square.
func (c *ECCurve) DecodeCompressed(b []byte) (Pt[*big.Int], bool) {
	if len(b) != 33 || (b[0] != 2 && b[0] != 3) {
		return Pt[*big.Int]{}, false
	}
	x := new(big.Int).SetBytes(b[1:])
	if x.Cmp(c.Fld.M) >= 0 {
		return Pt[*big.Int]{}, false
	}
	f := c.Fld
	y2 := f.Add(f.Add(f.Mul(f.Mul(x, x), x), f.Mul(c.C.A, x)), c.C.B)
	y := f.Sqrt(y2)
	if y == nil {
		return Pt[*big.Int]{}, false
	}
	if y.Bit(0) != uint(b[0]&1) {
		y = f.Neg(y)
	}
	return Pt[*big.Int]{X: x, Y: y}, true
}

func (c *ECCurve) EncodeCompressed(p Pt[*big.Int]) []byte {
	out := make([]byte, 33)
	out[0] = 2 + byte(p.Y.Bit(0))
	p.X.FillBytes(out[1:])
	return out
}

// ---- Shamir / Lagrange over F_r ---------------------------------------------------

// LagrangeAtZero returns the coefficients L_i(0) for the abscissae xs (distinct, non-zero).
func LagrangeAtZero(xs []int64) []*big.Int {
	out := make([]*big.Int, len(xs))
	for i := range xs {
		num, den := big.NewInt(1), big.NewInt(1)
		for j := range xs {
			if i == j {
				continue
			}
			num = Fr.Mul(num, Fr.FromInt(xs[j]))
			den = Fr.Mul(den, Fr.FromInt(xs[j]-xs[i]))
		}
		out[i] = Fr.Mul(num, Fr.Inv(den))
	}
	return out
}

// InterpolateAt evaluates at x the unique polynomial of degree < len(xs) through (xs, ys) in F_r.
func InterpolateAt(xs []int64, ys []*big.Int, x int64) *big.Int {
	acc := new(big.Int)
	for i := range xs {
		num, den := big.NewInt(1), big.NewInt(1)
		for j := range xs {
			if i == j {
				continue
			}
			num = Fr.Mul(num, Fr.FromInt(x-xs[j]))
			den = Fr.Mul(den, Fr.FromInt(xs[i]-xs[j]))
		}
		acc = Fr.Add(acc, Fr.Mul(ys[i], Fr.Mul(num, Fr.Inv(den))))
	}
	return acc
}

// PolyEval evaluates a_0 + a_1 x + ... in F_r.
func PolyEval(a []*big.Int, x int64) *big.Int {
	acc := new(big.Int)
	xv := Fr.FromInt(x)
	for i := len(a) - 1; i >= 0; i-- {
		acc = Fr.Add(Fr.Mul(acc, xv), a[i])
	}
	return acc
}
