package ref

import (
	"fmt"
	"math/big"
)

type G1 = Pt[*big.Int]
type G2 = Pt[Fp2]

var (
	E1 = &Curve[*big.Int]{F: Fp, A: new(big.Int), B: big.NewInt(4)}
	E2 = &Curve[Fp2]{F: Fq2, A: Fq2.Zero(), B: Fp2{big.NewInt(4), big.NewInt(4)}}

	// the two generators are the only literal curve constants; validated by SelfTestBLS.
	G1Gen = G1{
		X: bi("0x17f1d3a73197d7942695638c4fa9ac0fc3688c4f9774b905a14e3a3f171bac586c55e83ff97a1aeffb3af00adb22c6bb"),
		Y: bi("0x08b3f481e3aaa0f1a09e30ed741d8ae4fcf5e095d5d00af600db18cb2c04b3edd03cc744a2888ae40caa232946c5e7e1"),
	}
	G2Gen = G2{
		X: Fp2{
			bi("0x024aa2b2f08f0a91260805272dc51051c6e47ad4fa403b02b4510b647ae3d1770bac0326a805bbefd48056c8c121bdb8"),
			bi("0x13e02b6052719f607dacd3a088274f65596bd0d09920b61ab5da61bbdc7f5049334cf11213945d57e5ac7d055d042b7e"),
		},
		Y: Fp2{
			bi("0x0ce5d527727d6e118cc9cdc6da2e351aadfd9baa8cbdd3a76d429a695160d12c923ac9cc3baca289e193548608b82801"),
			bi("0x0606c4a02ea734cc32acd2b02bc28b99cb3e287e85a763af267492ab572e99ab3f370d275cec1da1aaa9075ff05f79be"),
		},
	}
)

// DecodeClass classifies a byte string against the ZCash compressed point format.
type DecodeClass int

const (
	DecOK       DecodeClass = iota // decodes to a curve point (subgroup not judged here)
	DecLen                         // wrong length
	DecFlags                       // bad header bits (not compressed, infinity with other bits/bytes, ...)
	DecRange                       // a coordinate >= p
	DecOffCurve                    // x^3+b is not a square
)

func (d DecodeClass) String() string {
	return [...]string{"ok", "len", "flags", "range", "offcurve"}[d]
}

const (
	G1Len = 48
	G2Len = 96
)

func fpBytes(x *big.Int) []byte { return x.FillBytes(make([]byte, 48)) }

// EncodeG1 returns the canonical ZCash compressed encoding.
func EncodeG1(p G1) []byte {
	out := make([]byte, G1Len)
	if p.Inf {
		out[0] = 0xC0
		return out
	}
	copy(out, fpBytes(p.X))
	out[0] |= 0x80
	if p.Y.Cmp(PHalf) > 0 {
		out[0] |= 0x20
	}
	return out
}

// DecodeG1 decodes per the ZCash format (compressed only). No subgroup check.
func DecodeG1(b []byte) (G1, DecodeClass) {
	if len(b) != G1Len {
		return G1{}, DecLen
	}
	c, inf, s := b[0]>>7, (b[0]>>6)&1, (b[0]>>5)&1
	if c != 1 {
		return G1{}, DecFlags
	}
	if inf == 1 {
		if s != 0 || b[0]&0x1F != 0 {
			return G1{}, DecFlags
		}
		for _, x := range b[1:] {
			if x != 0 {
				return G1{}, DecFlags
			}
		}
		return E1.Infinity(), DecOK
	}
	t := append([]byte{}, b...)
	t[0] &= 0x1F
	x := new(big.Int).SetBytes(t)
	if x.Cmp(P) >= 0 {
		return G1{}, DecRange
	}
	y2 := Fp.Add(Fp.Mul(Fp.Mul(x, x), x), E1.B)
	y := Fp.Sqrt(y2)
	if y == nil {
		return G1{}, DecOffCurve
	}
	if (y.Cmp(PHalf) > 0) != (s == 1) {
		y = Fp.Neg(y)
	}
	return G1{X: x, Y: y}, DecOK
}

func InG1(p G1) bool { return E1.IsOnCurve(p) && E1.Mul(p, R).Inf }
func InG2(p G2) bool { return E2.IsOnCurve(p) && E2.Mul(p, R).Inf }

// Conv is the order in which the two Fp coefficients of an Fp2 element are serialised.
type Conv int

const (
	ZCash   Conv = iota // c1 || c0, as the pairing-friendly-curves draft specifies
	C0First             // c0 || c1 (the mirror image)
)

func (c Conv) String() string { return [...]string{"zcash(c1||c0)", "c0-first(c0||c1)"}[c] }

func fp2Sign(y Fp2) bool {
	if y.C1.Sign() != 0 {
		return y.C1.Cmp(PHalf) > 0
	}
	return y.C0.Cmp(PHalf) > 0
}

func EncodeG2(p G2, cv Conv) []byte {
	out := make([]byte, G2Len)
	if p.Inf {
		out[0] = 0xC0
		return out
	}
	hi, lo := p.X.C1, p.X.C0
	if cv == C0First {
		hi, lo = lo, hi
	}
	copy(out, fpBytes(hi))
	copy(out[48:], fpBytes(lo))
	out[0] |= 0x80
	if fp2Sign(p.Y) {
		out[0] |= 0x20
	}
	return out
}

func DecodeG2(b []byte, cv Conv) (G2, DecodeClass) {
	if len(b) != G2Len {
		return G2{}, DecLen
	}
	c, inf, s := b[0]>>7, (b[0]>>6)&1, (b[0]>>5)&1
	if c != 1 {
		return G2{}, DecFlags
	}
	if inf == 1 {
		if s != 0 || b[0]&0x1F != 0 {
			return G2{}, DecFlags
		}
		for _, x := range b[1:] {
			if x != 0 {
				return G2{}, DecFlags
			}
		}
		return E2.Infinity(), DecOK
	}
	t := append([]byte{}, b...)
	t[0] &= 0x1F
	hi := new(big.Int).SetBytes(t[:48])
	lo := new(big.Int).SetBytes(t[48:])
	if hi.Cmp(P) >= 0 || lo.Cmp(P) >= 0 {
		return G2{}, DecRange
	}
	x := Fp2{C0: lo, C1: hi}
	if cv == C0First {
		x = Fp2{C0: hi, C1: lo}
	}
	y2 := Fq2.Add(Fq2.Mul(Fq2.Mul(x, x), x), E2.B)
	y, ok := Fq2.Sqrt(y2)
	if !ok {
		return G2{}, DecOffCurve
	}
	if fp2Sign(y) != (s == 1) {
		y = Fq2.Neg(y)
	}
	return G2{X: x, Y: y}, DecOK
}

// ScalarBytes is the 32-byte big-endian encoding of k mod r.
func ScalarBytes(k *big.Int) []byte {
	return new(big.Int).Mod(k, R).FillBytes(make([]byte, 32))
}

// ---- torsion / non-subgroup helpers ---------------------------------------------

// RandE1 returns a pseudo-random point of E1 (not necessarily in G1) derived from seed bytes.
func RandE1(seed []byte) G1 {
	x := new(big.Int).SetBytes(seed)
	x.Mod(x, P)
	for {
		y2 := Fp.Add(Fp.Mul(Fp.Mul(x, x), x), E1.B)
		if y := Fp.Sqrt(y2); y != nil {
			return G1{X: new(big.Int).Set(x), Y: y}
		}
		x = Fp.Add(x, big1)
	}
}

func RandE2(seed []byte) G2 {
	h := new(big.Int).SetBytes(seed)
	x := Fp2{C0: new(big.Int).Mod(h, P), C1: new(big.Int).Mod(new(big.Int).Rsh(h, 7), P)}
	for {
		y2 := Fq2.Add(Fq2.Mul(Fq2.Mul(x, x), x), E2.B)
		if y, ok := Fq2.Sqrt(y2); ok {
			return G2{X: x, Y: y}
		}
		x = Fp2{C0: Fp.Add(x.C0, big1), C1: x.C1}
	}
}

// TorsionE1 returns a point of E1 of exact prime order q (q | h1), or ok=false.
func TorsionE1(q int64, seed []byte) (G1, bool) {
	qq := big.NewInt(q)
	if new(big.Int).Mod(H1, qq).Sign() != 0 {
		return G1{}, false
	}
	// kill everything except the q-part: multiply by r * h1 / q^e where q^e || h1, then
	// climb down to exact order q.
	cof := new(big.Int).Set(H1)
	for new(big.Int).Mod(cof, qq).Sign() == 0 {
		cof.Div(cof, qq)
	}
	k := new(big.Int).Mul(cof, R)
	for i := 0; i < 64; i++ {
		pt := E1.Mul(RandE1(append(seed, byte(i))), k)
		if pt.Inf {
			continue
		}
		for !E1.Mul(pt, qq).Inf {
			pt = E1.Mul(pt, qq)
		}
		return pt, true
	}
	return G1{}, false
}

// TorsionE2 returns a point of E2 of exact prime order q (q | h2), or ok=false.
func TorsionE2(q int64, seed []byte) (G2, bool) {
	qq := big.NewInt(q)
	if new(big.Int).Mod(H2, qq).Sign() != 0 {
		return G2{}, false
	}
	cof := new(big.Int).Set(H2)
	for new(big.Int).Mod(cof, qq).Sign() == 0 {
		cof.Div(cof, qq)
	}
	k := new(big.Int).Mul(cof, R)
	for i := 0; i < 64; i++ {
		pt := E2.Mul(RandE2(append(seed, byte(i))), k)
		if pt.Inf {
			continue
		}
		for !E2.Mul(pt, qq).Inf {
			pt = E2.Mul(pt, qq)
		}
		return pt, true
	}
	return G2{}, false
}

// NonSubgroupE1 returns a point on E1 outside G1 (cofactor-cleared by r only).
func NonSubgroupE1(seed []byte) G1 {
	for i := 0; ; i++ {
		pt := E1.Mul(RandE1(append(seed, byte(i))), R)
		if !pt.Inf {
			return pt
		}
	}
}

func NonSubgroupE2(seed []byte) G2 {
	for i := 0; ; i++ {
		pt := E2.Mul(RandE2(append(seed, byte(i))), R)
		if !pt.Inf {
			return pt
		}
	}
}

// SelfTestBLS validates every constant against facts that do not come from the library.
func SelfTestBLS() error {
	if P.String() != "4002409555221667393417789825735904156556882819939007885332058136124031650490837864442687629129015664037894272559787" {
		return fmt.Errorf("p derivation mismatch: %s", P)
	}
	if R.String() != "52435875175126190479447740508185965837690552500527637822603658699938581184513" {
		return fmt.Errorf("r derivation mismatch: %s", R)
	}
	if !P.ProbablyPrime(20) || !R.ProbablyPrime(20) {
		return fmt.Errorf("p or r not prime")
	}
	if new(big.Int).And(P, big3).Cmp(big3) != 0 {
		return fmt.Errorf("p != 3 mod 4")
	}
	if H1.String() != "76329603384216526031706109802092473003" {
		return fmt.Errorf("h1 mismatch %s", H1)
	}
	// h1 = 3 * 11^2 * 10177^2 * 859267^2 * 52437899^2
	f := big.NewInt(3)
	for _, q := range []int64{11, 10177, 859267, 52437899} {
		f.Mul(f, big.NewInt(q*q))
	}
	if f.Cmp(H1) != 0 {
		return fmt.Errorf("h1 factorisation mismatch")
	}
	for _, q := range []int64{13, 23, 2713} {
		if new(big.Int).Mod(H2, big.NewInt(q)).Sign() != 0 {
			return fmt.Errorf("h2 not divisible by %d", q)
		}
	}
	// #E1 = h1*r must satisfy Hasse and generators must be on curve and of order r
	if !E1.IsOnCurve(G1Gen) || !E2.IsOnCurve(G2Gen) {
		return fmt.Errorf("generator not on curve")
	}
	if !E1.Mul(G1Gen, R).Inf || !E2.Mul(G2Gen, R).Inf {
		return fmt.Errorf("generator order != r")
	}
	// draft-irtf-cfrg-pairing-friendly-curves compressed generator encodings
	const g1hex = "97f1d3a73197d7942695638c4fa9ac0fc3688c4f9774b905a14e3a3f171bac586c55e83ff97a1aeffb3af00adb22c6bb"
	const g2hex = "93e02b6052719f607dacd3a088274f65596bd0d09920b61ab5da61bbdc7f5049334cf11213945d57e5ac7d055d042b7e024aa2b2f08f0a91260805272dc51051c6e47ad4fa403b02b4510b647ae3d1770bac0326a805bbefd48056c8c121bdb8"
	if fmt.Sprintf("%x", EncodeG1(G1Gen)) != g1hex {
		return fmt.Errorf("G1 generator encoding mismatch")
	}
	if fmt.Sprintf("%x", EncodeG2(G2Gen, ZCash)) != g2hex {
		return fmt.Errorf("G2 generator encoding mismatch")
	}
	// codec round trips, both signs
	for _, k := range []int64{1, 2, 3, 5, 77, 123456789} {
		p1 := E1.Mul(G1Gen, big.NewInt(k))
		for _, p := range []G1{p1, E1.Neg(p1)} {
			d, cls := DecodeG1(EncodeG1(p))
			if cls != DecOK || !E1.Equal(d, p) {
				return fmt.Errorf("G1 codec round trip k=%d", k)
			}
		}
		p2 := E2.Mul(G2Gen, big.NewInt(k))
		for _, p := range []G2{p2, E2.Neg(p2)} {
			for _, cv := range []Conv{ZCash, C0First} {
				d, cls := DecodeG2(EncodeG2(p, cv), cv)
				if cls != DecOK || !E2.Equal(d, p) {
					return fmt.Errorf("G2 codec round trip k=%d", k)
				}
			}
		}
	}
	// group law sanity: (a+b)G = aG + bG ; [r-1]G = -G
	a, b := big.NewInt(0xdeadbeef), big.NewInt(0x12345)
	if !E1.Equal(E1.Mul(G1Gen, new(big.Int).Add(a, b)), E1.Add(E1.Mul(G1Gen, a), E1.Mul(G1Gen, b))) {
		return fmt.Errorf("G1 group law")
	}
	if !E2.Equal(E2.Mul(G2Gen, new(big.Int).Add(a, b)), E2.Add(E2.Mul(G2Gen, a), E2.Mul(G2Gen, b))) {
		return fmt.Errorf("G2 group law")
	}
	if !E1.Equal(E1.Mul(G1Gen, new(big.Int).Sub(R, big1)), E1.Neg(G1Gen)) {
		return fmt.Errorf("[r-1]G1")
	}
	// torsion points exist, are on curve, have the stated order and are outside the subgroup
	t3, ok := TorsionE1(3, []byte("selftest"))
	if !ok || !E1.IsOnCurve(t3) || t3.Inf || !E1.Mul(t3, big3).Inf || InG1(t3) {
		return fmt.Errorf("E1 3-torsion")
	}
	t13, ok := TorsionE2(13, []byte("selftest"))
	if !ok || !E2.IsOnCurve(t13) || t13.Inf || !E2.Mul(t13, big.NewInt(13)).Inf || InG2(t13) {
		return fmt.Errorf("E2 13-torsion")
	}
	ns := NonSubgroupE1([]byte("x"))
	if !E1.IsOnCurve(ns) || InG1(ns) {
		return fmt.Errorf("NonSubgroupE1")
	}
	ns2 := NonSubgroupE2([]byte("x"))
	if !E2.IsOnCurve(ns2) || InG2(ns2) {
		return fmt.Errorf("NonSubgroupE2")
	}
	// Fp2 sqrt sanity
	for i := int64(1); i < 20; i++ {
		v := Fp2{big.NewInt(i * 7), big.NewInt(i*i + 3)}
		sq := Fq2.Mul(v, v)
		s, ok := Fq2.Sqrt(sq)
		if !ok || !Fq2.Equal(Fq2.Mul(s, s), sq) {
			return fmt.Errorf("Fp2 sqrt")
		}
	}
	return nil
}
