package ref

import "testing"

func TestSelfAll(t *testing.T) {
	if err := SelfTestAll(); err != nil {
		t.Fatal(err)
	}
}
